"""C20 Rotamer hysteresis: carried state, first-frame binning, gate
construction shape, transition bookkeeping.

The constructs are located by ROLE (the array that is returned, the loop that
calls the exit test, the loop-carried name, the two names that are returned by
get_gates / unpacked from it, the branch selected by the dimensionality test)
and their contents are compared after expansion of temporaries against lists
of accepted forms (match.classify: match / near -> violation / far ->
incomplete).  Guards are read off the CFG (Assume nodes that dominate a
statement), so if/else, guard-clause and early-return spellings are the same
thing to the rules.  The exit test of is_buffered_transition is decided
exactly: it is a boolean function of order comparisons between three numbers,
hence determined by its value on the 13 weak orderings of (lower, upper,
angle); the loop-free body is evaluated on {0,1,2}^3 and compared with the
specification."""
import ast
import copy
import itertools
from fractions import Fraction

from ..cfg import Assume, header_exprs, header_uses
from ..core import (base_name, call_name, const_value, kwarg, names_loaded, params,
                    target_names, u, walk_expr, walk_local)
from ..patterns import (Cmp, assigns_to, calls_in, canon_atom,
                        check_no_arg_mutation, conjuncts, finfo, returns_of,
                        subscript_stores)
from ..match import C, canon, classify

RO = 'enspara/geometry/rotamer.py'
DI = 'enspara/cards/disorder.py'
GATE = 'is_buffered_transition'
GATES = 'get_gates'

EXPLANATION = (
    'Static decision of the structural necessary conditions of the hysteresis '
    'state machine: (D1) in _rotamers the carried state is reassigned only '
    'inside the branch guarded by is_buffered_transition(cur_state, <angle of '
    'frame i>, hard_boundaries, buffer_width), the re-binning uses that same '
    'frame\'s angle and the same boundaries, rotamers[i] receives the carried '
    'state on every path through a trip (after the possible update), frame 0 is '
    'binned by the hard boundaries (strict <; inline search loop, digitize, or a '
    'module-level search helper whose parameters are bound to the call '
    'arguments) and the carried state starts from it; the angle, boundaries and '
    'buffer that reach the exit test are the values _rotamers was CALLED with '
    '(symbolic forward substitution down to the entry values: a rebinding such '
    'as `buffer_width = buffer_width or 15` is a different function of the '
    'argument - it replaces an explicit zero buffer); (D2) transitions are the slice '
    'lemma with L = 1 along the frame axis, != 0, with one length entry per '
    'input row (np.bincount with minlength); (D3) gate construction, decided '
    'semantically: for every literal boundary set the library passes and every '
    'state of it, the loop-free get_gates is evaluated with the buffer kept as a '
    'symbol (numbers are affine functions of the buffer; source literals are '
    'folded) and must return (360 if boundaries[s] == 0 else boundaries[s]) - '
    'buffer and (0 if boundaries[s + 1] == 360 else boundaries[s + 1]) + buffer, '
    'in that order - whatever the spelling; the exit test '
    'is inverted for the wrap-around basin (decided exactly over the weak '
    'orderings of lower gate, upper gate and angle); a decision '
    'is_buffered_transition takes from basin INDICES alone (state against the '
    'basin np.digitize puts the new angle in) is enumerated over the index pairs '
    'of the library\'s basin counts: "transition" for two basins that share a '
    'boundary - also through the 0/360 seam - or "no transition" for two '
    'different basins contradicts the hysteresis / the zero-buffer case; (D5) the '
    'functions on the path _rotamers -> is_buffered_transition -> get_gates and '
    'transitions read no object that persists between calls and is written at '
    'run time (module-level container, global, mutable default), except a memo '
    'table whose key contains every parameter the stored value is computed from '
    '(backward slice over reaching definitions and branch conditions): a key that '
    'omits one - the buffer width - hands out the gates of an earlier call.  '
    'Constructs are located '
    'by role and compared modulo temporaries, guard polarity and call '
    'spelling; an unrecognised restructuring is reported as incomplete.  '
    'Added after the fourth hunt: (D3.buffer-range) for the LITERAL boundary '
    'sets the wrappers pass, the buffer range that the validation of _rotamers '
    'admits (folded with those literals) keeps widest basin + 2 * buffer '
    'within 360 - the condition under which the swapped gates of the '
    'wrap-around basin stay in the order the exit test relies on - or the exit '
    'test treats a widened basin that spans the circle as not leavable '
    '(recognised by form, decided by a truth table together with the weak '
    'orderings); (D1.angles-in-range) every in-place wrap `a[a < 0] += 360` in '
    'rotamer.py is followed, before the array is used, by a clamp / re-wrap of '
    'the values the floating-point sum rounds up to 360.  Added in the fourth '
    'hardening wave: (D3.gates.composed) the exit decision as the machine uses '
    'it - is_buffered_transition with get_gates and any module-level helper '
    'interpreted inside it - is compared with the property itself (transition '
    'iff the angle lies outside the arc [boundaries[s] - buffer, boundaries[s + 1] '
    '+ buffer] of the circle; an arc of 360 degrees or more cannot be left) for '
    'every literal boundary set, every state, every buffer the validation '
    'admits and every angle off the gate values, with buffer and angle kept as '
    'symbols: numbers are affine in the two, each comparison draws a line in '
    'the buffer-angle plane, both sides are constant on the faces of the '
    'arrangement of those lines, and the faces are enumerated exactly in '
    'rational arithmetic (a finite abstract domain; no solver).  It decides '
    'exit tests that mix conditions on the state or the boundaries with '
    'comparisons of the gates - e.g. a covering guard that recognises the '
    'wrap-around basin by ONE of its two seam tests - which the '
    'weak-ordering rule cannot read.  The gate ARITHMETIC for SYMBOLIC '
    'boundary sets is still not decided: that needs a solver, a different '
    'technique family; only source literals are folded.  Added in the fifth '
    'hardening wave (survivors of the generic mutants): (D1.angles-wrap-mask) '
    'the in-place wrap moves exactly the negative angles (strict `< 0`: an '
    'angle of 0 must not cross the seam); (D3.gates.buffer-admitted) no '
    'validation condition of _rotamers excludes a buffer of [0, (360 - widest '
    'basin) / 2) for a literal boundary set the wrappers pass (each condition '
    'is folded to a half-line of buffers); (D1.drivers.*) every wrapper runs '
    'the machine once per COLUMN of the (n_frames, n_dihedrals) angle array - '
    'the one it brought into [0, 360) - inside a loop over the extent of axis '
    '1, stores the states into the same column of the array it returns first '
    'and passes its own buffer parameter on; a function that fetches dihedral '
    'angles but returns an untouched allocation never ran the machine; '
    '(D1.drivers.angle-source) for the literal dihedral types the wrappers '
    'request, the membership test of dihedral_angles (folded over the literal '
    'list) leads to the return of the pair they unpack, not to the reject value.')


# ---------------------------------------------------------------------------
# small semantic helpers (candidates for a shared module)

def _within(mod, node, anc):
    """`node` lies (properly or not) inside the subtree of `anc`."""
    n = node
    while n is not None:
        if n is anc:
            return True
        n = mod.parent.get(n)
    return False


def governing(fi, stmt, inside=None):
    """The branch assumptions under which `stmt` executes: every Assume node
    (test, polarity) of the CFG that dominates it - whatever the spelling
    (if/else, inverted test, guard clause with continue/return/raise).  With
    `inside`, only assumptions made inside that compound statement."""
    out = []
    for n in fi.cfg.nodes:
        if isinstance(n, Assume) and fi.cfg.dominates(n, stmt):
            if inside is None or (n.owner is not inside and _within(fi.mod, n.owner, inside)):
                out.append(n)
    return out


def guard_atoms(fi, stmt, inside=None):
    """Conjunction of atomic conditions known to hold at `stmt`: list of Cmp /
    ('expr', e, polarity); None if some governing test is not a conjunction
    under its polarity."""
    out = []
    for n in governing(fi, stmt, inside):
        c = conjuncts(n.test, n.polarity)
        if c is None:
            return None
        out += c
    return out


def bind_args(call, names):
    """{parameter: argument expression} of a call against a positional
    signature (positional or keyword spelling); None if it cannot be bound."""
    if any(isinstance(a, ast.Starred) for a in call.args) or any(k.arg is None for k in call.keywords) \
            or len(call.args) > len(names):
        return None
    out = dict(zip(names, call.args))
    for k in call.keywords:
        if k.arg in out or k.arg not in names:
            return None
        out[k.arg] = k.value
    return out


_SIGS = {
    'np.digitize': ['x', 'bins', 'right'],
    'np.bincount': ['x', 'weights', 'minlength'],
    'np.searchsorted': ['a', 'v', 'side', 'sorter'],
    'ra.RaggedArray': ['array', 'lengths', 'error_checking', 'copy'],
    'RaggedArray': ['array', 'lengths', 'error_checking', 'copy'],
}


class _Pos(ast.NodeTransformer):
    """Keyword arguments that name the next positional parameter become
    positional (np.digitize(x, bins=b) -> np.digitize(x, b))."""

    def visit_Call(self, node):
        self.generic_visit(node)
        sig = _SIGS.get(call_name(node) or '')
        if sig and not any(isinstance(a, ast.Starred) for a in node.args) and all(k.arg for k in node.keywords):
            kws = {k.arg: k.value for k in node.keywords}
            args = list(node.args)
            while len(args) < len(sig) and sig[len(args)] in kws:
                args.append(kws.pop(sig[len(args)]))
            node.args = args
            node.keywords = [k for k in node.keywords if k.arg in kws]
        return node


def _pos(tree):
    """Canonical tree with positional call spelling (on a private copy)."""
    t = _Pos().visit(canon(tree))
    ast.fix_missing_locations(t)
    return t


def single_def_value(fi, name_node):
    """The defining expression of a Name use that has ONE reaching definition
    `n = <expr>` none of whose operands is rebound between the definition and
    the use (purity of <expr> is the caller's business); else None."""
    if not (isinstance(name_node, ast.Name) and isinstance(name_node.ctx, ast.Load)):
        return None
    try:
        defs = fi.defs_of_use(name_node)
    except Exception:
        return None
    if len(defs) != 1:
        return None
    site = next(iter(defs))
    if site in ('PARAM', 'UNBOUND') or not isinstance(site, (ast.Assign, ast.AnnAssign)):
        return None
    v = fi.def_value(site, name_node.id)
    if v is None:
        return None
    use = fi.stmt(name_node)
    for m in walk_expr(v):
        if isinstance(m, ast.Name) and isinstance(m.ctx, ast.Load) and fi.rd.defs_at(site, m.id) != fi.rd.defs_at(use, m.id):
            return None
    return v


def value_call(fi, e, callee, depth=4):
    """`e` denotes the result of a call to the module-level function `callee`
    evaluated with the operands current at `e`: the call itself, or a name
    that stands for it (single_def_value).  Returns the Call node."""
    if isinstance(e, ast.Call):
        return e if call_name(e) == callee else None
    v = single_def_value(fi, e) if depth > 0 else None
    return value_call(fi, v, callee, depth - 1) if v is not None else None


def resolved_conjuncts(fi, test, polarity, depth=4):
    """patterns.conjuncts with named boolean sub-conditions (`stays = not f(x)`
    ... `if stays:`) replaced by their definitions."""
    cs = conjuncts(test, polarity)
    if cs is None:
        return None
    out = []
    for c in cs:
        if isinstance(c, tuple) and isinstance(c[1], ast.Name) and depth > 0:
            v = single_def_value(fi, c[1])
            if isinstance(v, (ast.UnaryOp, ast.BoolOp, ast.Compare)):
                sub = resolved_conjuncts(fi, v, c[2], depth - 1)
                if sub is None:
                    return None
                out += sub
                continue
        out.append(c)
    return out


def loop_carried(fi, loop):
    """Names whose value flows from one trip of `loop` into the next: some use
    inside the loop is reached both by a definition outside the loop and by a
    definition inside it (the loop variable itself excluded)."""
    out = []
    for s in fi.cfg.nodes:
        if isinstance(s, (str, Assume)) or s is loop or not _within(fi.mod, s, loop):
            continue
        for nm in header_uses(s):
            defs = fi.rd.defs_at(s, nm.id)
            inner = [d for d in defs if not isinstance(d, str) and d is not loop and _within(fi.mod, d, loop)]
            outer = [d for d in defs if isinstance(d, str) or (d is not loop and not _within(fi.mod, d, loop))]
            if inner and outer and nm.id not in out and nm.id not in target_names(loop.target):
                out.append(nm.id)
    return out


def _worst(verdicts):
    """Combine classify() verdicts of the parts of one construct."""
    for kind in ('near', 'far'):
        for v in verdicts:
            if v[0] == kind:
                return v
    return ('match', {})


def _cmp_node(fi, c, scalars=None):
    """Compare node of an atomic Cmp with both sides expanded.  `scalars`:
    {name: (definition site, expanded value)} of immutable scalars that an
    augmented assignment elsewhere merely rebinds (fi.expand treats `x -= b`
    as an in-place mutation of an array): a use reached by that definition
    only is replaced by the value."""
    def side(e):
        sub = {}
        for n in walk_expr(e):
            if isinstance(n, ast.Name) and isinstance(n.ctx, ast.Load) and scalars and n.id in scalars \
                    and fi.defs_of_use(n) == {scalars[n.id][0]}:
                sub[n.id] = scalars[n.id][1]
        bad = {n.id for n in walk_expr(e) if isinstance(n, ast.Name) and scalars and n.id in scalars} - set(sub)
        x = fi.expand(e)

        class S(ast.NodeTransformer):
            def visit_Name(self, n):
                return copy.deepcopy(sub[n.id]) if n.id in sub and n.id not in bad else n
        return S().visit(x)
    return ast.Compare(left=side(c.lhs), ops=[c.op()], comparators=[side(c.rhs)])


class Unresolved(Exception):
    pass


def entry_expand(fi, e, at, stop=(), depth=10, numbers=()):
    """Symbolic forward substitution down to the values the function was
    ENTERED with: a copy of `e` (evaluated at statement `at`) in which every
    local name is replaced by its single reaching definition, whose own
    operands are read AT THE DEFINITION SITE - so a rebinding of a parameter
    (`w = w or 15`, `w = abs(w)`, `w += 1`) shows up as a function of the
    entry value instead of hiding behind the unchanged name.  A Name left in
    the result is a parameter at its entry value, a name in `stop`, a
    global, or a local object that is mutated in place (identity only).
    A definition of a parameter in `numbers` (the caller passes a number,
    never None) that sits under `if <parameter> is None:` is dead and ignored.
    Raises Unresolved when a name has several reaching definitions, a
    non-pure definition, or an operand mutated between definition and use.
    (fi.expand stops at a name whose operands were rebound: that is the
    right thing for recognising temporaries, the wrong thing for asking
    'is this still the caller's value?'.)"""
    from ..normal import is_pure
    pnames = set(params(fi.fn))

    def name(n, at, d):
        if n.id in stop or not isinstance(n.ctx, ast.Load):
            return ast.Name(id=n.id, ctx=ast.Load())
        defs = fi.rd.defs_at(at, n.id)
        if len(defs) > 1 and n.id in numbers:
            defs = {x for x in defs if isinstance(x, str) or not _under_is_none(fi, x, n.id)}
        if not defs or defs == {'UNBOUND'} or defs == {'PARAM'}:
            return ast.Name(id=n.id, ctx=ast.Load())
        if len(defs) != 1 or d <= 0:
            raise Unresolved('%s has %d reaching definitions' % (n.id, len(defs)))
        site = next(iter(defs))
        if isinstance(site, ast.AugAssign) and isinstance(site.target, ast.Name) and site.target.id == n.id and is_pure(site.value):
            # rd.defs_at(site, x) are the definitions that reach the ENTRY of `site`
            return ast.BinOp(left=name(ast.Name(id=n.id, ctx=ast.Load()), site, d - 1), op=site.op, right=ex(site.value, site, d - 1))
        v = fi.def_value(site, n.id) if isinstance(site, (ast.Assign, ast.AnnAssign)) else None
        if v is None or isinstance(v, ast.GeneratorExp) or not is_pure(v):
            raise Unresolved('definition of %s at line %s is not a pure expression' % (n.id, getattr(site, 'lineno', '?')))
        if fi._mutated_in_place(n.id):
            if n.id in pnames:
                raise Unresolved('%s is rebound and mutated in place' % n.id)
            return ast.Name(id=n.id, ctx=ast.Load())
        for m in walk_expr(v):
            if isinstance(m, ast.Name) and isinstance(m.ctx, ast.Load):
                for ms in fi._mutated_in_place(m.id):
                    if ms is not at and ms is not site and fi.cfg.reachable(site, ms) and fi.cfg.reachable(ms, at, avoiding=[site]):
                        raise Unresolved('%s is mutated between the definition of %s and its use' % (m.id, n.id))
        return ex(v, site, d - 1)

    def ex(e, at, d):
        if isinstance(e, ast.Name):
            return name(e, at, d)
        if not isinstance(e, ast.AST) or isinstance(e, (ast.expr_context, ast.operator, ast.unaryop, ast.boolop, ast.cmpop)):
            return e
        bound = set()
        if isinstance(e, (ast.ListComp, ast.SetComp, ast.GeneratorExp, ast.DictComp)):
            bound = {t.id for g in e.generators for t in ast.walk(g.target) if isinstance(t, ast.Name)}
        if bound:
            # a comprehension is kept as it is, provided it reads no rebound local
            for x in ast.walk(e):
                if isinstance(x, ast.Name) and isinstance(x.ctx, ast.Load) and x.id not in bound:
                    ds = fi.rd.defs_at(at, x.id)
                    if ds and ds != {'UNBOUND'} and ds != {'PARAM'}:
                        raise Unresolved('comprehension over the local %s' % x.id)
            return copy.deepcopy(e)
        new = type(e)()
        for f in e._fields:
            val = getattr(e, f, None)
            if isinstance(val, list):
                setattr(new, f, [ex(x, at, d) for x in val])
            elif isinstance(val, ast.AST):
                setattr(new, f, ex(val, at, d))
            else:
                setattr(new, f, val)
        return ast.copy_location(new, e) if hasattr(e, 'lineno') else new
    return ex(e, at, depth)


def _under_is_none(fi, stmt, p):
    """`stmt` executes only if the parameter `p`, still at its entry value,
    `is None`."""
    for n in governing(fi, stmt):
        for c in conjuncts(n.test, n.polarity) or []:
            if isinstance(c, Cmp) and c.op is ast.Is and isinstance(c.lhs, ast.Name) and c.lhs.id == p \
                    and isinstance(c.rhs, ast.Constant) and c.rhs.value is None and fi.defs_of_use(c.lhs) == {'PARAM'}:
                return True
    return False


_ARRAY_CONV = ('np.asarray', 'np.asanyarray', 'np.ascontiguousarray', 'np.array', 'numpy.asarray', 'numpy.array')


def value_preserving(tree, numbers=()):
    """Canonical copy of `tree` without conversions that keep the VALUES of
    their operand (np.asarray(x) / np.array(x) / x.copy() / x.astype(float)
    with at most a float dtype), and with the None-default idiom resolved for
    the names in `numbers` (known to hold numbers, never None):
    `x is None` -> False, `A if False else B` -> B.  `x or d` is NOT resolved:
    it replaces a falsy 0."""
    def floaty(k):
        return k.arg == 'dtype' and u(k.value) in ('float', 'np.float64', "'float'", "'float64'", 'np.double', 'np.float_')

    class V(ast.NodeTransformer):
        def visit_Call(self, n):
            self.generic_visit(n)
            cn = call_name(n) or ''
            if cn in _ARRAY_CONV and len(n.args) == 1 and all(floaty(k) or (k.arg == 'copy') for k in n.keywords):
                return n.args[0]
            if isinstance(n.func, ast.Attribute) and n.func.attr == 'copy' and not n.args and not n.keywords:
                return n.func.value
            if isinstance(n.func, ast.Attribute) and n.func.attr == 'astype' and len(n.args) == 1 and not n.keywords \
                    and u(n.args[0]) in ('float', 'np.float64', "'float'", "'float64'"):
                return n.func.value
            return n

        def visit_Compare(self, n):
            self.generic_visit(n)
            if len(n.ops) == 1 and isinstance(n.ops[0], (ast.Is, ast.IsNot)):
                l, r = n.left, n.comparators[0]
                if isinstance(l, ast.Constant) and l.value is None:
                    l, r = r, l
                if isinstance(l, ast.Name) and l.id in numbers and isinstance(r, ast.Constant) and r.value is None:
                    return ast.Constant(value=isinstance(n.ops[0], ast.IsNot))
            return n

        def visit_IfExp(self, n):
            self.generic_visit(n)
            if isinstance(n.test, ast.Constant) and isinstance(n.test.value, bool):
                return n.body if n.test.value else n.orelse
            return n
    t = V().visit(canon(tree))
    ast.fix_missing_locations(t)
    return t


def _subst(tree, mapping):
    """Copy of `tree` with every loaded Name in `mapping` replaced."""
    class S(ast.NodeTransformer):
        def visit_Name(self, n):
            return copy.deepcopy(mapping[n.id]) if isinstance(n.ctx, ast.Load) and n.id in mapping else n
    return S().visit(copy.deepcopy(tree))


def helper_value(mod, call, depth=3):
    """The value of a call `h(a1, ..)` of a module-level VALUE helper as an
    expression over the caller's (pure) argument expressions; None if `h` is
    not such a helper.  A value helper has, after the docstring, only
    assignments of pure expressions to plain local names (no parameter is
    rebound, nothing is mutated) and one final `return <pure expr>`: the call
    then equals the return expression with the temporaries expanded and the
    parameters replaced by the arguments, evaluated where the call stands."""
    from ..normal import is_pure
    if not isinstance(call.func, ast.Name) or depth <= 0:
        return None
    h = mod.functions.get(call.func.id)
    if h is None or h.decorator_list or h.args.vararg or h.args.kwarg or h.args.kwonlyargs:
        return None
    hp = params(h)
    bnd = bind_args(call, hp)
    if bnd is None or set(bnd) != set(hp) or not all(is_pure(a) for a in bnd.values()):
        return None
    body = [st for k, st in enumerate(h.body)
            if not (isinstance(st, ast.Expr) and isinstance(st.value, ast.Constant)) and not isinstance(st, ast.Pass)]
    if not body or not isinstance(body[-1], ast.Return) or body[-1].value is None:
        return None
    local = set()
    for st in body[:-1]:
        if not (isinstance(st, ast.Assign) and len(st.targets) == 1 and isinstance(st.targets[0], ast.Name) and is_pure(st.value)):
            return None
        local.add(st.targets[0].id)
    if local & set(hp):
        return None
    hfi = finfo(mod, h)
    rv = inline_values(mod, hfi.expand(body[-1].value), depth - 1)
    if not is_pure(rv) or any(isinstance(x, ast.Name) and x.id in local for x in ast.walk(rv)):
        return None
    if local & {x for a in bnd.values() for x in names_loaded(a)}:
        return None
    return _subst(rv, bnd)


def inline_values(mod, expr, depth=3):
    """`expr` with every call of a module-level value helper replaced by its value."""
    class R(ast.NodeTransformer):
        def visit_Call(self, n):
            self.generic_visit(n)
            v = helper_value(mod, n, depth)
            return ast.copy_location(v, n) if v is not None else n
    t = R().visit(copy.deepcopy(expr))
    ast.fix_missing_locations(t)
    return t


def _enclosing_loop(mod, node, fn):
    n = mod.parent.get(node)
    while n is not None and n is not fn:
        if isinstance(n, (ast.For, ast.While)):
            return n
        n = mod.parent.get(n)
    return None


_INT_TYPES = {'int', 'int8', 'int16', 'int32', 'int64', 'intp', 'intc', 'short', 'long', 'longlong', 'uint8', 'uint16', 'uint32', 'uint64',
              'uint', 'uintp', 'i1', 'i2', 'i4', 'i8', 'u1', 'u2', 'u4', 'u8', 'int_'}
_BOOL_TYPES = {'bool', 'bool_', 'bool8', '?', 'b1'}
_ALLOC_DTYPE_POS = {'np.ones': 1, 'np.zeros': 1, 'np.empty': 1, 'np.full': 2, 'np.ones_like': 1, 'np.zeros_like': 1, 'np.empty_like': 1,
                    'np.full_like': 2, 'np.array': 1, 'np.asarray': 1, 'np.arange': None}


def _dtype_kind(val):
    """('int' | 'bool' | 'other' | 'unknown', text): the element type an
    array-valued expression is given explicitly - the `dtype` of the
    allocation call or the argument of a trailing .astype(); 'unknown' when
    none or several different ones are spelled out."""
    specs = []
    for c in ast.walk(val):
        if not isinstance(c, ast.Call):
            continue
        cn = (call_name(c) or '').replace('numpy.', 'np.')
        d = kwarg(c, 'dtype')
        if d is None and isinstance(c.func, ast.Attribute) and c.func.attr == 'astype' and len(c.args) >= 1:
            d = c.args[0]
        pos = _ALLOC_DTYPE_POS.get(cn)
        if d is None and pos is not None and len(c.args) > pos:
            d = c.args[pos]
        if d is not None:
            specs.append(d)
    texts = set()
    for d in specs:
        t = const_value(d) if isinstance(const_value(d), str) else u(d)
        for pre in ('np.', 'numpy.', 'np.dtype(', 'numpy.dtype('):
            if t.startswith(pre):
                t = t[len(pre):]
        t = t.rstrip(')').strip('\'"').lstrip('<>=|')
        texts.add(t)
    if len(texts) != 1:
        return 'unknown', ' / '.join(sorted(texts)) or 'not spelled out'
    t = next(iter(texts))
    return ('int' if t in _INT_TYPES else 'bool' if t in _BOOL_TYPES else 'other'), t


# ---------------------------------------------------------------------------
# D1

def d1_carried_state(ck, mod):
    rule = 'C20.D1.carried-state'
    F = '_rotamers'
    fn = mod.func(F)
    ck.analysed(mod, fn)
    fi = finfo(mod, fn)
    cfg = fi.cfg
    if len(params(fn)) < 3:
        ck.missing(rule, '_rotamers(angles, hard_boundaries, buffer_width): signature not recognised')
        return
    angles, hb, bw = params(fn)[:3]

    # --- the result array: what is returned
    rets = returns_of(fn)
    if len(rets) != 1 or not isinstance(rets[0].value, ast.Name):
        ck.missing(rule + '.record', '_rotamers does not end in a single `return <array name>`')
        return
    R = rets[0].value.id

    # --- the frame loop: the for loop that evaluates the exit test
    loops = [l for l in walk_local(fn) if isinstance(l, ast.For) and any(call_name(c) == GATE for c in calls_in(l))]
    loops = [l for l in loops if not any(o is not l and _within(mod, o, l) for o in loops)]
    if len(loops) != 1 or not isinstance(loops[0].target, ast.Name):
        ck.missing(rule, 'exactly one `for <frame> in ...` loop calling is_buffered_transition (found %d)' % len(loops))
        return
    loop = loops[0]
    i = loop.target.id
    ns = ['len(%s)' % angles, '%s.shape[0]' % angles, 'len(%s)' % R, '%s.shape[0]' % R]
    v = classify(fi.expand(loop.iter), ['range(1, %s)' % n for n in ns] + ['range(1, %s, 1)' % n for n in ns] + ['np.arange(1, %s)' % n for n in ns],
                 scope={angles, R})
    ck.decide(v, rule + '.frames', mod, loop, F, fi.xu(loop.iter), 'frames 1..n-1 are processed in order',
              'the state machine must visit frames 1 .. n_frames-1 in order')

    # --- the only way out of the frame loop is the exhaustion of the frames: a `break` leaves the
    # remaining frames at whatever the array was allocated with, unless the tail is filled afterwards
    # (then the rule cannot relate the fill to the machine: incomplete); a `raise` inside the loop
    # cannot be related to the admitted inputs either.  (`return` inside the loop: see .record.)
    tail = [s for s, _t in subscript_stores(fn, R) if not _within(mod, s, loop) and cfg.reachable(loop, s)]
    for x in ast.walk(loop):
        if isinstance(x, ast.Break) and _enclosing_loop(mod, x, fn) is loop:
            if tail:
                ck.missing(rule + '.frames', 'the frame loop is left early (break at %s) and %s is stored into after the loop' % (mod.loc(x), R))
            else:
                conds = [u(n.test) if n.polarity else 'not (%s)' % u(n.test) for n in governing(fi, x, inside=loop)]
                ck.bad(rule + '.frames', mod, x, F, 'early exit from the frame loop',
                       'the frame loop is left by `break`%s before the last frame: every later frame keeps the value %s was allocated with instead of '
                       'the state of the hysteresis machine (the only exit the property allows is the exhaustion of the frames)' % (
                           (' when ' + ' and '.join(conds)[:120]) if conds else '', R))
        elif isinstance(x, ast.Raise):
            ck.missing(rule + '.frames', 'the frame loop can be left by an exception raised at %s: not related to the admitted inputs' % mod.loc(x))

    # --- the array that records the states can hold every basin index
    allocs = [d for d in fi.rd.defs_at(loop, R) if not isinstance(d, str)]
    aval = fi.def_value(allocs[0], R) if len(allocs) == 1 and isinstance(allocs[0], (ast.Assign, ast.AnnAssign)) else None
    if aval is None:
        ck.missing(rule + '.state-dtype', 'single allocation `%s = <array>` before the frame loop' % R)
    else:
        kind, shown = _dtype_kind(fi.expand(aval))
        v = ('match', {}) if kind == 'int' else ('near', 0, None) if kind == 'bool' else ('far', 0, None)
        ck.decide(v, rule + '.state-dtype', mod, allocs[0], F, 'element type of the state array: %s' % shown,
                  'an integer type: every basin index is representable',
                  'the state array must hold basin indices 0 .. n_basins-1: a boolean array collapses every state above 1 to True (three basins: state 2 is recorded as 1)')

    # --- the carried state: the loop-carried name
    carried = loop_carried(fi, loop)
    calls = [c for c in calls_in(loop) if call_name(c) == GATE]
    sig = params(mod.func(GATE))
    b = bind_args(calls[0], sig) if len(calls) == 1 else None
    if b is None or len(b) != 4 or len(sig) != 4:
        ck.missing(rule + '.gate-call', 'one call is_buffered_transition(<state>, <angle>, <boundaries>, <buffer>) in the frame loop')
        return
    call = calls[0]
    a_state, a_angle, a_hb, a_bw = [b[p] for p in sig]
    st = [(s, t) for s, t in subscript_stores(loop, R)]
    S = None
    if isinstance(a_state, ast.Name) and a_state.id in carried:
        S = a_state.id
    elif len(st) == 1 and isinstance(st[0][0].value, ast.Name) and st[0][0].value.id in carried:
        S = st[0][0].value.id
    elif len(carried) == 1:
        S = carried[0]
    if S is None:
        ck.missing(rule + '.only-on-exit', 'no loop-carried state variable recognised in the frame loop (carried names: %s)' % (carried,))
        return
    frame_angle = ['%s[%s]' % (angles, i)]
    call_at = fi.stmt(call)

    def entry(e):
        """`e` at the gate call as a function of the values _rotamers was
        called with (the frame index and the carried state left alone)."""
        try:
            return entry_expand(fi, e, call_at, stop=(i, S), numbers=(bw,))
        except Unresolved:
            return None

    def entry_classify(e, forms, scope):
        x = entry(e)
        return ('far', 0, None) if x is None else classify(value_preserving(x, numbers=(bw,)), forms, scope=scope)
    ident = lambda p: [p, 'float(%s)' % p]
    v = _worst([classify(fi.expand(a_state, stop=(S,)), [S, 'int(%s)' % S], scope={S}),
                entry_classify(a_angle, frame_angle + ['float(%s)' % frame_angle[0]], {angles, i}),
                entry_classify(a_hb, [hb], {hb, bw, angles}),
                entry_classify(a_bw, ident(bw), {hb, bw, angles})])
    x_bw = entry(a_bw)
    shown_bw = '' if x_bw is None or u(value_preserving(x_bw, numbers=(bw,))) == bw else ', buffer = %s' % u(canon(x_bw))
    ck.decide(v, rule + '.gate-call', mod, call, F, '%s  [angle = %s%s]' % (u(call), fi.xu(a_angle), shown_bw),
              'exit test sees the carried state, THIS frame\'s angle, the boundaries and the buffer',
              'the exit test must be is_buffered_transition(%s, %s[%s], %s, %s): using the '
              'previous angle or another state makes the machine react one frame late / to the wrong basin, and a buffer '
              'that is not the caller\'s value (a falsy 0 replaced by a default, a clipped or rescaled width) breaks '
              '"zero buffer = plain binning"' % (S, angles, i, hb, bw))

    # --- state writes only under "the exit test fired"
    def step_shortcut(c, at):
        """The atomic condition `c` (tested at statement `at` inside the frame
        loop) is a STEP-SIZE test: a pure function of the angle series alone
        that relates this frame's angle to the angle of another frame
        (np.isclose(angles[i], angles[i - 1]), abs(angles[i] - angles[i - 1]) < eps,
        ...) - other than the exact (in)equality `angles[i] == angles[i - 1]`,
        the only such relation that implies 'still inside the widened basin'
        (by induction the previous angle is inside it).  For any two distinct
        angles some admitted boundary set / buffer puts a gate between them,
        so no other function of the angles alone can stand in for the exit
        test.  Returns the shown text, or None (not of that class: the caller
        stays undecided)."""
        from ..normal import is_pure
        e = ast.Compare(left=c.lhs, ops=[c.op()], comparators=[c.rhs]) if isinstance(c, Cmp) else c[1]
        try:
            x = value_preserving(entry_expand(fi, e, at, stop=(i,), numbers=(bw,)), numbers=(bw,))
        except Unresolved:
            return None
        if not is_pure(x) or not names_loaded(x) <= {angles, i, 'np', 'numpy', 'math', 'abs', 'float', 'min', 'max'}:
            return None
        frames, indexed = set(), set()
        for n_ in ast.walk(x):
            if isinstance(n_, ast.Subscript) and isinstance(n_.value, ast.Name) and n_.value.id == angles:
                frames.add(u(canon(n_.slice)))
                indexed.add(id(n_.value))
        if any(isinstance(n_, ast.Name) and n_.id == angles and id(n_) not in indexed for n_ in ast.walk(x)):
            return None                 # the series as a whole (len(angles), angles.shape): not a step test
        if i not in frames or len(frames) < 2:
            return None
        if isinstance(x, ast.Compare) and len(x.ops) == 1 and isinstance(x.ops[0], (ast.Eq, ast.NotEq)) and \
                {u(canon(x.left)), u(canon(x.comparators[0]))} == {u(canon(ast.parse(t, mode='eval').body)) for t in ('%s[%s]' % (angles, i), '%s[%s - 1]' % (angles, i))}:
            return None
        return '`%s` [= %s]' % (u(e), u(x))

    writes = assigns_to(loop, S)
    if not writes:
        ck.bad(rule + '.only-on-exit', mod, loop, F, 'no assignment to %s in the frame loop' % S,
               'the carried state is never updated inside the frame loop')
    guarded = []
    for w in writes:
        fired = wrong = opaque = False
        extra, extra_at = [], []
        for n in governing(fi, w, inside=loop):
            cs = resolved_conjuncts(fi, n.test, n.polarity)
            if cs is None:
                opaque = True
                continue
            for c in cs:
                vc = value_call(fi, c[1], GATE) if isinstance(c, tuple) else None
                if vc is call:
                    fired, wrong = fired or c[2], wrong or not c[2]
                else:
                    extra.append(c)
                    extra_at.append(n.owner)
        # a condition besides the exit test that decides whether the state may change: a shortcut
        # past the exit test (see step_shortcut) is a recognised wrong way round the machine
        short = [k for k in (step_shortcut(c, at) for c, at in zip(extra, extra_at)) if k]
        if short and not wrong:
            ck.bad(rule + '.only-on-exit', mod, w, F, 'state update skipped by a step-size test',
                   'whether `%s` may run also depends on %s - a comparison of this frame\'s angle with another frame\'s angle that never looks at '
                   'the state, the boundaries or the buffer: a step that carries the angle over a gate of the current basin while this test '
                   'says "not moved (enough)" never reaches is_buffered_transition, and the state stays in a basin whose widened range no '
                   'longer contains the angle (only an exact equality with the previous frame\'s angle implies "no exit")' % (u(w), ' and '.join(short)[:200]))
            continue
        if fired and not wrong and not extra and not opaque:
            guarded.append(w)
            ck.ok(rule + '.only-on-exit', mod, w, u(w), 'the state changes only when the buffered exit test fires')
        elif wrong or not (fired or extra or opaque):
            ck.bad(rule + '.only-on-exit', mod, w, F, u(w),
                   '%s must be reassigned only inside the is_buffered_transition branch '
                   '(otherwise the buffer is ignored and the assignment is plain binning)' % S)
        else:
            ck.missing(rule + '.only-on-exit', 'guard of `%s` at %s not recognised (conditions besides the exit test: %s)' % (
                u(w), mod.loc(w), ', '.join(repr(c) if isinstance(c, Cmp) else u(c[1]) for c in extra)[:120]))
    digit = []
    for x in frame_angle:
        digit += ['np.digitize(%s, %s) - 1' % (x, hb), 'np.digitize(%s, %s, False) - 1' % (x, hb),
                  "np.searchsorted(%s, %s, 'right') - 1" % (hb, x)]
    for w in guarded:
        if not isinstance(w, ast.Assign):
            ck.missing(rule + '.rebin', 'state update `%s` is not a plain assignment' % u(w))
            continue
        val = _pos(fi.expand(w.value))
        v = classify(val, digit, scope={angles, i, hb, S})
        ck.decide(v, rule + '.rebin', mod, w, F, '%s  [= %s]' % (u(w), u(val)),
                  'new state = basin containing the new angle (digitize against the same boundaries)',
                  'on exit the state must become np.digitize(%s[%s], %s) - 1' % (angles, i, hb))

    # --- every frame records the carried state, after the possible update.
    # One store on every trip, or one store per path through the trip
    # (guard clause `if not exit: R[i] = S; continue` + `S = ...; R[i] = S`).
    if not st:
        ck.missing(rule + '.record', 'no store into %s inside the frame loop' % R)
    else:
        stores = [rs for rs, _ in st]
        for rs, rt in st:
            v = _worst([classify(fi.expand(rt.slice), [i], scope={i}),
                        classify(fi.expand(rs.value, stop=(S,)) if isinstance(rs, ast.Assign) else ast.Name(id='<augmented>', ctx=ast.Load()),
                                 [S, 'int(%s)' % S], scope={S, angles, i, hb, bw})])
            ck.decide(v, rule + '.record', mod, rs, F, u(rs), 'frame %s records the carried state' % i,
                      '%s[%s] = %s must be what each trip records' % (R, i, S))
        rs = stores[0]
        first = loop.body[0]
        every = first in stores or not (cfg.reachable(first, loop, avoiding=stores) or cfg.reachable(first, 'EXIT', avoiding=stores + [loop]))
        shown = u(rs) if len(stores) == 1 else ' | '.join(u(x) for x in stores)
        ck.check(every, rule + '.record', mod, rs, F, '%s on every trip' % shown,
                 'every frame records the carried state (every path through a trip passes a store)',
                 '%s[%s] = %s must execute on every trip of the frame loop' % (R, i, S))
        # a state update that can follow a record within the same trip and is not recorded again before the trip ends
        late = [w for w in writes for x in stores
                if cfg.reachable(x, w, avoiding=[loop]) and (cfg.reachable(w, loop, avoiding=stores) or cfg.reachable(w, 'EXIT', avoiding=stores + [loop]))]
        ck.check(not late, rule + '.record', mod, rs, F, 'update before record',
                 'state is updated before it is recorded', 'the state must be updated before it is recorded for the frame')
    ck.ok(rule + '.record', mod, rets[0], u(rets[0]), 'returns the recorded states')

    # --- frame 0: binned by the hard boundaries
    st0 = [(s, t) for s, t in subscript_stores(fn, R)
           if not _within(mod, s, loop) and isinstance(s, ast.Assign) and type(const_value(fi.expand(t.slice))) is int
           and const_value(fi.expand(t.slice)) == 0 and cfg.reachable(s, loop)]
    a0 = '%s[0]' % angles
    if not st0:
        ck.missing(rule + '.first-frame', 'no store `%s[0] = <basin>` before the frame loop' % R)
    iter_forms = ['range(len(%s) - 1)' % hb, 'range(0, len(%s) - 1)' % hb, 'range(len(%s[1:]))' % hb, 'range(len(%s[:-1]))' % hb,
                  'np.arange(len(%s) - 1)' % hb, 'range(%s.shape[0] - 1)' % hb, 'range(len(%s) - 1 - 0)' % hb]

    def search_verdicts(sfi, fl, site, value, sub):
        """The basin search `for b in range(n_basins): if angles[0] < hb[b + 1]: <site: result b>`
        (in _rotamers itself: sub = identity; in a helper: sub maps the
        helper's parameters to the caller's argument expressions)."""
        bn = fl.target.id
        vs = [classify(sub(sfi.expand(fl.iter)), iter_forms, scope={hb}),
              classify(sub(sfi.expand(value)), [bn, 'int(%s)' % bn], scope={bn, hb, angles})]
        atoms = guard_atoms(sfi, site, inside=fl)
        if atoms is None or len(atoms) != 1 or not isinstance(atoms[0], Cmp):
            vs.append(('near', 0, None) if atoms == [] else ('far', 0, None))
        else:
            vs.append(classify(sub(_cmp_node(sfi, atoms[0])), ['%s < %s[%s + 1]' % (a0, hb, bn), '%s < %s[1 + %s]' % (a0, hb, bn)], scope={angles, hb, bn}))
        return _worst(vs)

    def helper_search(s, val):
        """`R[0] = helper(<args>)` where the module-level helper is the basin
        search with `return b` in place of the store (a return inside a loop:
        not undone by the front-end inliner).  Returns (verdict, shown)."""
        h = mod.functions.get(call_name(val) or '')
        far = ('far', 0, None)
        if h is None or h is fn or h.decorator_list or h.args.vararg or h.args.kwarg or h.args.kwonlyargs \
                or any(isinstance(n, (ast.Yield, ast.YieldFrom)) for n in walk_local(h)):
            return far, None
        hp = params(h)
        bnd = bind_args(val, hp)
        if bnd is None or set(bnd) != set(hp):
            return far, None
        hfi = finfo(mod, h)
        ck.analysed(mod, h)
        if any(assigns_to(h, p_) or hfi._mutated_in_place(p_) for p_ in hp):
            return far, None
        allowed = (ast.For, ast.If, ast.Return, ast.Pass, ast.Break)
        for n in walk_local(h):
            if isinstance(n, ast.stmt) and not isinstance(n, allowed) and n is not h and \
                    not (isinstance(n, ast.Expr) and isinstance(n.value, ast.Constant)):
                return far, None
        hr = returns_of(h)
        loops_h = [n for n in h.body if isinstance(n, ast.For) and isinstance(n.target, ast.Name) and not n.orelse]
        if len(hr) != 2 or len(loops_h) != 1:
            return far, None
        hl = loops_h[0]
        inside = [r for r in hr if _within(mod, r, hl)]
        after = [r for r in hr if not _within(mod, r, hl)]
        if len(inside) != 1 or len(after) != 1 or inside[0].value is None or _enclosing_loop(mod, inside[0], h) is not hl \
                or after[0] not in h.body or hfi.cfg.reachable('ENTRY', 'EXIT', avoiding=hr):
            return far, None
        # the caller's arguments, in the caller's terms; the helper's own locals must not collide with them
        args = {p_: fi.expand(bnd[p_]) for p_ in hp}
        locals_h = {n.id for n in walk_local(h) if isinstance(n, ast.Name) and isinstance(n.ctx, ast.Store)}
        if locals_h & {x for a in args.values() for x in names_loaded(a)} or locals_h & {angles, hb, bw}:
            return far, None
        v = search_verdicts(hfi, hl, inside[0], inside[0].value, lambda t: _subst(t, args))
        if v[0] == 'match':
            fb = after[0].value
            # no basin found: impossible for an angle below hb[-1] == 360 (validated); any constant or the
            # pre-filled "unassigned" marker will do, a computed value is not understood
            if fb is not None and const_value(fb) is None:
                v = far
        return v, '%s  [%s: %s ... %s]' % (u(s), h.name, u(hl)[:120].replace('\n', ' '), u(after[0]))

    for s, t in st0:
        fl = _enclosing_loop(mod, s, fn)
        if fl is None:
            forms = ['np.digitize(%s, %s) - 1' % (a0, hb), 'np.digitize(%s, %s, False) - 1' % (a0, hb), "np.searchsorted(%s, %s, 'right') - 1" % (hb, a0)]
            val = fi.expand(s.value)
            shown = None
            if isinstance(val, ast.Call) and call_name(val) in mod.functions and call_name(val) not in (GATE, GATES):
                v, shown = helper_search(s, val)
            else:
                v = classify(_pos(val), forms, scope={angles, hb})
            if v[0] == 'match' and not cfg.dominates(s, loop):
                v = ('far', 0, None)
            ck.decide(v, rule + '.first-frame', mod, s, F, shown or u(s), 'frame 0 gets the basin containing its angle',
                      'frame 0 must be binned by the hard boundaries')
            continue
        if not (isinstance(fl, ast.For) and isinstance(fl.target, ast.Name)):
            ck.missing(rule + '.first-frame', 'basin search for frame 0 at %s not recognised' % mod.loc(fl))
            continue
        v = search_verdicts(fi, fl, s, s.value, lambda t: t)
        if v[0] == 'match' and cfg.reachable(s, fl):
            v = ('near', 0, None)       # no break: the LAST matching basin wins
        ck.decide(v, rule + '.first-frame', mod, fl, F, u(fl)[:160],
                  'frame 0 gets the first basin whose upper hard boundary exceeds its angle',
                  'frame 0 must be binned by the hard boundaries: first basin b with %s < %s[b + 1] (strict, then stop searching)' % (a0, hb))
    inits = [d for d in fi.rd.defs_at(loop, S) if isinstance(d, str) or not _within(mod, d, loop)]
    if len(inits) != 1 or not isinstance(inits[0], ast.Assign) or fi.def_value(inits[0], S) is None:
        ck.missing(rule + '.first-frame', 'single initialisation `%s = ...` before the frame loop' % S)
    else:
        init = inits[0]
        v = classify(fi.expand(fi.def_value(init, S)), ['%s[0]' % R, 'int(%s[0])' % R], scope={R})
        if v[0] == 'match' and st0 and not all(cfg.reachable(s, init) and not cfg.reachable(init, s) for s, _ in st0):
            v = ('near', 0, None)
        ck.decide(v, rule + '.first-frame', mod, init, F, u(init), 'the carried state starts as the basin of frame 0',
                  '%s must be initialised to %s[0] after frame 0 was binned' % (S, R))

    # --- the machine works on the caller's angles / boundaries / buffer: a rebinding of a
    # parameter must keep its value (conversions), whatever name-based comparison follows
    for p_ in (angles, hb, bw):
        for d in assigns_to(fn, p_):
            if _under_is_none(fi, d, p_) and p_ == bw:
                continue
            try:
                if isinstance(d, ast.AugAssign):
                    x = ast.BinOp(left=ast.Name(id=p_, ctx=ast.Load()), op=d.op, right=entry_expand(fi, d.value, d, numbers=(bw,)))
                    if fi.rd.defs_at(d, p_) != {'PARAM'}:
                        raise Unresolved(p_)
                else:
                    val = fi.def_value(d, p_)
                    if val is None:
                        raise Unresolved(p_)
                    x = entry_expand(fi, val, d, numbers=(bw,))
                v = classify(value_preserving(x, numbers=(bw,)), [p_, 'float(%s)' % p_] if p_ == bw else [p_], scope={p_})
            except Unresolved:
                v = ('far', 0, None)
            ck.decide(v, rule + '.inputs-as-given', mod, d, F, u(d), 'the parameter keeps the caller\'s value',
                      'the state machine must run on the caller\'s %s: this rebinding changes its value for admissible inputs%s' % (
                          p_, ' (e.g. `%s or <default>` replaces an explicit 0: a zero buffer is no longer plain binning)' % p_ if p_ == bw else ''))

    # --- validation of inputs: which atomic conditions raise
    need = [('%s[0] != 0' % hb,), ('%s[-1] != 360' % hb, '%s[len(%s) - 1] != 360' % (hb, hb)), ('%s < 0' % bw,)]
    have, opaque, site = [], False, None
    for r in [n for n in walk_local(fn) if isinstance(n, ast.Raise)]:
        gov = governing(fi, r)
        # assumptions left behind by earlier guard clauses (`if bad: raise` passed) do not weaken this one
        passed = [n for n in gov if not _within(mod, r, n.owner)]
        if not all((n.owner.orelse if n.polarity else n.owner.body) and
                   isinstance((n.owner.orelse if n.polarity else n.owner.body)[-1], ast.Raise) for n in passed):
            opaque = True
            continue
        gov = [n for n in gov if n not in passed]
        site = site or (gov[0] if gov else r)
        if len(gov) != 1:
            opaque = opaque or len(gov) > 1
            continue
        neg = conjuncts(gov[0].test, not gov[0].polarity)
        if neg is None:
            pos = conjuncts(gov[0].test, gov[0].polarity)
            neg = [pos[0].negated()] if pos and len(pos) == 1 and isinstance(pos[0], Cmp) else None
        if neg is None or not all(isinstance(c, Cmp) for c in neg):
            opaque = True
            continue
        for c in neg:
            t = c.negated()
            have.append(canon_atom(Cmp(canon(fi.expand(t.lhs)), t.op, canon(fi.expand(t.rhs)))))
    for c in calls_in(fn):
        if isinstance(c.func, ast.Name) and c.func.id not in (GATE, 'len', 'range', 'int', 'float') \
                and not _within(mod, c, loop) and not isinstance(mod.enclosing_stmt(c), ast.Raise) and ({hb, bw} & {x for a in list(c.args) + [k.value for k in c.keywords] for x in names_loaded(a)}):
            opaque = True               # the inputs are handed to a helper the rule cannot see through

    def key(text):
        return canon_atom(conjuncts(canon(ast.parse(text, mode='eval').body), True)[0])
    ok = all(any(key(t) in have for t in alts) for alts in need)
    txt = ' || '.join('%s %s %s' % (k[0], k[1] if p else 'not ' + k[1], k[2]) for (k, p) in have)
    if ok or not opaque:
        ck.check(ok, rule + '.validation', mod, site or fn, F, ('raise if ' + txt)[:200],
                 'boundaries must span 0..360 and the buffer be in range', 'input validation of boundaries/buffer is missing: '
                 '%s[0] != 0, %s[-1] != 360 and %s < 0 must each raise' % (hb, hb, bw))
    else:
        ck.missing(rule + '.validation', 'input validation not recognised (conditions that raise: %s)' % txt[:160])


# ---------------------------------------------------------------------------
# D3

class _Aff:
    """c + b * <buffer>: a number that is an affine function of the buffer width."""
    __slots__ = ('b', 'c')

    def __init__(self, b, c):
        self.b, self.c = float(b), float(c)

    def __eq__(self, o):
        return isinstance(o, _Aff) and abs(self.b - o.b) < 1e-9 and abs(self.c - o.c) < 1e-9

    def __hash__(self):
        return hash((round(self.b, 6), round(self.c, 6)))

    def __repr__(self):
        if self.b == 0:
            return '%g' % self.c
        return '%g %s %sbuffer' % (self.c, '+' if self.b > 0 else '-', '' if abs(self.b) == 1 else '%g * ' % abs(self.b))


class _Raises(Exception):
    pass


def _gates_run(fn, cs_, hb, bw, lit, S, forced=None, noop=()):
    """Symbolic evaluation of the loop-free get_gates for ONE literal boundary
    set `lit` of the library and ONE state S, with the buffer width kept as a
    symbol: every number is an affine function c + b * buffer (constant
    folding of source literals; a comparison whose outcome would depend on
    the buffer is not decided -> _Unsupported).  Returns the value returned.
    `forced`: {id(test): bool} outcomes fixed by the caller (verified memo
    lookups); `noop`: statements to skip (the memo fill)."""
    from ..normal import is_pure
    env = {}
    forced = forced or {}
    generic = []

    def num(v, what):
        if not isinstance(v, _Aff):
            raise _Unsupported('%s is not a number' % what)
        return v

    def const(v, what):
        v = num(v, what)
        if v.b != 0:
            raise _Unsupported('%s depends on the buffer' % what)
        return v.c

    def truth(v):
        if isinstance(v, bool):
            return v
        if isinstance(v, _Aff) and v.b == 0:
            return v.c != 0
        raise _Unsupported('truth value of a symbolic value')

    def ev(e):
        if isinstance(e, ast.Constant):
            if isinstance(e.value, bool):
                return e.value
            if type(e.value) in (int, float):
                return _Aff(0, e.value)
            return _Tok('<constant>')
        if isinstance(e, ast.Name):
            if e.id in env:
                return env[e.id]
            if e.id == cs_:
                return _Aff(0, S)
            if e.id == bw:
                return _Aff(1, 0)
            if e.id == hb:
                return _Tok(hb)
            raise _Unsupported('name %s' % e.id)
        if isinstance(e, ast.Tuple):
            return tuple(ev(x) for x in e.elts)
        if isinstance(e, ast.Subscript):
            base = ev(e.value)
            if isinstance(base, tuple):
                k = const(ev(e.slice), 'a tuple index')
                if k != int(k) or not -len(base) <= int(k) < len(base):
                    raise _Unsupported('tuple index')
                return base[int(k)]
            if isinstance(base, _Tok) and base.name == hb and not isinstance(e.slice, (ast.Slice, ast.Tuple)):
                k = const(ev(e.slice), 'an index into the boundaries')
                if k != int(k):
                    raise _Unsupported('non-integer index')
                if not -len(lit) <= int(k) < len(lit):
                    raise _Raises('%s[%d] with %d boundaries' % (hb, int(k), len(lit)))
                return _Aff(0, lit[int(k)])
            raise _Unsupported('subscript %s' % u(e)[:60])
        if isinstance(e, ast.Call) and not e.keywords:
            cn = call_name(e) or ''
            if cn in ('int', 'float') and len(e.args) == 1:
                v = num(ev(e.args[0]), 'argument of %s()' % cn)
                if cn == 'int' and (v.b != 0 or v.c != int(v.c)):
                    raise _Unsupported('int() of a non-integral value')
                return v
            if cn == 'len' and len(e.args) == 1:
                v = ev(e.args[0])
                if isinstance(v, _Tok) and v.name == hb:
                    return _Aff(0, len(lit))
            if cn == 'bool' and len(e.args) == 1:
                return truth(ev(e.args[0]))
            raise _Unsupported('call %s' % u(e)[:60])
        if isinstance(e, ast.BinOp):
            l, r = num(ev(e.left), u(e.left)[:40]), num(ev(e.right), u(e.right)[:40])
            if isinstance(e.op, ast.Add):
                return _Aff(l.b + r.b, l.c + r.c)
            if isinstance(e.op, ast.Sub):
                return _Aff(l.b - r.b, l.c - r.c)
            if isinstance(e.op, ast.Mult) and (l.b == 0 or r.b == 0):
                return _Aff(l.b * r.c + r.b * l.c, l.c * r.c)
            if isinstance(e.op, ast.Div) and r.b == 0 and r.c != 0:
                return _Aff(l.b / r.c, l.c / r.c)
            if isinstance(e.op, (ast.Mod, ast.FloorDiv)) and l.b == 0 and r.b == 0 and r.c != 0:
                return _Aff(0, l.c % r.c if isinstance(e.op, ast.Mod) else l.c // r.c)
            raise _Unsupported('arithmetic %s' % u(e)[:60])
        if isinstance(e, ast.UnaryOp):
            if isinstance(e.op, ast.Not):
                return not truth(ev(e.operand))
            v = num(ev(e.operand), u(e.operand)[:40])
            if isinstance(e.op, ast.USub):
                return _Aff(-v.b, -v.c)
            if isinstance(e.op, ast.UAdd):
                return v
            raise _Unsupported('operator')
        if isinstance(e, ast.Compare):
            if id(e) in forced:
                return forced[id(e)]
            left = ev(e.left)
            for op, right in zip(e.ops, e.comparators):
                r = ev(right)
                if type(op) not in _CMP:
                    raise _Unsupported('comparison %s' % u(e)[:60])
                l_, r_ = num(left, u(e)[:40]), num(r, u(e)[:40])
                if abs(l_.b - r_.b) > 1e-12:
                    if not isinstance(op, (ast.Eq, ast.NotEq)):
                        raise _Unsupported('the outcome of `%s` depends on the buffer width' % u(e)[:60])
                    # two different affine functions of the buffer coincide for ONE buffer width only: the outcome
                    # for every other width is taken, and the caller is told that one width was left out
                    generic.append(u(e)[:60])
                    if isinstance(op, ast.Eq):
                        return False
                elif not _CMP[type(op)](l_.c, r_.c):
                    return False
                left = r
            return True
        if isinstance(e, ast.BoolOp):
            v = None
            for x in e.values:
                v = ev(x)
                if truth(v) != isinstance(e.op, ast.And):
                    return v
            return v
        if isinstance(e, ast.IfExp):
            return ev(e.body) if truth(ev(e.test)) else ev(e.orelse)
        raise _Unsupported('expression %s' % u(e)[:60])

    def assign(t, v):
        if isinstance(t, ast.Name):
            if t.id in (cs_, hb, bw):
                raise _Unsupported('parameter %s is rebound' % t.id)
            env[t.id] = v
        elif isinstance(t, (ast.Tuple, ast.List)) and isinstance(v, tuple) and len(v) == len(t.elts):
            for te, ve in zip(t.elts, v):
                assign(te, ve)
        else:
            raise _Unsupported('assignment target %s' % u(t)[:40])

    def run(stmts):
        for st in stmts:
            if st in noop or isinstance(st, ast.Pass):
                continue
            if isinstance(st, ast.Expr):
                if isinstance(st.value, ast.Constant) or (isinstance(st.value, ast.Call) and
                                                         (call_name(st.value) or '').split('.')[0] in ('logger', 'logging', 'print')):
                    continue
                raise _Unsupported('statement %s' % u(st)[:60])
            if isinstance(st, (ast.Assign, ast.AnnAssign)) and st.value is not None:
                try:
                    v = ev(st.value)
                except _Unsupported:
                    tg = st.targets if isinstance(st, ast.Assign) else [st.target]
                    if not is_pure(st.value) or not all(isinstance(t, ast.Name) for t in tg):
                        raise
                    v = _Tok('<opaque>')        # a pure value without a model (a memo key): harmless unless it is used as a number
                for t in (st.targets if isinstance(st, ast.Assign) else [st.target]):
                    assign(t, v)
                continue
            if isinstance(st, ast.AugAssign) and isinstance(st.target, ast.Name):
                v = ev(ast.BinOp(left=ast.Name(id=st.target.id, ctx=ast.Load()), op=st.op, right=st.value))
                assign(st.target, v)
                continue
            if isinstance(st, ast.If):
                t = forced[id(st.test)] if id(st.test) in forced else truth(ev(st.test))
                r = run(st.body if t else st.orelse)
                if r is not None:
                    return r
                continue
            if isinstance(st, ast.Return):
                return ('return', ev(st.value) if st.value is not None else None)
            raise _Unsupported('statement %s' % type(st).__name__)
        return None
    r = run(fn.body)
    return (r[1] if r is not None else None), generic


def d3_gates(ck, mod, memo=None, comp=None):
    """get_gates is decided SEMANTICALLY: for every literal boundary set the
    library passes and every state of it (the finite domain the property
    quantifies over) the loop-free body is evaluated with the buffer kept as a
    symbol, and the returned pair is compared with
        lower = (360 if boundaries[s] == 0 else boundaries[s]) - buffer
        upper = (0 if boundaries[s + 1] == 360 else boundaries[s + 1]) + buffer
    as affine functions of the buffer.  How the function spells this
    (conditional expressions, temporaries, guard order, tests on the state
    index or on the boundary value, one or two widening statements) does not
    matter; a body the evaluator has no model for is reported as incomplete."""
    rule = 'C20.D3.gates'
    F = GATES
    fn = mod.func(F)
    ck.analysed(mod, fn)
    fi = finfo(mod, fn)
    if len(params(fn)) < 3:
        ck.missing(rule, 'get_gates(cur_state, hard_boundaries, buffer_width): signature not recognised')
        return
    cs_, hb, bw = params(fn)[:3]
    sets = literal_boundary_sets(ck, mod)
    if not sets:
        ck.missing(rule + '.lookup', 'no literal boundary set is passed to _rotamers: the gates cannot be evaluated')
        return
    comp = comp or {}

    def undecided(rid, msg):
        """The gates on their own are not understood; the property only sees them through the exit
        decision, and that composition may have been decided as a whole (C20.D3.gates.composed)."""
        if comp.get('status') == 'ok':
            ck.ok(rid, mod, fn, 'gates decided together with the exit test (C20.D3.gates.composed)',
                  'no model for get_gates alone (%s); is_buffered_transition with this get_gates inside equals the widened-basin test' % msg[:120])
        elif comp.get('status') != 'bad':
            ck.missing(rid, msg)
    forced, noop = {}, []
    mm = (memo or {}).get(fn)
    if mm:
        # a verified memo table (D5): a stored entry equals what the call computes, so the miss path is the function
        for n in walk_local(fn):
            if isinstance(n, ast.Compare) and len(n.ops) == 1 and isinstance(n.ops[0], (ast.In, ast.NotIn)) \
                    and isinstance(n.comparators[0], ast.Name) and n.comparators[0].id == mm['table']:
                forced[id(n)] = isinstance(n.ops[0], ast.NotIn)
        noop = [st for st, _v in mm['fills']]
    rets = [r for r in returns_of(fn) if not (mm and r in mm['hits'])]
    site = rets[-1] if rets else fn
    bad = {'order': [], 'lookup': [], 'wrap': [], 'widen': []}
    n_cases, all_swapped, unsure = 0, True, []
    try:
        for lit in sorted(sets):
            for S in range(len(lit) - 1):
                n_cases += 1
                where = 'boundaries %s, state %d' % (list(lit), S)
                try:
                    got, generic = _gates_run(fn, cs_, hb, bw, lit, S, forced, noop)
                except _Raises as e:
                    all_swapped = False
                    bad['lookup'].append('%s: IndexError (%s)' % (where, e))
                    continue
                if not (isinstance(got, tuple) and len(got) == 2 and all(isinstance(g, _Aff) for g in got)):
                    raise _Unsupported('the value returned for %s is not a pair of numbers' % where)
                seam_lo, seam_up = lit[S] == 0, lit[S + 1] == 360
                want = (_Aff(-1, 360 if seam_lo else lit[S]), _Aff(1, 0 if seam_up else lit[S + 1]))
                if got == want:
                    all_swapped = False
                    if generic:
                        # equal for all buffer widths but the one at which a test on a widened value flips
                        unsure.append('%s: the outcome of `%s` depends on the buffer width' % (where, generic[0]))
                    continue
                if got == (want[1], want[0]):
                    bad['order'].append('%s: returns (%r, %r)' % (where, got[0], got[1]))
                    continue
                all_swapped = False
                for g, w, which, seam, marker in ((got[0], want[0], 'lower', seam_lo, 360), (got[1], want[1], 'upper', seam_up, 0)):
                    if g == w:
                        continue
                    kind = 'widen' if abs(g.b - w.b) > 1e-9 else 'wrap' if (seam or abs(g.c - marker) < 1e-9) else 'lookup'
                    bad[kind].append('%s: %s gate is %r, must be %r' % (where, which, g, w))
    except _Unsupported as e:
        undecided(rule + '.lookup', 'get_gates is not a loop-free computation over the state, the boundaries and the buffer that the evaluator has a model for (%s)' % e)
        return
    if unsure and not any(bad.values()):
        undecided(rule + '.wrap', 'get_gates: %s' % '; '.join(unsure[:2]))
        return
    if bad['order'] and not all_swapped:
        bad['lookup'] += bad['order']
        bad['order'] = []
    texts = {
        'order': ('order of the returned pair', 'returns (lower, upper)',
                  'get_gates must return (lower gate, upper gate) - is_buffered_transition tells the wrap-around basin by upper < lower'),
        'lookup': ('gates of a basin away from the 0/360 seam', 'the gates start as the hard boundaries of the CURRENT basin: boundaries[state] and boundaries[state + 1]',
                   'away from the seam the lower gate must be boundaries[state] - buffer and the upper gate boundaries[state + 1] + buffer'),
        'wrap': ('gates of the basins at the 0/360 seam', 'the basin that starts at 0 gets its lower gate moved to 360, the basin that ends at 360 its upper gate moved to 0',
                 'the lower gate must wrap to 360 exactly for the basin whose lower boundary is 0 (first basin) and the upper gate to 0 exactly for the basin '
                 'whose upper boundary is 360 (the LAST basin, index n_basins - 1), before the buffer is applied; a seam test that never holds for a valid state '
                 'makes that basin lose its buffer across the seam'),
        'widen': ('widening of the gates by the buffer', 'basin widened by the buffer on both sides (lower gate - buffer, upper gate + buffer), once',
                  'the gates must be widened OUTWARDS, once: lower gate - buffer_width and upper gate + buffer_width'),
    }
    for kind in ('order', 'lookup', 'wrap', 'widen'):
        construct, okmsg, badmsg = texts[kind]
        if bad[kind]:
            ck.bad(rule + '.' + kind, mod, site, F, construct, '%s; evaluated with the buffer as a symbol: %s' % (badmsg, '; '.join(bad[kind][:3])))
        else:
            ck.ok(rule + '.' + kind, mod, site, '%s (%d boundary set / state pairs)' % (construct, n_cases), okmsg)
    ck.floor(rule, n_cases, 4, 'boundary set / state pairs evaluated for get_gates')


# --- exit test ---------------------------------------------------------------

class _Unsupported(Exception):
    pass


class _Tok:
    """An opaque runtime value (state, boundaries, buffer)."""

    def __init__(self, name):
        self.name = name


def _truth(v):
    if isinstance(v, _Tok) or isinstance(v, tuple):
        raise _Unsupported('truth value of %s' % getattr(v, 'name', 'a tuple'))
    return bool(v)


_CMP = {ast.Lt: lambda a, b: a < b, ast.LtE: lambda a, b: a <= b, ast.Gt: lambda a, b: a > b, ast.GtE: lambda a, b: a >= b,
        ast.Eq: lambda a, b: a == b, ast.NotEq: lambda a, b: a != b}


def _interpret(fn, env, calls, forced=None):
    """Concrete evaluation of a loop-free function body (if / assignment /
    return over comparisons, and/or/not, constants and the given calls).
    Anything else raises _Unsupported.  `forced`: {id(test node): bool} - the
    outcome of `if` tests that are decided by the caller's truth table
    instead of being evaluated (tests over opaque values).  Arithmetic,
    subscripts and int()/float() of an opaque value are opaque."""
    from ..normal import is_pure
    env = dict(env)
    forced = forced or {}

    def ev(e):
        if isinstance(e, ast.Constant):
            return e.value
        if isinstance(e, ast.Subscript) and isinstance(e.value, (ast.Name, ast.Call, ast.Tuple)):
            base = ev(e.value)
            if isinstance(base, tuple):
                # component of a concrete tuple (`gates = get_gates(...)`; `gates[0]`)
                k = const_value(e.slice)
                if type(k) is int and -len(base) <= k < len(base):
                    return base[k]
                raise _Unsupported('expression %s' % u(e)[:60])
        if isinstance(e, (ast.Subscript, ast.BinOp)) or (isinstance(e, ast.UnaryOp) and isinstance(e.op, (ast.USub, ast.UAdd))) or \
                (isinstance(e, ast.Call) and call_name(e) in ('int', 'float') and len(e.args) == 1 and not e.keywords):
            parts = [ev(x) for x in ast.iter_child_nodes(e) if isinstance(x, ast.expr) and not (isinstance(x, ast.Name) and x.id in ('int', 'float'))]
            if any(isinstance(x, _Tok) for x in parts):
                return _Tok('<derived>')
            raise _Unsupported('expression %s' % u(e)[:60])
        if isinstance(e, ast.Name):
            if e.id not in env:
                raise _Unsupported('name %s' % e.id)
            return env[e.id]
        if isinstance(e, ast.Tuple):
            return tuple(ev(x) for x in e.elts)
        if isinstance(e, ast.Compare):
            left = ev(e.left)
            for op, right in zip(e.ops, e.comparators):
                r = ev(right)
                if isinstance(left, _Tok) or isinstance(r, _Tok):
                    return _Tok('<derived>')          # a named opaque condition: its truth value is never taken (see _truth)
                if type(op) not in _CMP or not all(isinstance(x, (int, float)) and not isinstance(x, bool) for x in (left, r)):
                    raise _Unsupported('comparison %s' % u(e))
                if not _CMP[type(op)](left, r):
                    return False
                left = r
            return True
        if isinstance(e, ast.BoolOp):
            v = None
            for x in e.values:
                v = ev(x)
                if _truth(v) != isinstance(e.op, ast.And):
                    return v
            return v
        if isinstance(e, ast.UnaryOp) and isinstance(e.op, ast.Not):
            return not _truth(ev(e.operand))
        if isinstance(e, ast.IfExp):
            return ev(e.body) if _truth(ev(e.test)) else ev(e.orelse)
        if isinstance(e, ast.Call) and call_name(e) in calls:
            return calls[call_name(e)](e)
        if isinstance(e, ast.Call) and call_name(e) == 'bool' and len(e.args) == 1 and not e.keywords:
            return _truth(ev(e.args[0]))
        raise _Unsupported('expression %s' % u(e)[:60])

    def assign(t, v):
        if isinstance(t, ast.Name):
            env[t.id] = v
        elif isinstance(t, (ast.Tuple, ast.List)) and isinstance(v, tuple) and len(v) == len(t.elts):
            for te, ve in zip(t.elts, v):
                assign(te, ve)
        else:
            raise _Unsupported('assignment target %s' % u(t))

    def run(stmts):
        for s in stmts:
            if isinstance(s, ast.Pass):
                continue
            if isinstance(s, ast.Expr):
                if isinstance(s.value, ast.Constant) or (isinstance(s.value, ast.Call) and
                                                        (call_name(s.value) or '').split('.')[0] in ('logger', 'logging', 'print')):
                    continue
                raise _Unsupported('statement %s' % u(s)[:60])
            if isinstance(s, ast.Assign):
                try:
                    v = ev(s.value)
                except _Unsupported:
                    # a pure expression the interpreter has no model for (np.digitize(...) - 1): an opaque
                    # value - harmless unless its truth value is taken or it reaches the result
                    if not is_pure(s.value) or not all(isinstance(t, ast.Name) for t in s.targets):
                        raise
                    v = _Tok('<opaque>')
                for t in s.targets:
                    assign(t, v)
                continue
            if isinstance(s, ast.AnnAssign) and s.value is not None:
                assign(s.target, ev(s.value))
                continue
            if isinstance(s, ast.If):
                r = run(s.body if (forced[id(s.test)] if id(s.test) in forced else _truth(ev(s.test))) else s.orelse)
                if r is not None:
                    return r
                continue
            if isinstance(s, ast.Return):
                return ('return', ev(s.value) if s.value is not None else None)
            raise _Unsupported('statement %s' % type(s).__name__)
        return None
    r = run(fn.body)
    return r[1] if r is not None else None


def _index_eval(e, K, S, n, cs_, na, hb):
    """Value of an expression over basin INDICES for a boundary set with `n`
    basins: S = the current state, K = the basin that contains the new angle
    (np.digitize(angle, boundaries) == K + 1), len(boundaries) == n + 1;
    integer arithmetic, abs/min/max, comparisons, and/or/not.  Raises
    _Unsupported for anything else (the angle itself, a gate, the buffer)."""
    def ev(e):
        if isinstance(e, ast.Constant) and type(e.value) in (int, bool):
            return e.value
        if isinstance(e, ast.Name) and e.id == cs_:
            return S
        if isinstance(e, ast.Call) and not e.keywords:
            cn = call_name(e) or ''
            a = e.args
            if cn == 'int' and len(a) == 1:
                v = ev(a[0])
                return int(v)
            if cn in ('np.digitize', 'numpy.digitize') and len(a) in (2, 3) and u(a[0]) == na and u(a[1]) == hb \
                    and (len(a) == 2 or const_value(a[2]) is False):
                return K + 1
            if cn in ('np.searchsorted', 'numpy.searchsorted') and len(a) == 3 and u(a[0]) == hb and u(a[1]) == na and const_value(a[2]) == 'right':
                return K + 1
            if cn == 'len' and len(a) == 1 and u(a[0]) == hb:
                return n + 1
            if cn == 'abs' and len(a) == 1:
                return abs(ev(a[0]))
            if cn in ('min', 'max') and len(a) >= 2:
                vs = [ev(x) for x in a]
                return min(vs) if cn == 'min' else max(vs)
            raise _Unsupported('call %s' % cn)
        if isinstance(e, ast.Subscript) and u(e.value) == '%s.shape' % hb and const_value(e.slice) == 0:
            return n + 1
        if isinstance(e, ast.BinOp) and isinstance(e.op, (ast.Add, ast.Sub, ast.Mult, ast.Mod, ast.FloorDiv)):
            l, r = ev(e.left), ev(e.right)
            if isinstance(e.op, (ast.Mod, ast.FloorDiv)) and r == 0:
                raise _Unsupported('division by zero')
            return {ast.Add: lambda: l + r, ast.Sub: lambda: l - r, ast.Mult: lambda: l * r, ast.Mod: lambda: l % r,
                    ast.FloorDiv: lambda: l // r}[type(e.op)]()
        if isinstance(e, ast.UnaryOp) and isinstance(e.op, ast.USub):
            return -ev(e.operand)
        if isinstance(e, ast.UnaryOp) and isinstance(e.op, ast.Not):
            return not ev(e.operand)
        if isinstance(e, ast.BoolOp):
            v = None
            for x in e.values:
                v = ev(x)
                if bool(v) != isinstance(e.op, ast.And):
                    return v
            return v
        if isinstance(e, ast.Compare):
            left = ev(e.left)
            for op, right in zip(e.ops, e.comparators):
                r = ev(right)
                if type(op) not in _CMP:
                    raise _Unsupported('comparison')
                if not _CMP[type(op)](left, r):
                    return False
                left = r
            return True
        raise _Unsupported('expression %s' % u(e)[:60])
    return ev(e)


def _index_region(x, ns, cs_, na, hb):
    """{(n, K, S): truth value} of the test `x` over basin indices for every
    basin count in `ns`; None if `x` is not a test over basin indices."""
    out = {}
    try:
        for n in ns:
            for K in range(n):
                for S in range(n):
                    out[(n, K, S)] = bool(_index_eval(x, K, S, n, cs_, na, hb))
    except _Unsupported:
        return None
    return out


def literal_boundary_sets(ck, mod, rule=None):
    """{literal boundary tuple: [wrapper functions that pass it to _rotamers]}."""
    fn = mod.func('_rotamers')
    hb = params(fn)[1]
    sets = {}
    for q, g in mod.functions.items():
        if g is fn or '.' in q:
            continue
        gfi = None
        for c in calls_in(g):
            if call_name(c) != '_rotamers':
                continue
            b = bind_args(c, params(fn))
            if b is None or hb not in b:
                if rule:
                    ck.missing(rule, 'boundaries argument of `%s` in %s' % (u(c)[:80], q))
                continue
            gfi = gfi or finfo(mod, g)
            v = gfi.expand(b[hb])
            vals = [const_value(x) for x in v.elts] if isinstance(v, (ast.List, ast.Tuple)) else None
            if not vals or any(type(x) not in (int, float) for x in vals) or len(vals) < 2:
                if rule:
                    ck.missing(rule, 'boundary set passed by %s is not a literal list: %s' % (q, u(v)[:80]))
                continue
            sets.setdefault(tuple(vals), []).append(q)
    return sets


def d3_exit_test(ck, mod, comp=None):
    rule = 'C20.D3.gates'
    F = GATE
    ft = mod.func(F)
    ck.analysed(mod, ft)
    fi = finfo(mod, ft)
    ps = params(ft)
    gsig = params(mod.func(GATES))
    comp = comp or {}

    def give_up(rid, msg):
        """This rule reads the exit test as order comparisons of two opaque gates and the angle.  A
        spelling outside that class is still decided when the composed evaluation (the function
        interpreted together with get_gates over the buffer-angle plane) went through."""
        if comp.get('status'):
            ck.ok(rid, mod, ft, 'exit test decided together with the gates (C20.D3.gates.composed)',
                  'not a decision over order comparisons of two opaque gates and the angle (%s); decided by the composed evaluation instead' % msg[:120])
            return {'covering-handled': comp.get('covering')}
        ck.missing(rid, msg + (' [composed evaluation not possible either: %s]' % comp['why'][:120] if comp.get('why') else ''))
        return {}
    if len(ps) != 4 or len(gsig) != 3:
        ck.missing(rule + '.order', 'signatures of is_buffered_transition / get_gates not recognised')
        return {}
    cs_, na, hb, bw = ps
    calls = [c for c in calls_in(ft) if call_name(c) == GATES]
    b = bind_args(calls[0], gsig) if len(calls) == 1 else None
    if b is None or len(b) != 3:
        return give_up(rule + '.order', 'one call get_gates(<state>, <boundaries>, <buffer>) in is_buffered_transition')
    call = calls[0]
    v = _worst([classify(fi.expand(b[p]), [want], scope=set(ps)) for p, want in zip(gsig, (cs_, hb, bw))])
    ck.decide(v, rule + '.order', mod, call, F, u(call), 'gates are computed for the current state, the boundaries and the buffer',
              'is_buffered_transition must ask for get_gates(%s, %s, %s)' % (cs_, hb, bw))
    un = [s for s in walk_local(ft) if isinstance(s, ast.Assign) and len(s.targets) == 1 and isinstance(s.targets[0], (ast.Tuple, ast.List))
          and value_call(fi, s.value, GATES) is call]
    # ... or the pair kept under one name and taken apart by index (`g = get_gates(...)`; g[0], g[1]).
    # Which component plays which role is decided by the interpretation below (the call yields the
    # pair (lower, upper)); here only the spelling is recognised, for the messages.
    held = [s for s in walk_local(ft) if isinstance(s, ast.Assign) and len(s.targets) == 1 and isinstance(s.targets[0], ast.Name)
            and s.value is call]
    if len(un) == 1 and len(un[0].targets[0].elts) == 2 and all(isinstance(e, ast.Name) for e in un[0].targets[0].elts):
        LO, UP = [e.id for e in un[0].targets[0].elts]
        ck.ok(rule + '.order', mod, un[0], u(un[0]), '(lower, upper) unpacked in the order get_gates returns them: %s = lower gate, %s = upper gate' % (LO, UP))
    elif len(held) == 1 and not un and not assigns_to(ft, held[0].targets[0].id)[1:] and not fi._mutated_in_place(held[0].targets[0].id):
        g = held[0].targets[0].id
        LO, UP = '%s[0]' % g, '%s[1]' % g
        ck.ok(rule + '.order', mod, held[0], u(held[0]), 'the pair get_gates returns is taken apart by index: %s = lower gate, %s = upper gate' % (LO, UP))
    else:
        return give_up(rule + '.order', 'unpacking `<lower>, <upper> = get_gates(...)` in is_buffered_transition')

    # --- tests that involve neither a gate nor the angle (state / boundaries / buffer only) are
    # not order comparisons of the three numbers: each is recognised by its form and then decided
    # by a truth table.  The one form understood: "the widened basin spans the whole circle"
    # (width of the current basin + 2 * buffer >= 360), under which the basin cannot be left.
    covering, index = [], []
    basins = sorted({len(lit) - 1 for lit in literal_boundary_sets(ck, mod)})
    for st in walk_local(ft):
        if not isinstance(st, ast.If):
            continue
        x = _pos(inline_values(mod, fi.expand(st.test)))
        nm = names_loaded(x) - {'int', 'float', 'np', 'numpy', 'abs', 'min', 'max', 'len'}
        if not nm or not nm <= {cs_, hb, bw, na}:
            continue
        # a test over basin INDICES (the state, the basin np.digitize puts the new angle in, the number
        # of basins): decided below over the finitely many index pairs of the library's boundary sets
        region = _index_region(x, basins, cs_, na, hb) if basins and bw not in nm else None
        if region is not None:
            index.append((st, x, region))
            continue
        if na in nm:
            continue
        if not _is_covering_test(x, cs_, hb, bw):
            return give_up(rule + '.exit-test', 'a test of is_buffered_transition over the state / boundaries / buffer is not recognised: %s' % u(x)[:120])
        covering.append(st)
    if len(covering) > 2 or len(index) > 2:
        return give_up(rule + '.exit-test', '%d covering tests, %d tests over basin indices in is_buffered_transition' % (len(covering), len(index)))

    # --- the decision itself, exactly: a boolean function of order comparisons
    # between three numbers is determined by the weak ordering of the three.
    def spec(lo, up, a):
        return (up < lo and up <= a <= lo) or (lo < up and not (lo <= a <= up))
    cases = {'wrap': [], 'ordinary': [], 'degenerate': [], 'covering': []}
    shortcuts = []          # (index truth values, index pairs of that region, 'True' / 'False' / None = mixed)
    try:
        for ti in itertools.product((False, True), repeat=len(index)):
            pairs = sorted(k for k in (index[0][2] if index else {None: True})
                           if all(reg[k] == t for (_st, _x, reg), t in zip(index, ti)))
            if index and not pairs:
                continue                    # this combination of index tests never holds for the library's boundary sets
            for truth in itertools.product((False, True), repeat=len(covering)):
                forced = {id(st.test): t for st, t in zip(covering, truth)}
                forced.update({id(st.test): t for (st, _x, _r), t in zip(index, ti)})
                local = {'wrap': [], 'ordinary': [], 'degenerate': [], 'covering': []}
                results = set()
                for lo, up, a in itertools.product((0, 1, 2), repeat=3):
                    env = {cs_: _Tok(cs_), hb: _Tok(hb), bw: _Tok(bw), na: a}
                    got = _interpret(ft, env, {GATES: lambda e, lo=lo, up=up: (lo, up)}, forced)
                    if isinstance(got, _Tok) or isinstance(got, tuple):
                        raise _Unsupported('non-boolean result')
                    want = False if any(truth) else bool(spec(lo, up, a))
                    kind = 'covering' if any(truth) else 'wrap' if up < lo else 'ordinary' if lo < up else 'degenerate'
                    results.add(bool(got))
                    if bool(got) != want:
                        local[kind].append('%s=%d, %s=%d, %s=%d: returns %s, expected %s' % (LO, lo, UP, up, na, a, bool(got), want))
                if index and not any(truth) and any(local.values()):
                    # in this region of index pairs the function does not apply the gate test
                    shortcuts.append((ti, pairs, str(results.pop()) if len(results) == 1 else None))
                    continue
                for k in local:
                    cases[k] += local[k]
    except _Unsupported as e:
        return give_up(rule + '.exit-test', 'is_buffered_transition is not a loop-free decision over order comparisons of the gates and the angle (%s)' % e)
    index_bad = False
    for ti, pairs, const in shortcuts:
        shown = ' and '.join(('' if t else 'not ') + '(%s)' % u(x) for (_st, x, _r), t in zip(index, ti))
        st0 = index[0][0]
        adjacent = [(n, K, S) for n, K, S in pairs if K == S or (K - S) % n in (1, n - 1)]
        other = [(n, K, S) for n, K, S in pairs if K != S]
        if const == 'True' and adjacent:
            n, K, S = adjacent[0]
            index_bad = True
            ck.bad(rule + '.exit-test', mod, st0, F, 'transition decided from basin indices alone',
                   'when %s holds, is_buffered_transition reports a transition without consulting the gates. For a boundary set with %d basins that '
                   'is the case for state %d and an angle in basin %d%s: %s. An angle just across that boundary, closer to it than the buffer, is still '
                   'inside basin %d widened by the buffer, so the state must NOT change - the hysteresis is lost exactly there (index pairs: %s)' % (
                       shown, n, S, K, '' if K != S else ' (the current basin itself)',
                       'these two basins are neighbours through the 0/360 seam although their indices differ by %d' % abs(K - S) if abs(K - S) > 1 else
                       'these basins share a boundary', S, ', '.join('n=%d: state %d -> basin %d' % (n_, S_, K_) for n_, K_, S_ in adjacent[:4])))
        elif const == 'False' and other:
            n, K, S = other[0]
            index_bad = True
            ck.bad(rule + '.exit-test', mod, st0, F, 'no transition decided from basin indices alone',
                   'when %s holds, is_buffered_transition reports NO transition without consulting the gates; for %d basins that includes state %d '
                   'with the angle in basin %d: with a zero buffer (admitted) an angle inside another basin has left the current one and the state '
                   'must change (zero buffer = plain binning)' % (shown, n, S, K))
        elif const == 'False':
            ck.ok(rule + '.exit-test', mod, st0, 'no transition while the angle is in the current basin (%s)' % shown,
                  'an angle inside the current basin is inside the widened basin: no transition, whatever the gates')
        else:
            return give_up(rule + '.exit-test', 'a decision of is_buffered_transition taken from basin indices (%s) is not understood: '
                       'result %s for the index pairs %s' % (shown, const or 'depends on the gates but differs from the gate test', pairs[:6]))
    if covering:
        ck.check(not cases['covering'], rule + '.exit-test', mod, covering[0], F,
                 'widened basin spans the circle (%s): no transition' % u(canon(inline_values(mod, fi.expand(covering[0].test)))),
                 'a basin whose widened width reaches 360 degrees cannot be left',
                 'when the width of the current basin plus twice the buffer reaches 360 the angle cannot leave it: the result must be False; '
                 'counter-example: ' + '; '.join(cases['covering'][:2]))
    ck.check(not cases['wrap'], rule + '.exit-test', mod, ft, F, 'wrap-around basin (%s < %s): transition iff %s <= %s <= %s' % (UP, LO, UP, na, LO),
             'for the wrap-around basin (gates flipped) the exit region is BETWEEN the gates',
             'when upper < lower (wrap-around basin) a transition is `upper <= new_angle <= lower`; counter-example: ' + '; '.join(cases['wrap'][:2]))
    ck.check(not cases['ordinary'], rule + '.exit-test', mod, ft, F, 'ordinary basin (%s < %s): transition iff not %s <= %s <= %s' % (LO, UP, LO, na, UP),
             'for an ordinary basin the exit region is OUTSIDE the gates',
             'when upper > lower a transition is `not (lower <= new_angle <= upper)`; counter-example: ' + '; '.join(cases['ordinary'][:2]))
    ck.check(not cases['degenerate'], rule + '.exit-test', mod, ft, F, 'result defaults to False',
             'no transition unless an exit test fires', 'with coinciding gates no exit test fires and the result must be False; counter-example: ' +
             '; '.join(cases['degenerate'][:2]))
    handled = bool(covering) and not any(cases.values())
    if comp.get('status'):
        # the composed evaluation knows which gate orders actually occur for the library's boundary sets
        handled = comp.get('covering')
    return {'covering-handled': handled}


# --- linear forms (constant folding over + - * / of literals; no solving) -----

def _lin(e):
    """(terms, constant) of an expression built with + - unary minus,
    multiplication / division by a literal and int()/float() of a term:
    terms = {canonical text of a non-arithmetic sub-expression: coefficient}.
    None if the expression is not of that shape."""
    if isinstance(e, ast.Constant):
        return ({}, float(e.value)) if type(e.value) in (int, float) else None
    if isinstance(e, ast.UnaryOp) and isinstance(e.op, (ast.USub, ast.UAdd)):
        r = _lin(e.operand)
        if r is None:
            return None
        k = -1.0 if isinstance(e.op, ast.USub) else 1.0
        return ({t: k * c for t, c in r[0].items()}, k * r[1])
    if isinstance(e, ast.BinOp) and isinstance(e.op, (ast.Add, ast.Sub)):
        a, b = _lin(e.left), _lin(e.right)
        if a is None or b is None:
            return None
        k = 1.0 if isinstance(e.op, ast.Add) else -1.0
        terms = dict(a[0])
        for t, c in b[0].items():
            terms[t] = terms.get(t, 0.0) + k * c
        return ({t: c for t, c in terms.items() if c != 0}, a[1] + k * b[1])
    if isinstance(e, ast.BinOp) and isinstance(e.op, (ast.Mult, ast.Div)):
        a, b = _lin(e.left), _lin(e.right)
        if a is None or b is None:
            return None
        if isinstance(e.op, ast.Div):
            if b[0] or b[1] == 0:
                return None
            return ({t: c / b[1] for t, c in a[0].items()}, a[1] / b[1])
        if a[0] and b[0]:
            return None
        if b[0]:
            a, b = b, a
        return ({t: c * b[1] for t, c in a[0].items() if c * b[1] != 0}, a[1] * b[1])
    if isinstance(e, ast.Call) and call_name(e) in ('int', 'float') and len(e.args) == 1 and not e.keywords:
        return _lin(e.args[0])
    return ({_term_key(e): 1.0}, 0.0)


def _lin_text(r):
    return ' + '.join('%g*%s' % (c, t) for t, c in sorted(r[0].items())) + ' + %g' % r[1]


def _term_key(e):
    if isinstance(e, ast.Subscript) and isinstance(e.value, ast.Name) and not isinstance(e.slice, (ast.Slice, ast.Tuple)):
        r = _lin(e.slice)
        if r is not None:
            return '%s[%s]' % (e.value.id, _lin_text(r))
    return u(canon(e))


def _is_covering_test(test, cs_, hb, bw):
    """`test` (canonical, expanded) says: width of basin `cs_` + 2 * buffer
    reaches (or exceeds) 360, i.e. 0 <(=) k * (hb[cs_ + 1] - hb[cs_] + 2 * bw - 360), k > 0."""
    cs = conjuncts(test, True)
    if not cs or len(cs) != 1 or not isinstance(cs[0], Cmp):
        return False
    less = cs[0].as_less()
    if less is None:
        return False
    small, _strict, big = less
    a, b = _lin(small), _lin(big)
    if a is None or b is None:
        return False
    terms = dict(b[0])
    for t, c in a[0].items():
        terms[t] = terms.get(t, 0.0) - c
    terms = {t: c for t, c in terms.items() if abs(c) > 1e-12}
    const = b[1] - a[1]
    hi = '%s[%s]' % (hb, _lin_text(({cs_: 1.0}, 1.0)))
    lo = '%s[%s]' % (hb, _lin_text(({cs_: 1.0}, 0.0)))
    if set(terms) != {bw, hi, lo} or terms[hi] <= 0:
        return False
    k = terms[hi]
    return abs(terms[lo] + k) < 1e-9 and abs(terms[bw] - 2 * k) < 1e-9 and abs(const + 360 * k) < 1e-9


def _aff(e, bw, hb, lit):
    """(coefficient of the buffer, constant) of an expression over the buffer
    parameter and the LITERAL boundary set `lit` (constant folding: len(hb),
    hb[k], max/min, the largest difference of neighbouring boundaries)."""
    if isinstance(e, ast.Constant):
        return (0.0, float(e.value)) if type(e.value) in (int, float) else None
    if isinstance(e, ast.Name):
        return (1.0, 0.0) if e.id == bw else None
    if isinstance(e, ast.UnaryOp) and isinstance(e.op, (ast.USub, ast.UAdd)):
        r = _aff(e.operand, bw, hb, lit)
        return None if r is None else ((-r[0], -r[1]) if isinstance(e.op, ast.USub) else r)
    if isinstance(e, ast.BinOp):
        a, b = _aff(e.left, bw, hb, lit), _aff(e.right, bw, hb, lit)
        if a is None or b is None:
            return None
        if isinstance(e.op, ast.Add):
            return (a[0] + b[0], a[1] + b[1])
        if isinstance(e.op, ast.Sub):
            return (a[0] - b[0], a[1] - b[1])
        if isinstance(e.op, ast.Mult) and (a[0] == 0 or b[0] == 0):
            return (a[0] * b[1] + b[0] * a[1], a[1] * b[1])
        if isinstance(e.op, ast.Div) and b[0] == 0 and b[1] != 0:
            return (a[0] / b[1], a[1] / b[1])
        return None
    if isinstance(e, ast.Subscript) and isinstance(e.value, ast.Name) and e.value.id == hb:
        k = const_value(e.slice)
        return (0.0, float(lit[k])) if type(k) is int and -len(lit) <= k < len(lit) else None
    if isinstance(e, ast.Call):
        cn = call_name(e) or ''
        if cn == 'float' and len(e.args) == 1:
            return _aff(e.args[0], bw, hb, lit)
        if cn == 'len' and len(e.args) == 1 and isinstance(e.args[0], ast.Name) and e.args[0].id == hb:
            return (0.0, float(len(lit)))
        diffs = [b - a for a, b in zip(lit[:-1], lit[1:])]
        isdiff = lambda x: isinstance(x, ast.Call) and call_name(x) in ('np.diff', 'numpy.diff') and len(x.args) == 1 and not x.keywords \
            and isinstance(x.args[0], ast.Name) and x.args[0].id == hb
        if cn in ('max', 'min', 'np.max', 'np.min', 'np.amax', 'np.amin') and len(e.args) == 1 and isdiff(e.args[0]) and not e.keywords:
            return (0.0, float(max(diffs) if 'max' in cn else min(diffs)))
        if isinstance(e.func, ast.Attribute) and e.func.attr in ('max', 'min') and not e.args and not e.keywords and isdiff(e.func.value):
            return (0.0, float(max(diffs) if e.func.attr == 'max' else min(diffs)))
        if cn in ('max', 'min') and e.args and not e.keywords:
            vs = [_aff(x, bw, hb, lit) for x in e.args]
            if all(v is not None and v[0] == 0 for v in vs):
                return (0.0, max(v[1] for v in vs) if cn == 'max' else min(v[1] for v in vs))
    return None


def _buffer_sup(fi, facts, bw, hb, lit):
    """((least upper bound, strict) or None, opaque conditions): the upper end
    of the buffer range that the validation facts of _rotamers (atomic
    conditions known to hold at its return) admit for the literal boundary
    set `lit`; conditions that are not linear forms over literals are listed
    as opaque."""
    sup, opaque = None, []
    for a in facts:
        if not isinstance(a, Cmp) or bw not in names_loaded(fi.expand(a.lhs)) | names_loaded(fi.expand(a.rhs)):
            continue
        less = a.as_less()
        if less is None:
            continue
        small, strict, big = less
        x, y = _aff(canon(fi.expand(small)), bw, hb, lit), _aff(canon(fi.expand(big)), bw, hb, lit)
        if x is None or y is None:
            opaque.append(repr(a))
            continue
        d1, d0 = y[0] - x[0], y[1] - x[1]          # 0 <(=) d1 * b + d0
        if d1 < 0:
            bound = d0 / -d1
            if sup is None or bound < sup[0] or (bound == sup[0] and strict):
                sup = (bound, strict)
    return sup, opaque


def _buffer_admitted(fi, facts, bw, hb, lit):
    """[(fact, lower end or None, upper end or None, strict)]: for every
    validation fact of _rotamers that is an order comparison of affine
    functions of the buffer over the literal boundary set `lit`, the half-line
    of buffers it admits (`lower` <(=) buffer, or buffer <(=) `upper`; a
    fact without the buffer that folds to False admits nothing: lower = +inf)."""
    out = []
    for a in facts:
        if not isinstance(a, Cmp):
            continue
        less = a.as_less()
        if less is None:
            continue
        small, strict, big = less
        xs, xb = canon(fi.expand(small)), canon(fi.expand(big))
        if bw not in names_loaded(xs) | names_loaded(xb):
            continue
        x, y = _aff(xs, bw, hb, lit), _aff(xb, bw, hb, lit)
        if x is None or y is None:
            continue
        d1, d0 = y[0] - x[0], y[1] - x[1]          # 0 <(=) d1 * b + d0
        if d1 < 0:
            out.append((a, None, d0 / -d1, strict))
        elif d1 > 0:
            out.append((a, -d0 / d1, None, strict))
    return out


def d3_buffer_admitted(ck, mod, fi, facts, bw, hb, lit, users):
    """The other half of the buffer range: the validation must not REJECT a
    buffer the property covers.  For a literal boundary set with widest basin
    w every buffer in [0, (360 - w) / 2) is unambiguously "in range" (every
    widened basin stays a proper arc of the circle; 0 is plain binning; the
    library default 15 lies inside for every set it passes).  Each
    validation fact holds on every path that reaches the result, so ONE fact
    that excludes such a buffer makes _rotamers raise for an admitted input."""
    rule = 'C20.D3.gates.buffer-admitted'
    widest = max(b - a for a, b in zip(lit[:-1], lit[1:]))
    need = (360 - widest) / 2.0
    if need <= 0:
        return
    con = 'buffers the validation lets through for the boundary set %s' % (list(lit),)
    rows = _buffer_admitted(fi, facts, bw, hb, lit)
    bad, site = [], None
    for a, lo, hi, strict in rows:
        if (lo is not None and (lo > 0 or (lo == 0 and strict))) or (hi is not None and hi < need - 1e-9):
            site = site or (a.lhs if hasattr(a.lhs, 'lineno') else a.rhs if hasattr(a.rhs, 'lineno') else None)
        if lo is not None and (lo > 0 or (lo == 0 and strict)):
            bad.append('`%s` must hold to get past the validation: only buffers %s %g pass, so %s raises' % (
                a, '>' if strict else '>=', lo, 'a zero buffer (plain binning)' if lo == 0 else 'every buffer below %g (e.g. 0%s)' % (lo, ', 15' if lo > 15 else '')))
        elif hi is not None and hi < need - 1e-9:
            bad.append('`%s` must hold to get past the validation: only buffers %s %g pass, so every buffer between %g and %g raises%s' % (
                a, '<' if strict else '<=', hi, hi, need, ' (e.g. the default 15)' if hi < 15 else ''))
    if bad:
        ck.bad(rule, mod, site or fi.fn, '_rotamers', con,
               'for the boundary set %s (passed by %s, widest basin %g) every buffer in [0, %g) keeps each widened basin a proper arc of the circle and is '
               'inside the property\'s range, but %s' % (list(lit), ', '.join(sorted(set(users))), widest, need, '; '.join(bad)))
    elif rows:
        ck.ok(rule, mod, fi.fn, con, 'no validation condition excludes a buffer of [0, %g)' % need)


def d3_buffer_range(ck, mod, exit_info):
    """The wrap-around basin is recognised by is_buffered_transition through
    `upper gate < lower gate` alone.  For the basin [lo, hi] of width w the
    gates are lo - b and hi + b (mod 360): they stay in that order exactly
    while w + 2b <= 360.  So for every boundary set the library passes
    (literals in the wrappers) every ADMITTED buffer (what _rotamers'
    validation lets through, folded with that literal set) must keep
    widest basin + 2 * buffer <= 360 - unless the exit test itself treats a
    basin that spans the circle as not leavable.  Plain arithmetic on source
    literals; no inequality solving."""
    rule = 'C20.D3.gates.buffer-range'
    F = '_rotamers'
    fn = mod.func(F)
    fi = finfo(mod, fn)
    if len(params(fn)) < 3:
        ck.missing(rule, 'signature of _rotamers')
        return
    _ang, hb, bw = params(fn)[:3]
    sets = literal_boundary_sets(ck, mod, rule)
    ck.floor(rule, len(sets), 2, 'literal boundary sets passed to _rotamers')
    rets = returns_of(fn)
    if len(rets) != 1:
        ck.missing(rule, 'single return of _rotamers')
        return
    facts = guard_atoms(fi, rets[0])
    if facts is None:
        ck.missing(rule, 'the input validation of _rotamers is not a conjunction of atomic conditions')
        return
    if fi.rd.defs_at(rets[0], bw) != {'PARAM'}:
        ck.missing(rule, '%s is rebound inside _rotamers' % bw)
        return
    # three-valued: True / False as decided by the exit-test rule; None when that rule could not
    # analyse is_buffered_transition (then "no covering case" is not established either)
    handled = exit_info.get('covering-handled')
    failing = []
    for lit, users in sorted(sets.items()):
        sup, opaque = _buffer_sup(fi, facts, bw, hb, lit)
        d3_buffer_admitted(ck, mod, fi, facts, bw, hb, lit, users)
        widest = max(b - a for a, b in zip(lit[:-1], lit[1:]))
        con = 'buffer range admitted for the boundary set %s' % (list(lit),)
        who = ', '.join(sorted(set(users)))
        if sup is not None and widest + 2 * sup[0] <= 360 + 1e-9:
            ck.ok(rule, mod, fn, con, 'buffer %s %g keeps widest basin (%g) + 2 * buffer within 360 (%s)' % ('<' if sup[1] else '<=', sup[0], widest, who))
        elif handled:
            ck.ok(rule, mod, fn, con, 'wider buffers are admitted, but is_buffered_transition treats a widened basin that spans the circle as not leavable')
        elif handled is None:
            ck.missing(rule, 'the validation admits %s for %s, which needs an exit test that handles a widened basin spanning the circle, '
                       'and is_buffered_transition could not be analysed' % (('buffer %s %g' % ('<' if sup[1] else '<=', sup[0])) if sup else 'any buffer', list(lit)))
        elif opaque:
            ck.missing(rule, 'a validation condition on the buffer is not a linear form over literals: %s' % '; '.join(opaque)[:160])
        else:
            failing.append('%s for %s (passed by %s): widest basin %g, broken for every buffer above %g' % (
                ('buffer %s %g' % ('<' if sup[1] else '<=', sup[0])) if sup else 'any buffer', list(lit), who, widest, (360 - widest) / 2.0))
    if failing:
        ck.bad(rule, mod, fn, F, 'buffer range admitted for the boundary sets the library passes',
               '_rotamers admits %s. A basin widened by the buffer on both sides exceeds the full circle as soon as width + 2 * buffer > 360: '
               'the swapped gates of get_gates cross a second time (upper gate > lower gate), is_buffered_transition then takes the '
               'ordinary-basin branch and the exit test is inverted - the state changes while the angle is still inside the widened basin '
               '(hysteresis lost, e.g. boundaries [0, 180, 360], buffer 100, angles [10, 200] -> states [0, 1]). Neither the validation '
               '(widest basin + 2 * buffer <= 360) nor the exit test (no transition when the widened basin spans the circle) covers it' % (
                   '; '.join(failing)))


# --- the exit decision composed with the gates, decided over (buffer, angle) ---

class _L2:
    """c + p * <buffer> + q * <angle>, exact rational coefficients."""
    __slots__ = ('c', 'p', 'q')

    def __init__(self, c=0, p=0, q=0):
        self.c, self.p, self.q = Fraction(c), Fraction(p), Fraction(q)

    def is_const(self):
        return self.p == 0 and self.q == 0

    def at(self, b, a):
        return self.c + self.p * b + self.q * a

    def plus(self, o, k=1):
        return _L2(self.c + k * o.c, self.p + k * o.p, self.q + k * o.q)

    def times(self, k):
        return _L2(self.c * k, self.p * k, self.q * k)

    def key(self):
        """The line {self == 0}, normalised (orientation dropped)."""
        d = self.q if self.q != 0 else self.p
        return (self.c / d, self.p / d, self.q / d)

    def __repr__(self):
        return '%s%s%s' % (float(self.c), ' %+g*buffer' % float(self.p) if self.p else '', ' %+g*angle' % float(self.q) if self.q else '')


class _Point:
    """One (buffer, angle) pair; every comparison whose outcome depends on
    the pair is recorded as a line of the plane."""

    def __init__(self, b, a, lines):
        self.b, self.a, self.lines = b, a, lines

    def sign(self, x):
        if x.is_const():
            v = x.c
        else:
            self.lines.add(x.key())
            v = x.at(self.b, self.a)
        return (v > 0) - (v < 0)


def _module_number(mod, name):
    """The number a module-level name is bound to, once, by `NAME = <literal>`
    (and never rebound or mutated at run time); else None."""
    hits = [n for n in mod.tree.body if isinstance(n, ast.Assign) and any(name in target_names(t) for t in n.targets)]
    if len(hits) != 1 or len(hits[0].targets) != 1 or not isinstance(hits[0].targets[0], ast.Name) or name in runtime_writes(mod):
        return None
    v = const_value(canon(hits[0].value))
    return v if type(v) in (int, float) else None


class _Compose:
    """Interpreter for the loop-free decision functions of the state machine
    (is_buffered_transition, get_gates and whatever module-level helpers
    they call) on ONE literal boundary set and ONE state, with the buffer
    width and the angle kept as SYMBOLS: every number is an affine function
    of the two (_L2); a comparison between two of them is decided at the
    (buffer, angle) pair of the current _Point, which records the line the
    comparison draws in the plane.  The boundaries are a tuple of constants.
    Anything without a model raises _Unsupported; an exception the code
    itself raises (IndexError on the boundaries, assert, raise) is _Raises."""

    def __init__(self, mod, pt, forced=None, noop=(), top=None):
        self.mod, self.pt = mod, pt
        self.forced, self.noop = forced or {}, noop
        self.top = top
        self.trace = []         # (If statement of the top function, outcome)

    # -- values
    def num(self, v, what=''):
        if isinstance(v, bool):
            return _L2(int(v))
        if not isinstance(v, _L2):
            raise _Unsupported('%s is not a number' % (what or 'a value'))
        return v

    def const(self, v, what=''):
        v = self.num(v, what)
        if not v.is_const():
            raise _Unsupported('%s depends on the buffer or the angle' % (what or 'a value'))
        return v.c

    def index(self, v, what):
        k = self.const(v, what)
        if k.denominator != 1:
            raise _Unsupported('%s is not an integer' % what)
        return int(k)

    def truth(self, v):
        if isinstance(v, bool):
            return v
        if v is None:
            return False
        if isinstance(v, _L2):
            return self.pt.sign(v) != 0
        if isinstance(v, tuple):
            return len(v) > 0
        raise _Unsupported('truth value of an opaque value')

    def cmp(self, op, l, r, e):
        if isinstance(op, (ast.Is, ast.IsNot)):
            if l is None or r is None or isinstance(l, bool) and isinstance(r, bool):
                return (l is r) == isinstance(op, ast.Is)
            raise _Unsupported('identity test %s' % u(e)[:60])
        if (l is None or r is None) and isinstance(op, (ast.Eq, ast.NotEq)):
            if isinstance(l, (_L2, bool, tuple)) or isinstance(r, (_L2, bool, tuple)) or (l is None and r is None):
                return (l is None and r is None) == isinstance(op, ast.Eq)
        if type(op) not in _CMP:
            raise _Unsupported('comparison %s' % u(e)[:60])
        s = self.pt.sign(self.num(l, u(e)[:40]).plus(self.num(r, u(e)[:40]), -1))
        return _CMP[type(op)](s, 0)

    def count_below(self, x, bins, strict):
        """Number of entries of the ascending constant tuple `bins` that are
        <= x (strict: < x)."""
        x = self.num(x, 'the value that is binned')
        vals = [self.const(b_, 'a bin edge') for b_ in bins]
        if any(b2 < b1 for b1, b2 in zip(vals, vals[1:])):
            raise _Unsupported('bin edges are not ascending')
        n = 0
        for b_ in vals:
            s = self.pt.sign(x.plus(_L2(b_), -1))
            if s > 0 or (s == 0 and not strict):
                n += 1
            else:
                break
        return _L2(n)

    # -- expressions
    def ev(self, e, env):
        if isinstance(e, ast.Constant):
            if isinstance(e.value, bool) or e.value is None:
                return e.value
            if type(e.value) in (int, float):
                return _L2(e.value)
            return _Tok('<constant>')
        if isinstance(e, ast.Name):
            if e.id in env:
                return env[e.id]
            v = _module_number(self.mod, e.id)
            if v is None:
                raise _Unsupported('name %s' % e.id)
            return _L2(v)
        if isinstance(e, (ast.Tuple, ast.List)):
            return tuple(self.ev(x, env) for x in e.elts)
        if isinstance(e, ast.Subscript):
            base = self.ev(e.value, env)
            if not isinstance(base, tuple):
                raise _Unsupported('subscript %s' % u(e)[:60])
            if isinstance(e.slice, ast.Slice):
                lo, up, st = [None if x is None or (isinstance(x, ast.Constant) and x.value is None) else self.index(self.ev(x, env), 'a slice bound')
                              for x in (e.slice.lower, e.slice.upper, e.slice.step)]
                if st == 0:
                    raise _Raises('slice step 0')
                return base[slice(lo, up, st)]
            if isinstance(e.slice, ast.Tuple):
                raise _Unsupported('subscript %s' % u(e)[:60])
            k = self.index(self.ev(e.slice, env), 'the index in %s' % u(e)[:40])
            if not -len(base) <= k < len(base):
                raise _Raises('IndexError: %s with index %d, %d entries' % (u(e)[:40], k, len(base)))
            return base[k]
        if isinstance(e, ast.Call):
            return self.call(e, env)
        if isinstance(e, ast.BinOp):
            l, r = self.num(self.ev(e.left, env), u(e.left)[:40]), self.num(self.ev(e.right, env), u(e.right)[:40])
            if isinstance(e.op, ast.Add):
                return l.plus(r)
            if isinstance(e.op, ast.Sub):
                return l.plus(r, -1)
            if isinstance(e.op, ast.Mult) and (l.is_const() or r.is_const()):
                return r.times(l.c) if l.is_const() else l.times(r.c)
            if isinstance(e.op, ast.Div) and r.is_const():
                if r.c == 0:
                    raise _Raises('ZeroDivisionError: %s' % u(e)[:40])
                return l.times(1 / r.c)
            if isinstance(e.op, (ast.Mod, ast.FloorDiv)) and r.is_const() and r.c > 0:
                # x = m * k + rest with 0 <= rest < m: the quotient k is found by comparisons
                for k in (0, -1, 1, -2, 2, -3, 3):
                    rest = l.plus(_L2(r.c * k), -1)
                    if self.pt.sign(rest) >= 0 and self.pt.sign(rest.plus(_L2(r.c), -1)) < 0:
                        return rest if isinstance(e.op, ast.Mod) else _L2(k)
            raise _Unsupported('arithmetic %s' % u(e)[:60])
        if isinstance(e, ast.UnaryOp):
            if isinstance(e.op, ast.Not):
                return not self.truth(self.ev(e.operand, env))
            v = self.num(self.ev(e.operand, env), u(e.operand)[:40])
            if isinstance(e.op, ast.USub):
                return v.times(-1)
            if isinstance(e.op, ast.UAdd):
                return v
            raise _Unsupported('operator in %s' % u(e)[:40])
        if isinstance(e, ast.Compare):
            if id(e) in self.forced:
                return self.forced[id(e)]
            left = self.ev(e.left, env)
            for op, right in zip(e.ops, e.comparators):
                r = self.ev(right, env)
                if not self.cmp(op, left, r, e):
                    return False
                left = r
            return True
        if isinstance(e, ast.BoolOp):
            v = None
            for x in e.values:
                v = self.ev(x, env)
                if self.truth(v) != isinstance(e.op, ast.And):
                    return v
            return v
        if isinstance(e, ast.IfExp):
            return self.ev(e.body, env) if self.truth(self.ev(e.test, env)) else self.ev(e.orelse, env)
        raise _Unsupported('expression %s' % u(e)[:60])

    def call(self, e, env, depth=6):
        cn = call_name(e) or ''
        if any(isinstance(a, ast.Starred) for a in e.args) or any(k.arg is None for k in e.keywords):
            raise _Unsupported('call %s' % u(e)[:60])
        g = self.mod.functions.get(e.func.id) if isinstance(e.func, ast.Name) and e.func.id not in env else None
        if g is not None:
            return self.apply(g, e, env)
        a = [self.ev(x, env) for x in e.args]
        kw = {k.arg: self.ev(k.value, env) for k in e.keywords}
        if cn in ('int', 'float') and len(a) == 1 and not kw:
            v = self.num(a[0], 'argument of %s()' % cn)
            if cn == 'float':
                return v
            if not v.is_const():
                raise _Unsupported('int() of a value that depends on the buffer or the angle')
            return _L2(int(v.c))            # truncation towards zero, as int() does
        if cn == 'bool' and len(a) == 1 and not kw:
            return self.truth(a[0])
        if cn == 'len' and len(a) == 1 and not kw and isinstance(a[0], tuple):
            return _L2(len(a[0]))
        if cn == 'abs' and len(a) == 1 and not kw:
            v = self.num(a[0], 'argument of abs()')
            return v.times(-1) if self.pt.sign(v) < 0 else v
        if cn in ('min', 'max') and not kw and (len(a) >= 2 or (len(a) == 1 and isinstance(a[0], tuple) and a[0])):
            vs = [self.num(x, 'argument of %s()' % cn) for x in (a if len(a) >= 2 else a[0])]
            best = vs[0]
            for x in vs[1:]:
                s = self.pt.sign(x.plus(best, -1))
                if (s < 0 and cn == 'min') or (s > 0 and cn == 'max'):
                    best = x
            return best
        if cn in _ARRAY_CONV + ('list', 'tuple') and len(a) == 1 and isinstance(a[0], tuple) and not set(kw) - {'dtype'}:
            return a[0]
        if cn in ('np.digitize', 'numpy.digitize') and len(a) in (2, 3) and set(kw) <= {'right'} and isinstance(a[1], tuple):
            right = a[2] if len(a) == 3 else kw.get('right', False)
            if not isinstance(right, bool):
                raise _Unsupported('call %s' % u(e)[:60])
            return self.count_below(a[0], a[1], strict=right)
        if cn in ('np.searchsorted', 'numpy.searchsorted') and len(a) in (2, 3) and set(kw) <= {'side'} and isinstance(a[0], tuple):
            side = e.args[2] if len(e.args) == 3 else kwarg(e, 'side')
            side = 'left' if side is None else const_value(side)
            if side not in ('left', 'right'):
                raise _Unsupported('call %s' % u(e)[:60])
            return self.count_below(a[1], a[0], strict=side == 'left')
        raise _Unsupported('call %s' % u(e)[:60])

    def apply(self, g, e, env):
        """A call of a module-level function: its body is interpreted with
        the parameters bound to the argument values."""
        from ..core import param_default
        if g.decorator_list or g.args.vararg or g.args.kwarg or getattr(self, '_depth', 0) >= 6:
            raise _Unsupported('call %s' % u(e)[:60])
        ps = params(g)
        bnd = bind_args(e, ps)
        if bnd is None:
            raise _Unsupported('call %s' % u(e)[:60])
        new = {}
        for p_ in ps:
            if p_ in bnd:
                new[p_] = self.ev(bnd[p_], env)
            else:
                d = param_default(g, p_)
                if d is None:
                    raise _Raises('TypeError: %s misses the argument %s' % (u(e)[:40], p_))
                new[p_] = self.ev(d, {})
        return self.run_function(g, new)

    def run_function(self, g, env):
        self._depth = getattr(self, '_depth', 0) + 1
        try:
            r = self.run(g.body, env, g)
        finally:
            self._depth -= 1
        return r[1] if r is not None else None

    # -- statements
    def assign(self, t, v, env):
        if isinstance(t, ast.Name):
            env[t.id] = v
        elif isinstance(t, (ast.Tuple, ast.List)) and not any(isinstance(x, ast.Starred) for x in t.elts):
            if not isinstance(v, tuple):
                raise _Unsupported('unpacking of %s' % u(t)[:40])
            if len(v) != len(t.elts):
                raise _Raises('ValueError: unpacking %d values into %s' % (len(v), u(t)[:40]))
            for te, ve in zip(t.elts, v):
                self.assign(te, ve, env)
        else:
            raise _Unsupported('assignment target %s' % u(t)[:40])

    def run(self, stmts, env, g):
        for st in stmts:
            if st in self.noop or isinstance(st, ast.Pass):
                continue
            if isinstance(st, ast.Expr):
                if isinstance(st.value, ast.Constant) or (isinstance(st.value, ast.Call) and
                                                         (call_name(st.value) or '').split('.')[0] in ('logger', 'logging', 'print', 'warnings')):
                    continue
                raise _Unsupported('statement %s' % u(st)[:60])
            if isinstance(st, (ast.Assign, ast.AnnAssign)):
                if st.value is None:
                    continue
                v = self.ev(st.value, env)
                for t in (st.targets if isinstance(st, ast.Assign) else [st.target]):
                    self.assign(t, v, env)
                continue
            if isinstance(st, ast.AugAssign) and isinstance(st.target, ast.Name):
                env[st.target.id] = self.ev(ast.BinOp(left=ast.Name(id=st.target.id, ctx=ast.Load()), op=st.op, right=st.value), env)
                continue
            if isinstance(st, ast.If):
                t = self.forced[id(st.test)] if id(st.test) in self.forced else self.truth(self.ev(st.test, env))
                if g is self.top:
                    self.trace.append((st, t))
                r = self.run(st.body if t else st.orelse, env, g)
                if r is not None:
                    return r
                continue
            if isinstance(st, ast.Return):
                return ('return', self.ev(st.value, env) if st.value is not None else None)
            if isinstance(st, ast.Assert):
                if not self.truth(self.ev(st.test, env)):
                    raise _Raises('AssertionError: %s' % u(st.test)[:60])
                continue
            if isinstance(st, ast.Raise):
                raise _Raises('raises %s' % u(st)[6:60])
            raise _Unsupported('statement %s' % type(st).__name__)
        return None


def _arc_spec(lit, S, b, a):
    """The property, for one basin of a literal boundary set: the widened
    basin is the arc [lit[S] - b, lit[S + 1] + b] of the circle; an arc of
    360 degrees or more is the whole circle and cannot be left; otherwise a
    transition is an angle outside the arc (angles on its ends are not
    sampled).  Returns (transition?, widened basin spans the circle?)."""
    lo, up = lit[S] - b, lit[S + 1] + b
    if up - lo >= 360:
        return False, True
    return not any(lo <= a + 360 * k <= up for k in (-1, 0, 1)), False


def _arc_lines(lit, S):
    lo, up = _L2(lit[S], -1), _L2(lit[S + 1], 1)
    out = {up.plus(lo, -1).plus(_L2(360), -1).key(), _L2(0, 1).key()}
    for k in (-1, 0, 1):
        for g in (lo, up):
            out.add(_L2(360 * k, 0, 1).plus(g, -1).key())
    return out


def _plane_samples(lines, sup, strict):
    """Sample points of the plane region 0 <= buffer <(=) sup, 0 < angle < 360
    that meet every face of the arrangement of `lines` in which the angle
    is generic: for every critical buffer value (a vertical line, a crossing
    of two lines, a line entering or leaving the angle range) and for one
    value strictly between neighbouring critical values, one angle strictly
    between each pair of neighbouring lines."""
    sup = Fraction(sup)
    slanted = sorted(l for l in lines if l[2] != 0)
    crit = {Fraction(0)}
    for c, p, q in lines:
        if q == 0:
            crit.add(-c)                        # normalised: p == 1
        elif p != 0:
            crit.add(-c / p)                    # angle 0
            crit.add(-(c + 360) / p)            # angle 360
    for i, (c1, p1, _q1) in enumerate(slanted):
        for c2, p2, _q2 in slanted[i + 1:]:
            if p1 != p2:
                crit.add((c2 - c1) / (p1 - p2))
    crit = sorted(x for x in crit if 0 <= x and (x < sup or (x == sup and not strict)))
    bs = []
    for x, y in zip(crit, crit[1:] + [sup]):
        bs.append(x)
        if x < y:
            bs.append((x + y) / 2)
    out = []
    for b in bs:
        cuts = sorted({Fraction(0), Fraction(360)} | {-(c + p * b) for c, p, _q in slanted if 0 < -(c + p * b) < 360})
        out += [(b, (x + y) / 2) for x, y in zip(cuts, cuts[1:])]
    return out


def d3_composed(ck, mod, memo=None):
    """The exit decision as the state machine USES it - is_buffered_transition
    with get_gates (and any module-level helper) interpreted inside it - for
    every literal boundary set the library passes, every state of it, every
    buffer width the validation of _rotamers admits for that set and every
    angle of (0, 360) off the finitely many gate values, against the
    property itself: a transition is an angle outside the arc
    [boundaries[s] - buffer, boundaries[s + 1] + buffer] of the circle, and an
    arc that spans the circle cannot be left.  Both sides are piecewise
    constant on the faces of the arrangement of the lines that their
    comparisons of affine functions of (buffer, angle) draw in the plane; the
    lines are collected while interpreting (a comparison met at one point of a
    face is met at all of them), the faces are sampled exactly (rational
    arithmetic) until no new line appears.  A finite abstract domain (sign
    vectors of finitely many affine forms), no solver, nothing of /repo is
    executed.  Returns {'status': 'ok' | 'bad' | None, 'covering': True /
    False / None (the covering case is handled)}."""
    rule = 'C20.D3.gates.composed'
    out = {'status': None, 'covering': None, 'why': ''}
    try:
        ft, fr = mod.func(GATE), mod.func('_rotamers')
    except Exception:
        return out
    ps = params(ft)
    if len(ps) != 4 or len(params(fr)) < 3:
        out['why'] = 'signature of is_buffered_transition / _rotamers'
        return out
    _ang, hb, bw = params(fr)[:3]
    fi = finfo(mod, fr)
    rets = returns_of(fr)
    facts = guard_atoms(fi, rets[0]) if len(rets) == 1 else None
    sets = literal_boundary_sets(ck, mod)
    if facts is None or not sets or fi.rd.defs_at(rets[0], bw) != {'PARAM'}:
        out['why'] = 'validation of _rotamers / literal boundary sets not recognised'
        return out
    forced, noop = {}, []
    for g, mm in (memo or {}).items():
        # a verified memo table (D5): a stored entry equals what the call computes - the miss path is the function
        for n in walk_local(g):
            if isinstance(n, ast.Compare) and len(n.ops) == 1 and isinstance(n.ops[0], (ast.In, ast.NotIn)) \
                    and isinstance(n.comparators[0], ast.Name) and n.comparators[0].id == mm['table']:
                forced[id(n)] = isinstance(n.ops[0], ast.NotIn)
        noop += [st for st, _v in mm['fills']]
    bad = {'covering': [], 'exit': []}
    sites = {'covering': None, 'exit': None}
    n_faces = n_cases = 0
    try:
        for lit in sorted(sets):
            sup, _opaque = _buffer_sup(fi, facts, bw, hb, lit)
            if sup is None:
                raise _Unsupported('no upper end of the admitted buffer range for %s' % (list(lit),))
            bounds = tuple(_L2(x) for x in lit)
            flit = [Fraction(x) for x in lit]
            for S in range(len(lit) - 1):
                n_cases += 1
                lines = _arc_lines(flit, S)
                for _round in range(8):
                    known = set(lines)
                    found = {'covering': [], 'exit': []}
                    samples = _plane_samples(known, sup[0], sup[1])
                    for b, a in samples:
                        pt = _Point(b, a, lines)
                        run = _Compose(mod, pt, forced, noop, top=ft)
                        env = dict(zip(ps, (_L2(S), _L2(0, 0, 1), bounds, _L2(0, 1, 0))))
                        want, spans = _arc_spec(flit, S, b, a)
                        try:
                            got = run.truth(run.run_function(ft, env))
                            shown = str(got)
                        except _Raises as e:
                            got, shown = None, str(e)
                        if got is not want:
                            guard = [st for st, _t in run.trace if ps[1] not in names_loaded(st.test)]
                            found['covering' if spans else 'exit'].append(
                                ('boundaries %s, state %d, buffer %g, angle %g: %s, the property says %s' % (
                                    list(lit), S, float(b), float(a), shown if got is None else 'returns ' + shown, want), guard[0] if guard else None))
                    if lines == known:
                        break
                else:
                    raise _Unsupported('the comparisons of is_buffered_transition keep drawing new lines')
                n_faces += len(samples)
                for kind in found:
                    bad[kind] += [t for t, _s in found[kind]]
                    if found[kind] and sites[kind] is None:
                        sites[kind] = found[kind][0][1]
    except _Unsupported as e:
        out['why'] = str(e)
        return out
    ck.analysed(mod, ft)
    what = 'is_buffered_transition composed with get_gates'
    if bad['covering']:
        ck.bad(rule, mod, sites['covering'] or ft, GATE, 'exit decision for a widened basin that spans the circle',
               '%s, evaluated with the buffer and the angle as symbols for every literal boundary set and state: a basin whose width plus twice the '
               'buffer reaches 360 degrees covers the whole circle and cannot be left, for EVERY such basin (also the last one, whose upper gate is '
               'the one get_gates wraps) - the validation of _rotamers admits these buffers. Counter-examples (%d faces): %s' % (
                   what, len(bad['covering']), '; '.join(bad['covering'][:3])))
    if bad['exit']:
        ck.bad(rule, mod, sites['exit'] or ft, GATE, 'exit decision against the widened basin on the circle',
               '%s, evaluated with the buffer and the angle as symbols for every literal boundary set and state: a transition is exactly an angle '
               'outside [boundaries[s] - buffer, boundaries[s + 1] + buffer] taken on the circle (wrap-around at 0/360). Counter-examples (%d faces): %s' % (
                   what, len(bad['exit']), '; '.join(bad['exit'][:3])))
    if not bad['covering'] and not bad['exit']:
        ck.ok(rule, mod, ft, '%s (%d boundary set / state pairs, %d faces of the buffer-angle plane)' % (what, n_cases, n_faces),
              'transition iff the angle lies outside the current basin widened by the buffer on the circle; a widened basin that spans the circle is never left')
    out['status'] = 'bad' if bad['covering'] or bad['exit'] else 'ok'
    out['covering'] = not bad['covering']
    return out


def _mask_of(fi, idx):
    """The boolean mask a subscript selects with: np.where(m) / np.nonzero(m) / m."""
    idx = canon(fi.expand(idx))
    if isinstance(idx, ast.Call) and call_name(idx) in ('np.where', 'np.nonzero', 'numpy.where', 'numpy.nonzero') and len(idx.args) == 1 and not idx.keywords:
        idx = idx.args[0]
    if isinstance(idx, ast.Subscript) and isinstance(idx.value, ast.Call) and call_name(idx.value) in ('np.where', 'np.nonzero') \
            and len(idx.value.args) == 1 and const_value(idx.slice) == 0:
        idx = idx.value.args[0]
    return idx


def _num(e):
    v = const_value(canon(e))
    return float(v) if type(v) in (int, float) else None


def d1_wrapped_angles(ck, mod):
    """Angles are brought into [0, P) by adding the period P to the negative
    ones.  In floating point x + P == P for every x in (-ulp(P)/2, 0) - in
    float32, which mdtraj returns, for x down to -1.5e-5 - so after the wrap
    the array can contain exactly P, which lies in no basin (first-frame
    search finds none: state -1; digitize gives n_basins; get_gates indexes
    past the boundaries).  Every such wrap must therefore be followed, before
    the array is used, by a clamp / re-wrap of the values >= P."""
    rule = 'C20.D1.angles-in-range'
    n = 0
    for q, fn in mod.functions.items():
        if '.' in q:
            continue
        fi = None
        for W in walk_local(fn):
            if not (isinstance(W, ast.AugAssign) and isinstance(W.op, ast.Add) and isinstance(W.target, ast.Subscript)
                    and isinstance(W.target.value, ast.Name)):
                continue
            P = _num(W.value)
            if P is None or P <= 0:
                continue
            fi = fi or finfo(mod, fn)
            X = W.target.value.id
            m = _mask_of(fi, W.target.slice)
            cs = conjuncts(m, True) if isinstance(m, ast.Compare) else None
            if not cs or len(cs) != 1 or not isinstance(cs[0], Cmp):
                continue
            less = cs[0].as_less()
            if less is None or not (isinstance(less[0], ast.Name) and less[0].id == X and _num(less[2]) == 0):
                continue                      # not "the negative entries of X"
            n += 1
            ck.analysed(mod, fn)
            # the wrap moves exactly the NEGATIVE entries: `X <= 0` also selects an angle of exactly 0, which lies
            # in [0, P) already - it becomes P and is then clamped to a value just below P, i.e. it crosses the 0/P seam
            ck.check(less[1], 'C20.D1.angles-wrap-mask', mod, W, q, 'entries moved by the wrap +%g: %s' % (P, u(m)),
                     'only the negative entries are moved by the period',
                     '`%s` also adds the period to an entry that is exactly 0: an angle of 0 lies in [0, %g) already; it becomes %g and is then '
                     'clamped just below %g - on the other side of the 0/%g seam, so a first frame at angle 0 is given the LAST basin '
                     'instead of basin 0 (the mask of the wrap must be the strict `%s < 0`)' % (u(W), P, P, P, P, X))
            clamps = []
            for C in walk_local(fn):
                if C is W or not isinstance(C, (ast.Assign, ast.AugAssign)):
                    continue
                tg = C.targets[0] if isinstance(C, ast.Assign) and len(C.targets) == 1 else C.target if isinstance(C, ast.AugAssign) else None
                if isinstance(tg, ast.Subscript) and isinstance(tg.value, ast.Name) and tg.value.id == X:
                    cm = _mask_of(fi, tg.slice)
                    cc = conjuncts(cm, True) if isinstance(cm, ast.Compare) else None
                    cl = cc[0].as_less() if cc and len(cc) == 1 and isinstance(cc[0], Cmp) else None
                    if cl is None or not (isinstance(cl[2], ast.Name) and cl[2].id == X) or _num(cl[0]) is None:
                        continue
                    c, strict = _num(cl[0]), cl[1]             # entries with c <(=) X
                    covers = c < P if strict else c <= P
                    v = _num(C.value)
                    if isinstance(C, ast.Assign) and covers and v is not None and 0 <= v < P:
                        clamps.append(C)
                    elif isinstance(C, ast.AugAssign) and isinstance(C.op, ast.Sub) and covers and v == P and c >= 0:
                        clamps.append(C)
                elif isinstance(C, ast.Assign) and isinstance(tg, ast.Name) and tg.id == X and isinstance(C.value, ast.Call):
                    cn = call_name(C.value) or ''
                    a = C.value.args
                    if cn in ('np.clip', 'numpy.clip') and len(a) == 3 and isinstance(a[0], ast.Name) and a[0].id == X and _num(a[2]) is not None and _num(a[2]) < P:
                        clamps.append(C)
                    elif cn in ('np.minimum', 'np.fmin') and len(a) == 2 and isinstance(a[0], ast.Name) and a[0].id == X and _num(a[1]) is not None and _num(a[1]) < P:
                        clamps.append(C)
            good = None
            for C in clamps:
                if not fi.cfg.dominates(W, C) or fi.cfg.reachable(W, 'EXIT', avoiding=[C]):
                    continue
                early = [S for S in fi.cfg.nodes if not isinstance(S, (str, Assume)) and S is not W and S is not C
                         and any(nm.id == X for nm in header_uses(S)) and fi.cfg.reachable(W, S, avoiding=[C])]
                if not early:
                    good = C
                    break
            if good is not None:
                ck.ok(rule, mod, W, '%s; %s' % (u(W), u(good)), 'values the wrap rounds up to %g are clamped before the angles are used' % P)
            else:
                ck.bad(rule, mod, W, q, 'wrap of the negative angles by +%g without a clamp of the values that reach %g' % (P, P),
                       '`%s` adds the period to the negative entries in the array\'s own floating type: an entry in (-ulp/2, 0) - down to '
                       '-1.5e-5 for the float32 angles mdtraj returns - becomes exactly %g, outside [0, %g). No clamp / re-wrap of the '
                       'entries >= %g follows before `%s` is used (dihedral_angles does it: `angles[angles > 359.5] = 359.5`), so '
                       '_rotamers receives an angle that lies in no basin: the first frame keeps the marker -1, a later frame gets '
                       'basin index n_basins (np.digitize) and get_gates indexes past the boundaries (IndexError)' % (u(W), P, P, P, X))
    ck.floor(rule, n, 2, 'in-place wraps of negative angles in rotamer.py')


# ---------------------------------------------------------------------------
# D1 (drivers): one dihedral = one column = one run of the state machine

_FULL = lambda sl: isinstance(sl, ast.Slice) and sl.lower is None and sl.upper is None and sl.step is None
_ALLOCS = ('np.zeros', 'np.empty', 'np.ones', 'np.full', 'numpy.zeros', 'numpy.empty', 'numpy.ones', 'numpy.full')


def _series_axis(e, i):
    """(array name, axis) when `e` selects, with the loop index `i`, the
    whole 1-D section number i of a 2-D array along `axis` (1: column
    `X[:, i]`, `X[..., i]`, `X.T[i]`; 0: row `X[i]`, `X[i, :]`, `X.T[:, i]`);
    None for any other shape of expression."""
    if not isinstance(e, ast.Subscript):
        return None
    base, flip = e.value, 0
    if isinstance(base, ast.Attribute) and base.attr == 'T':
        base, flip = base.value, 1
    if not isinstance(base, ast.Name):
        return None
    is_i = lambda x: isinstance(x, ast.Name) and x.id == i
    sl = e.slice
    if is_i(sl):
        return base.id, 0 ^ flip
    if isinstance(sl, ast.Tuple) and len(sl.elts) == 2:
        a, b = sl.elts
        if is_i(a) and _FULL(b):
            return base.id, 0 ^ flip
        if is_i(b) and (_FULL(a) or (isinstance(a, ast.Constant) and a.value is Ellipsis)):
            return base.id, 1 ^ flip
    return None


def _extent(fi, e, at, depth=4):
    """(array name, axis, statement that reads the shape) when `e` (read at statement `at`) is the extent of
    an array along an axis: `A.shape[k]`, `len(A)`, or a name bound by
    `n = <that>` / `.., n, .. = A.shape`."""
    if isinstance(e, ast.Subscript) and isinstance(e.value, ast.Attribute) and e.value.attr == 'shape' \
            and isinstance(e.value.value, ast.Name) and type(const_value(e.slice)) is int:
        return e.value.value.id, const_value(e.slice), at
    if isinstance(e, ast.Call) and call_name(e) == 'len' and len(e.args) == 1 and isinstance(e.args[0], ast.Name):
        return e.args[0].id, 0, at
    if isinstance(e, ast.Name) and depth > 0:
        defs = fi.rd.defs_at(at, e.id)
        if len(defs) != 1:
            return None
        site = next(iter(defs))
        if not isinstance(site, ast.Assign) or len(site.targets) != 1:
            return None
        t, v = site.targets[0], site.value
        if isinstance(t, ast.Name):
            return _extent(fi, v, site, depth - 1)
        if isinstance(t, (ast.Tuple, ast.List)) and isinstance(v, ast.Attribute) and v.attr == 'shape' and isinstance(v.value, ast.Name):
            ks = [k for k, x in enumerate(t.elts) if isinstance(x, ast.Name) and x.id == e.id]
            if len(ks) == 1 and not any(isinstance(x, ast.Starred) for x in t.elts):
                return v.value.id, ks[0], site
    return None


def _same_shape(fi, a, b, at):
    """Array names `a` and `b` (read at statement `at`) have the same shape
    for sure: the same name, or one is bound once to an elementwise
    arithmetic expression of the other and numbers."""
    if a == b:
        return True
    for x, y in ((a, b), (b, a)):
        defs = [d for d in fi.rd.defs_at(at, x) if not isinstance(d, str)]
        if len(defs) == 1 and isinstance(defs[0], ast.Assign):
            v = fi.def_value(defs[0], x)
            if v is not None and names_loaded(v) == {y} and all(
                    isinstance(n, (ast.BinOp, ast.UnaryOp, ast.Name, ast.Constant, ast.operator, ast.unaryop, ast.expr_context)) for n in ast.walk(v)):
                return True
    return False


def _oriented(fi, X, at, seen=None, mixed=None):
    """The array `X` read at `at` is (n_frames, n_dihedrals) for sure: every
    reaching definition is the first result of dihedral_angles, an append of
    such arrays along axis 1, or elementwise arithmetic of such an array."""
    seen = seen if seen is not None else set()
    defs = fi.rd.defs_at(at, X)
    if not defs:
        return False
    result = True
    for d in defs:
        if (id(d), X) in seen:
            continue
        seen.add((id(d), X))
        if isinstance(d, str) or not isinstance(d, ast.Assign) or len(d.targets) != 1:
            return False
        t, v = d.targets[0], d.value
        if isinstance(t, (ast.Tuple, ast.List)):
            if not (isinstance(v, ast.Call) and call_name(v) == 'dihedral_angles' and isinstance(t.elts[0], ast.Name) and t.elts[0].id == X):
                return False
            continue
        if not (isinstance(t, ast.Name) and t.id == X):
            return False
        if isinstance(v, ast.Call) and call_name(v) in ('np.append', 'np.concatenate', 'np.hstack'):
            parts = v.args[0].elts if call_name(v) != 'np.append' and v.args and isinstance(v.args[0], (ast.Tuple, ast.List)) else v.args[:2] if call_name(v) == 'np.append' else None
            axis = 1 if call_name(v) == 'np.hstack' else const_value(kwarg(v, 'axis')) if kwarg(v, 'axis') is not None else None
            laid = bool(parts) and all(isinstance(x, ast.Name) and _oriented(fi, x.id, d, seen, mixed) for x in parts)
            if laid and axis == 0 and mixed is not None and call_name(v) in ('np.append', 'np.concatenate'):
                mixed.append(d)             # (n_frames, a) and (n_frames, b) glued along the FRAME axis
            if not laid or axis != 1:
                result = False
            continue
        if names_loaded(v) and all(isinstance(n, (ast.BinOp, ast.UnaryOp, ast.Name, ast.Constant, ast.operator, ast.unaryop, ast.expr_context)) for n in ast.walk(v)) \
                and all(_oriented(fi, y, d, seen, mixed) for y in names_loaded(v)):
            continue
        return False
    return result


def _wrapped_arrays(fn):
    """Names of the arrays a function brings into [0, P) in place (`X[mask] += P`)."""
    out = set()
    for W in walk_local(fn):
        if isinstance(W, ast.AugAssign) and isinstance(W.op, ast.Add) and isinstance(W.target, ast.Subscript) \
                and isinstance(W.target.value, ast.Name) and (_num(W.value) or 0) > 0:
            out.add(W.target.value.id)
    return out


def _first_result(fn):
    """The expression every `return` hands back as (first element of) the result; None if they differ."""
    vals = []
    for r in returns_of(fn):
        v = r.value
        if isinstance(v, ast.Tuple) and v.elts:
            v = v.elts[0]
        vals.append(v)
    if not vals or any(v is None for v in vals) or len({u(v) for v in vals}) != 1:
        return None
    return vals[0]


def _result_layout(fi, R, at, X):
    """`R` (stored into at `at`) was allocated once with the shape
    (<extent of axis 0>, <extent of axis 1>) of an array shaped like `X`."""
    defs = fi.rd.defs_at(at, R)
    if len(defs) != 1 or not isinstance(next(iter(defs)), ast.Assign):
        return False
    d = next(iter(defs))
    v = fi.def_value(d, R)
    if not (isinstance(v, ast.Call) and call_name(v) in _ALLOCS and v.args and isinstance(v.args[0], ast.Tuple) and len(v.args[0].elts) == 2):
        return False
    es = [_extent(fi, x, d) for x in v.args[0].elts]
    return all(e is not None and e[1] == k and _same_shape(fi, e[0], X, d) for k, e in enumerate(es))


def d1_drivers(ck, mod):
    """The wrappers (phi/psi/chi_rotamers) run the state machine once per
    dihedral: the angles are an (n_frames, n_dihedrals) array, the history of
    dihedral i is COLUMN i, and its states are column i of the result.
    Necessary conditions, per call of _rotamers in a module-level function:
    the first argument is the whole column i of an array X, i being the index
    of the enclosing loop, which runs over range(<extent of axis 1 of an array
    of X's shape>); the value of the call is stored into the whole column i
    of the array that is the function's (first) result; the buffer argument is
    the wrapper's own parameter; if the wrapper brings an array derived from X
    into [0, 360) in place, it is that array - not the raw X - that the
    machine must see.  A function that fetches dihedral angles but never
    reaches _rotamers returns something else than states."""
    rule = 'C20.D1.drivers'
    machine = mod.func('_rotamers')
    sig = params(machine)
    if len(sig) < 3:
        return
    p_ang, _p_hb, p_bw = sig[:3]
    n_calls = 0
    for q, fn in mod.functions.items():
        if '.' in q or fn is machine:
            continue
        calls = [c for c in calls_in(fn) if call_name(c) == '_rotamers']
        fetches = [c for c in calls_in(fn) if call_name(c) == 'dihedral_angles']
        if not calls:
            if fetches and not any(call_name(c) in mod.functions and call_name(c) not in ('dihedral_angles',) and
                                   any(call_name(k) == '_rotamers' for g in callees_closure(mod, mod.functions[call_name(c)]) for k in calls_in(g))
                                   for c in calls_in(fn)):
                ck.analysed(mod, fn)
                fi = finfo(mod, fn)
                res = _first_result(fn)
                alloc = None
                if isinstance(res, ast.Name):
                    defs = {d for r in returns_of(fn) for d in fi.rd.defs_at(r, res.id)}
                    if len(defs) == 1 and isinstance(next(iter(defs)), ast.Assign):
                        v = fi.def_value(next(iter(defs)), res.id)
                        untouched = not subscript_stores(fn, res.id) and not fi._mutated_in_place(res.id) and not any(
                            res.id in names_loaded(a) for c in calls_in(fn) for a in list(c.args) + [k.value for k in c.keywords])
                        if isinstance(v, ast.Call) and call_name(v) in _ALLOCS and untouched:
                            alloc = next(iter(defs))
                if alloc is not None:
                    ck.bad(rule + '.states', mod, alloc, q, 'result of %s: %s' % (q, u(alloc)),
                           '%s fetches dihedral angles but never calls _rotamers, and the array it returns is the untouched allocation `%s`: '
                           'every frame of every dihedral reports the fill value instead of the state of the hysteresis machine' % (q, u(alloc)))
                # any other function that merely fetches angles (a helper that gathers them) is not a wrapper;
                # a wrapper that lost its call shows up in the floor below
            continue
        ck.analysed(mod, fn)
        fi = finfo(mod, fn)
        wrapped = _wrapped_arrays(fn)
        res = _first_result(fn)
        for c in calls:
            n_calls += 1
            b = bind_args(c, sig)
            loop = _enclosing_loop(mod, c, fn)
            # `for i in <range>` or `for i, section in enumerate(X.T / X)` (section i of X, by construction all of them)
            i = el = whole = None
            if isinstance(loop, ast.For) and isinstance(loop.target, ast.Name):
                i = loop.target.id
            elif isinstance(loop, ast.For) and isinstance(loop.target, ast.Tuple) and len(loop.target.elts) == 2 \
                    and all(isinstance(x, ast.Name) for x in loop.target.elts) and isinstance(loop.iter, ast.Call) \
                    and call_name(loop.iter) == 'enumerate' and len(loop.iter.args) == 1 and not loop.iter.keywords:
                src = fi.expand(loop.iter.args[0])
                flip = isinstance(src, ast.Attribute) and src.attr == 'T'
                src = src.value if flip else src
                if isinstance(src, ast.Name) and not assigns_to(loop, src.id) and not assigns_to(loop, loop.target.elts[1].id):
                    i, el, whole = loop.target.elts[0].id, loop.target.elts[1].id, (src.id, 1 if flip else 0)
            if b is None or p_ang not in b or i is None or assigns_to(loop, i):
                ck.missing(rule + '.series', 'call `%s` in %s: not inside a `for <dihedral> in ...` loop / arguments not bound' % (u(c)[:80], q))
                continue
            at = fi.stmt(c)
            # --- the history handed to the machine
            arg = value_preserving(fi.expand(b[p_ang]))
            sa = whole if (isinstance(arg, ast.Name) and arg.id == el) else _series_axis(arg, i)
            con = '%s  [%s = %s]' % (u(c)[:120], p_ang, u(arg))
            if sa is None:
                ck.missing(rule + '.series', 'angle argument of `%s` in %s is not section %s of a 2-D array' % (u(c)[:80], q, i))
                continue
            X, ax = sa
            mixed = []
            known = _oriented(fi, X, at, None, mixed)
            for d in mixed:
                ck.bad(rule + '.series', mod, d, q, u(d)[:160],
                       'the arrays joined here are both (n_frames, n_dihedrals) angle arrays of dihedral_angles: joined along axis 0 the angles of OTHER '
                       'dihedrals are appended to each history as if they were later frames (or the call fails when the numbers of dihedrals differ); '
                       'further dihedrals are further COLUMNS (axis=1) of the array whose columns go to _rotamers')
            if ax != 1 and not known:
                ck.missing(rule + '.series', 'angle argument `%s` of the call in %s: the layout of %s is not known to be (n_frames, n_dihedrals)' % (u(arg), q, X))
                continue
            ck.check(ax == 1, rule + '.series', mod, c, q, con, 'the history of dihedral %s is column %s of %s' % (i, i, X),
                     'the angles are an (n_frames, n_dihedrals) array: the history of dihedral %s is the column %s[:, %s]; `%s` is ROW %s - the '
                     'angles of all dihedrals in frame %s - so the state machine runs over a sequence that is not a time series' % (i, X, i, u(arg), i, i))
            # --- the loop visits every dihedral
            it = fi.expand(loop.iter)
            ext = (whole[0], whole[1], at) if whole is not None else None
            if ext is None and isinstance(it, ast.Call) and call_name(it) in ('range', 'np.arange') and not it.keywords and (
                    len(it.args) == 1 or (len(it.args) == 2 and const_value(it.args[0]) == 0)):
                ext = _extent(fi, it.args[-1], loop)
            if ext is None:
                ck.missing(rule + '.every-dihedral', 'bound of the dihedral loop `for %s in %s` in %s not recognised as the extent of an array axis' % (i, u(loop.iter)[:60], q))
            elif not _same_shape(fi, ext[0], X, at) or fi.rd.defs_at(ext[2], ext[0]) != fi.rd.defs_at(at, ext[0]):
                ck.missing(rule + '.every-dihedral', 'the dihedral loop of %s runs over an axis of %s, whose shape is not known to be that of %s' % (q, ext[0], X))
            else:
                if ext[1] != 1 and not known:
                    ck.missing(rule + '.every-dihedral', 'dihedral loop of %s: the layout of %s is not known to be (n_frames, n_dihedrals)' % (q, X))
                    continue
                ck.check(ext[1] == 1, rule + '.every-dihedral', mod, loop, q, 'for %s in %s  [= range(%s.shape[%d])]' % (i, u(loop.iter), ext[0], ext[1]),
                         'one run of the machine per column', 'the dihedrals are the COLUMNS of %s: the loop must run over range(%s.shape[1]), not over the number of frames' % (X, X))
            # --- the machine sees the angles that were brought into [0, 360)
            if wrapped and X not in wrapped:
                src = [w for w in wrapped if _same_shape(fi, w, X, at) and w != X]
                if src:
                    ck.bad(rule + '.series', mod, c, q, con,
                           '%s brings `%s` (derived from %s) into [0, 360) but hands the raw `%s` to the state machine: the shifted / wrapped angles never '
                           'reach _rotamers, whose boundaries are those of the shifted scale' % (q, src[0], X, X))
            # --- the states go to column i of the result
            sts = [s_ for s_, _t in subscript_stores(loop) if isinstance(s_, ast.Assign) and len(s_.targets) == 1
                   and isinstance(s_.targets[0], ast.Subscript) and value_call(fi, s_.value, '_rotamers') is c]
            st = sts[0] if len(sts) == 1 else None
            if st is None:
                ck.missing(rule + '.store', 'the value of `%s` in %s is not stored directly into a section of an array' % (u(c)[:80], q))
            else:
                ta = _series_axis(st.targets[0], i)
                if ta is None:
                    ck.missing(rule + '.store', 'store target `%s` in %s is not section %s of a 2-D array' % (u(st.targets[0]), q, i))
                else:
                    R, rax = ta
                    if rax != 1 and not (known and _result_layout(fi, R, st, X)):
                        ck.missing(rule + '.store', 'store `%s` in %s: the layout of %s is not known to be that of the angle array' % (u(st.targets[0]), q, R))
                        continue
                    ck.check(rax == 1, rule + '.store', mod, st, q, u(st)[:160], 'the states of dihedral %s become column %s of %s' % (i, i, R),
                             'the states of dihedral %s must become the column %s[:, %s] of the (n_frames, n_dihedrals) result; `%s` is row %s' % (
                                 i, R, i, u(st.targets[0]), i))
                    if not (isinstance(res, ast.Name) and res.id == R and not assigns_to(loop, R)):
                        ck.missing(rule + '.store', 'the array %s that receives the states in %s is not what the function returns first' % (R, q))
                    else:
                        ck.ok(rule + '.store', mod, st, 'return %s' % R, 'the array of states is the first result of %s' % q)
            # --- the buffer the caller asked for
            if p_bw in b:
                try:
                    xb = value_preserving(entry_expand(fi, b[p_bw], at, stop=(i,)))
                except Unresolved:
                    xb = None
                if isinstance(xb, ast.Name) and xb.id in params(fn):
                    ck.ok(rule + '.buffer', mod, c, '%s = %s' % (p_bw, u(b[p_bw])), 'the wrapper passes its own buffer parameter on')
                else:
                    ck.missing(rule + '.buffer', 'buffer argument `%s` of the call in %s is not a parameter of the wrapper at its entry value' % (u(b[p_bw])[:60], q))
            else:
                ck.missing(rule + '.buffer', 'the call `%s` in %s leaves the buffer to the default of _rotamers' % (u(c)[:80], q))
    ck.floor(rule + '.series', n_calls, 3, 'calls of _rotamers in the wrappers (phi, psi, chi)')


def d1_angle_source(ck, mod):
    """dihedral_angles answers a request for a dihedral type it knows with the
    pair the wrappers unpack.  The types the wrappers ask for are string
    literals; a membership test of the type parameter in a literal list is
    folded for each of them (a finite domain), which tells which `return` the
    request reaches: it must be a tuple of as many elements as the caller
    unpacks, none of them the constant None (the reject value)."""
    rule = 'C20.D1.drivers.angle-source'
    if 'dihedral_angles' not in mod.functions:
        return
    src = mod.functions['dihedral_angles']
    sp = params(src)
    if len(sp) != 2:
        return
    sfi = finfo(mod, src)
    rets = returns_of(src)
    n = 0
    for q, fn in mod.functions.items():
        if '.' in q or fn is src:
            continue
        for c in calls_in(fn):
            if call_name(c) != 'dihedral_angles':
                continue
            b = bind_args(c, sp)
            t = const_value(b[sp[1]]) if b and sp[1] in b else None
            st = mod.enclosing_stmt(c)
            want = len(st.targets[0].elts) if isinstance(st, ast.Assign) and st.value is c and len(st.targets) == 1 \
                and isinstance(st.targets[0], (ast.Tuple, ast.List)) else None
            if not isinstance(t, str) or want is None:
                continue
            reached, unknown = [], False
            for r in rets:
                atoms = guard_atoms(sfi, r)
                if atoms is None:
                    unknown = True
                    continue
                verdict = True
                for a in atoms:
                    val = None
                    if isinstance(a, Cmp) and a.op in (ast.In, ast.NotIn) and isinstance(a.lhs, ast.Name) and a.lhs.id == sp[1] \
                            and sfi.defs_of_use(a.lhs) == {'PARAM'}:
                        lst = sfi.expand(a.rhs)
                        if isinstance(lst, (ast.List, ast.Tuple, ast.Set)) and all(isinstance(const_value(x), str) for x in lst.elts):
                            val = (t in [const_value(x) for x in lst.elts]) == (a.op is ast.In)
                    if val is False:
                        verdict = False
                        break
                    if val is None:
                        verdict = None
                if verdict is True:
                    reached.append(r)
                elif verdict is None:
                    unknown = True
            if unknown or len(reached) != 1:
                continue
            r = reached[0]
            n += 1
            ck.analysed(mod, src)
            v = r.value
            good = isinstance(v, ast.Tuple) and len(v.elts) == want and not any(isinstance(x, ast.Constant) and x.value is None for x in v.elts)
            if good:
                ck.ok(rule, mod, r, "dihedral_angles(.., '%s') -> %s" % (t, u(r)), 'the request of %s reaches the return of the angle pair' % q)
            elif isinstance(v, ast.Tuple) and (len(v.elts) != want or all(isinstance(x, ast.Constant) and x.value is None for x in v.elts)):
                ck.bad(rule, mod, r, 'dihedral_angles', "return reached for dihedral_type = '%s'" % t,
                       "%s asks dihedral_angles for '%s' and unpacks %d values, but for that type the membership test sends the call to `%s` "
                       '(the reject value): no angles reach the state machine for a dihedral type the library itself requests' % (q, t, want, u(r)))
    return n


# ---------------------------------------------------------------------------
# D5: the functions of the state machine are functions of their arguments

_MUTABLE_CTORS = ('dict', 'list', 'set', 'bytearray', 'defaultdict', 'OrderedDict', 'deque', 'Counter',
                  'collections.defaultdict', 'collections.OrderedDict', 'collections.deque', 'collections.Counter')
_FAITHFUL = ('tuple', 'list', 'bytes', 'frozenset', 'float', 'str', 'repr')


def _module_bound(mod):
    """Names bound at module level (assignments, defs, classes; not imports)."""
    out = set()
    stack = list(mod.tree.body)
    while stack:
        n = stack.pop()
        if isinstance(n, (ast.FunctionDef, ast.AsyncFunctionDef, ast.ClassDef)):
            out.add(n.name)
        elif isinstance(n, ast.Assign):
            for t in n.targets:
                out.update(target_names(t))
        elif isinstance(n, (ast.AnnAssign, ast.AugAssign)):
            out.update(target_names(n.target))
        elif isinstance(n, (ast.If, ast.Try, ast.With, ast.For, ast.While)):
            for f in ('body', 'orelse', 'finalbody'):
                stack += getattr(n, f, [])
            for h in getattr(n, 'handlers', []):
                stack += h.body
    return out


def _fn_locals(fn):
    """(local names, names declared global) of a function."""
    glob = {x for n in walk_local(fn) if isinstance(n, (ast.Global, ast.Nonlocal)) for x in n.names}
    loc = set(params(fn))
    for n in walk_local(fn):
        if isinstance(n, ast.Name) and isinstance(n.ctx, (ast.Store, ast.Del)):
            loc.add(n.id)
        elif isinstance(n, (ast.FunctionDef, ast.AsyncFunctionDef, ast.ClassDef)) and n is not fn:
            loc.add(n.name)
        elif isinstance(n, (ast.Import, ast.ImportFrom)):
            loc.update((a.asname or a.name).split('.')[0] for a in n.names)
    return loc - glob, glob


def runtime_writes(mod):
    """{module-level name: [(function qual, statement)]}: the module-level
    objects that some function of the module rebinds (`global G`; G = ...) or
    mutates in place (G[k] = v, G.attr = v, G.append(..), out=G) - i.e. state
    that persists from one call to the next."""
    from ..normal import _mutated_names
    bound = _module_bound(mod)
    out = {}
    for q, f in mod.functions.items():
        loc, glob = _fn_locals(f)
        for st in walk_local(f):
            if not isinstance(st, ast.stmt) or isinstance(st, (ast.FunctionDef, ast.AsyncFunctionDef, ast.ClassDef)):
                continue
            hdr = ast.Expr(value=ast.Tuple(elts=[e for e in header_exprs(st)], ctx=ast.Load())) if not isinstance(
                st, (ast.Assign, ast.AugAssign, ast.AnnAssign, ast.Delete)) else st
            if isinstance(st, (ast.For, ast.With, ast.AsyncFor, ast.AsyncWith)):
                continue            # their headers bind names only; the body statements are visited on their own
            for _i, nm, kind in _mutated_names([hdr], kinds=True):
                if nm not in bound:
                    continue
                if (kind == 'rebind' and nm in glob) or (kind != 'rebind' and nm not in loc):
                    out.setdefault(nm, []).append((q, st))
    return out


def _mutable_default_params(fn):
    """Parameters whose default is a mutable object created once, at
    definition time (`def f(x, _memo={})`): state shared by all calls."""
    from ..core import param_default
    out = []
    for p_ in params(fn):
        d = param_default(fn, p_)
        if isinstance(d, (ast.Dict, ast.List, ast.Set, ast.ListComp, ast.DictComp, ast.SetComp)) or (
                isinstance(d, ast.Call) and (call_name(d) or '') in _MUTABLE_CTORS):
            out.append(p_)
    return out


def callees_closure(mod, fn):
    """`fn` and the module-level functions of `mod` it calls, transitively."""
    out, work = [fn], [fn]
    while work:
        f = work.pop()
        for c in calls_in(f):
            g = mod.functions.get(c.func.id) if isinstance(c.func, ast.Name) else None
            if g is not None and g not in out:
                out.append(g)
                work.append(g)
    return out


class _Memo:
    """The uses of a persistent container G inside one function, read as a
    memo table: lookups (`k in G`, `G[k]`, `G.get(k)`) and fills (`G[k] = v`)."""

    def __init__(self):
        self.lookups = []       # (node, key expr, statement)
        self.fills = []         # (statement, key expr, value expr)
        self.other = []         # uses that are neither


def memo_uses(mod, fi, G):
    m = _Memo()
    for n in walk_local(fi.fn):
        if not (isinstance(n, ast.Name) and n.id == G):
            continue
        par = mod.parent.get(n)
        st = fi.stmt(n)
        if isinstance(par, ast.Subscript) and par.value is n:
            if isinstance(par.ctx, ast.Load):
                m.lookups.append((par, par.slice, st))
            elif isinstance(par.ctx, ast.Store) and isinstance(st, ast.Assign) and len(st.targets) == 1 and st.targets[0] is par:
                m.fills.append((st, par.slice, st.value))
            else:
                m.other.append(n)
        elif isinstance(par, ast.Compare) and len(par.ops) == 1 and isinstance(par.ops[0], (ast.In, ast.NotIn)) and par.comparators[0] is n:
            m.lookups.append((par, par.left, st))
        elif isinstance(par, ast.Attribute) and par.attr == 'get' and isinstance(mod.parent.get(par), ast.Call) \
                and mod.parent.get(par).func is par and mod.parent.get(par).args and not mod.parent.get(par).keywords:
            m.lookups.append((mod.parent.get(par), mod.parent.get(par).args[0], st))
        elif isinstance(n.ctx, ast.Load) and isinstance(par, ast.Call) and call_name(par) == 'len':
            continue            # the size of the table: not a value stored in it (feeds nothing the rules look at)
        else:
            m.other.append(n)
    return m


def depends_on(fi, expr, at, covered=None, control=True):
    """Backward slice over reaching definitions: the parameters (at their
    entry values) that the value of `expr`, evaluated at statement `at`, is
    computed from - through assignments, augmented assignments, in-place
    stores into the objects involved and (control=True) the branch conditions
    under which each definition executes.  `covered(name node, statement)`
    cuts the slice at values the caller already accounts for."""
    out, seen = set(), set()

    def use(n, at):
        if covered is not None and covered(n, at):
            return
        sites = set(fi.rd.defs_at(at, n.id))
        for ms in fi._mutated_in_place(n.id):
            if fi.cfg.reachable(ms, at):
                sites.add(ms)
        for d in sites:
            if d == 'PARAM':
                out.add(n.id)
            elif isinstance(d, str) or (id(d), n.id) in seen:
                continue
            else:
                seen.add((id(d), n.id))
                site(d, n.id)

    def site(d, name):
        v = fi.def_value(d, name) if isinstance(d, (ast.Assign, ast.AnnAssign)) else None
        reads = [x for x in walk_expr(v) if isinstance(x, ast.Name) and isinstance(x.ctx, ast.Load)] if v is not None else header_uses(d)
        for x in reads:
            use(x, d)
        if control:
            for a in governing(fi, d):
                for x in walk_expr(a.test):
                    if isinstance(x, ast.Name) and isinstance(x.ctx, ast.Load):
                        use(x, a.owner)

    for x in walk_expr(expr):
        if isinstance(x, ast.Name) and isinstance(x.ctx, ast.Load):
            use(x, at)
    if control and at is not None:
        for a in governing(fi, at):
            for x in walk_expr(a.test):
                if isinstance(x, ast.Name) and isinstance(x.ctx, ast.Load):
                    use(x, a.owner)
    return out


def _key_components(key):
    """The expressions whose values make up a memo key; a component wrapped in
    a value-faithful conversion (tuple(x), float(x), x.tobytes()) also stands
    for the wrapped expression."""
    comps = list(key.elts) if isinstance(key, ast.Tuple) else [key]
    out = []
    for c in comps:
        out.append(c)
        while True:
            if isinstance(c, ast.Call) and (call_name(c) or '') in _FAITHFUL and len(c.args) == 1 and not c.keywords:
                c = c.args[0]
            elif isinstance(c, ast.Call) and isinstance(c.func, ast.Attribute) and c.func.attr in ('tobytes', 'tolist', 'copy') and not c.args and not c.keywords:
                c = c.func.value
            else:
                break
            out.append(c)
    return out


def d5_hidden_state(ck, entries):
    """A hysteresis machine is a function of the angle history, the
    boundaries and the buffer it is GIVEN.  A function on the path
    _rotamers -> is_buffered_transition -> get_gates (and transitions) that
    reads an object which persists between calls and is written at run time -
    a module-level container, a `global`, a mutable default argument - returns
    what an earlier call left there.  The one benign use is a memo table
    whose key determines the stored value: every parameter the stored value
    is computed from (backward slice over reaching definitions, including
    branch conditions) must enter the key, either itself / through a
    value-faithful conversion (tuple(x)), or through exactly the expression
    the value is computed from (int(state)).  A parameter the value depends
    on that the key does not mention at all makes the table return the
    result of a call with OTHER arguments: violation.  Any other use of
    run-time state is not understood: incomplete.
    Returns {function node: {'hits': return statements that hand out a verified memo entry, 'fills': [(store, value)]}}."""
    rule = 'C20.D5.no-hidden-state'
    verified = {}
    n = 0
    for rel, root in entries:
        mod = ck.repo.mod(rel)
        writes = runtime_writes(mod)
        for fn in callees_closure(mod, mod.func(root)):
            q = mod.qualname(fn)
            n += 1
            ck.analysed(mod, fn)
            fi = finfo(mod, fn)
            loc, glob = _fn_locals(fn)
            state = []
            for G in sorted(writes):
                if G in loc:
                    continue
                if any(isinstance(x, ast.Name) and x.id == G for x in walk_local(fn)):
                    state.append((G, 'the module-level object `%s`' % G, writes[G]))
            for p_ in _mutable_default_params(fn):
                if fi._mutated_in_place(p_):
                    state.append((p_, 'the mutable default of parameter `%s`' % p_, [(q, ms) for ms in fi._mutated_in_place(p_)]))
            if not state:
                ck.ok(rule, mod, fn, q, 'reads no object that persists between calls and is written at run time: the result is a function of the arguments')
                continue
            for G, what, ws in state:
                where = ', '.join(sorted({'%s at %s' % (wq, mod.loc(wst)) for wq, wst in ws}))[:160]
                m = memo_uses(mod, fi, G)
                foreign = [w for w in ws if w[0] != q]
                unrec = [w for w in ws if w[0] == q and w[1] not in [f[0] for f in m.fills]]
                if m.other or foreign or unrec or not m.fills or not m.lookups:
                    ck.missing(rule, '%s reads or writes %s, which persists between calls and is written at run time (%s); '
                               'the use is not a memo table filled and read by this function alone, so the result may depend on the call history' % (q, what, where))
                    continue
                key_st, key0, _v = m.fills[0]
                texts = {u(canon(c)) for c in _key_components(fi.expand(key0))}

                def same_key(k, st):
                    if fi.xu(k) != fi.xu(key0):
                        return False
                    return all(fi.rd.defs_at(st, x) == fi.rd.defs_at(key_st, x) for x in names_loaded(fi.expand(k)))
                if not all(same_key(k, st) for _n, k, st in m.lookups) or not all(same_key(k, st) for st, k, _v2 in m.fills):
                    ck.missing(rule, '%s uses %s as a table with several different keys (%s)' % (
                        q, what, ' / '.join(sorted({fi.xu(k) for _n, k, _s in m.lookups} | {fi.xu(k) for _s, k, _v2 in m.fills}))[:160]))
                    continue

                def covered(nm, at):
                    if not isinstance(nm.ctx, ast.Load):
                        return False
                    t = fi.xu(nm)
                    if t not in texts:
                        return False
                    return all(fi.rd.defs_at(at, x) == fi.rd.defs_at(key_st, x) for x in names_loaded(fi.expand(nm)))
                key_params = depends_on(fi, key0, key_st, control=False)
                verdict = 'match'
                for st, _k, val in m.fills:
                    need = depends_on(fi, val, st, covered=covered) - {G}
                    absent = sorted(p_ for p_ in need if p_ not in key_params)
                    partial = sorted(p_ for p_ in need if p_ in key_params)
                    if absent:
                        verdict = 'near'
                        ck.bad(rule, mod, st, q, 'memo table %s keyed without %s' % (G, ', '.join(absent)),
                               '%s hands out entries of %s, filled by `%s` under the key %s. The stored value is computed from the parameter%s %s '
                               '(backward slice of `%s`), which the key does not contain: once the table holds an entry, a later call that differs only in %s '
                               'gets the value computed for the EARLIER arguments - the function is no longer a function of what it is given '
                               '(for the gates: the basin widened by the first buffer width used in the process, whatever buffer the caller passes; '
                               'a zero buffer is then not plain binning)' % (
                                   q, what, u(st)[:80], fi.xu(key0), 's' if len(absent) > 1 else '', ', '.join(absent), u(val)[:60], ', '.join(absent)))
                    elif partial and verdict == 'match':
                        verdict = 'far'
                        ck.missing(rule, '%s: the key %s of the memo table %s contains %s only inside an expression that need not determine it' % (
                            q, fi.xu(key0), G, ', '.join(partial)))
                if verdict == 'match':
                    ck.ok(rule, mod, m.fills[0][0], '%s: memo table %s[%s]' % (q, G, fi.xu(key0)),
                          'every argument the stored value is computed from enters the key: a stored entry equals what the call would compute')
                    hits = []
                    for r in returns_of(fn):
                        if r.value is None:
                            continue
                        x = fi.expand(r.value)
                        if isinstance(x, ast.Subscript) and isinstance(x.value, ast.Name) and x.value.id == G and same_key(r.value.slice if isinstance(
                                r.value, ast.Subscript) else x.slice, r):
                            hits.append(r)
                    verified[fn] = {'table': G, 'hits': hits, 'fills': [(st, val) for st, _k, val in m.fills]}
    ck.floor(rule, n, 4, 'functions of the state machine examined for persistent state')
    return verified


# ---------------------------------------------------------------------------
# D2

def _dimension(fi, site, a):
    """1 / 2: the dimensionality of the input under which `site` executes,
    from the governing `len(a.shape) == 1` / `a.ndim == 1` test; else None."""
    dims = (C('len(%s.shape)' % a), '%s.ndim' % a, C('np.ndim(%s)' % a))
    for c in guard_atoms(fi, site) or []:
        if not (isinstance(c, Cmp) and c.op in (ast.Eq, ast.NotEq)):
            continue
        l, r = fi.xu(c.lhs), fi.xu(c.rhs)
        if r in dims:
            l, r = r, l
        if l in dims and r in ('1', '2'):
            eq = c.op is ast.Eq
            return int(r) if eq else 3 - int(r)
    return None


def _mask_parts(m):
    """(difference expression, mask verdict) of the argument of where()."""
    if isinstance(m, ast.Compare) and len(m.ops) == 1:
        l, r = m.left, m.comparators[0]
        if type(const_value(r)) is int and const_value(r) == 0:
            return l, isinstance(m.ops[0], ast.NotEq)
        if type(const_value(l)) is int and const_value(l) == 0:
            return r, isinstance(m.ops[0], ast.NotEq)
        if isinstance(m.ops[0], ast.NotEq):
            return m, True              # a[1:] != a[:-1]
        return m, False
    return m, True                       # where(d): the non-zero entries themselves


def _unpacked_where(fi, d, name, a):
    """`x, = np.where(m)` / `r, c = np.where(m)`: where() of a k-dimensional
    mask yields exactly k index arrays, so under the dimensionality test that
    governs `d` an unpacking into k names equals indexing (`np.where(m)[j]`);
    with another number of names the statement raises - not recognised."""
    if not (isinstance(d, ast.Assign) and len(d.targets) == 1 and isinstance(d.targets[0], (ast.Tuple, ast.List))
            and all(isinstance(t, ast.Name) for t in d.targets[0].elts) and isinstance(d.value, ast.Call)
            and call_name(d.value) in ('np.where', 'np.nonzero') and len(d.value.args) == 1 and not d.value.keywords):
        return None
    names = [t.id for t in d.targets[0].elts]
    if names.count(name) != 1 or _dimension(fi, d, a) != len(names):
        return None
    sub = ast.Subscript(value=d.value, slice=ast.Constant(value=names.index(name)), ctx=ast.Load())
    return ast.copy_location(sub, d.value)


def _slice_difference(d, a):
    """`d` is built only from constant slices of `a`, one subtraction or
    (in)equality, or np.diff(a, <constants>): an expression of the family
    the first difference belongs to, so an unaccepted member (other offsets,
    the other axis, a second-order difference) IS a different function."""
    def const_slice(x):
        if isinstance(x, ast.Tuple):
            return all(const_slice(y) for y in x.elts)
        if isinstance(x, ast.Slice):
            return all(y is None or const_value(y) is not None or (isinstance(y, ast.Constant) and y.value is None) for y in (x.lower, x.upper, x.step))
        return type(const_value(x)) is int

    def piece(x):
        return isinstance(x, ast.Subscript) and isinstance(x.value, ast.Name) and x.value.id == a and const_slice(x.slice)
    if isinstance(d, ast.BinOp) and isinstance(d.op, ast.Sub):
        return piece(d.left) and piece(d.right)
    if isinstance(d, ast.Compare) and len(d.ops) == 1 and isinstance(d.ops[0], (ast.Eq, ast.NotEq)):
        return piece(d.left) and piece(d.comparators[0])
    if isinstance(d, ast.Call) and call_name(d) in ('np.diff', 'numpy.diff') and d.args and isinstance(d.args[0], ast.Name) and d.args[0].id == a:
        return all(const_value(x) is not None for x in d.args[1:]) and all(const_value(k.value) is not None for k in d.keywords)
    return False


def d2_transitions(ck):
    rule = 'C20.D2.transitions'
    F = 'transitions'
    mod = ck.repo.mod(DI)
    fn = mod.func(F)
    ck.analysed(mod, fn)
    fi = finfo(mod, fn)
    a = params(fn)[0]
    dforms = {
        1: ['%s[1:] - %s[:-1]' % (a, a), '%s[:-1] - %s[1:]' % (a, a), 'np.diff(%s)' % a, 'np.diff(%s, axis=0)' % a,
            '%s[1:] != %s[:-1]' % (a, a), '%s[:-1] != %s[1:]' % (a, a)],
        2: ['%s[:, 1:] - %s[:, :-1]' % (a, a), '%s[:, :-1] - %s[:, 1:]' % (a, a), 'np.diff(%s)' % a, 'np.diff(%s, axis=1)' % a,
            'np.diff(%s, axis=-1)' % a, '%s[:, 1:] != %s[:, :-1]' % (a, a), '%s[:, :-1] != %s[:, 1:]' % (a, a)],
    }

    # --- the result expressions and the branch they belong to
    results = []
    for r in returns_of(fn):
        if r.value is None:
            ck.missing(rule, 'bare return in transitions')
            continue
        if isinstance(r.value, ast.Name) and fi.temp_value(r.value) is None:
            for d in fi.defs_of_use(r.value):
                val = fi.def_value(d, r.value.id) if not isinstance(d, str) else None
                if val is None and not isinstance(d, str):
                    val = _unpacked_where(fi, d, r.value.id, a)
                if val is None:
                    ck.missing(rule, 'definition of the returned `%s` not recognised' % r.value.id)
                else:
                    results.append((d, val))
        else:
            results.append((r, r.value))
    seen = set()

    def difference(site, m, dim):
        """Decide the difference + mask inside where(m)."""
        d, mask_ok = _mask_parts(m)
        if isinstance(d, ast.Name):
            # not a temporary: built in place?  d = a[1:]; d -= a[:-1]
            src = [x for x in ast.walk(site) if isinstance(x, ast.Name) and x.id == d.id and isinstance(x.ctx, ast.Load)]
            defs = fi.defs_of_use(src[0]) if src else set()
            aug = next(iter(defs)) if len(defs) == 1 else None
            if isinstance(aug, ast.AugAssign) and isinstance(aug.target, ast.Name):
                prior = fi.rd.defs_at(aug, d.id)
                p = next(iter(prior)) if len(prior) == 1 else None
                pv = fi.def_value(p, d.id) if p is not None and not isinstance(p, str) else None
                if pv is not None:
                    pv = fi.expand(pv)
                    if base_name(pv) == a and isinstance(pv, (ast.Subscript, ast.Name)):
                        ck.bad(rule + '.difference', mod, aug, F, '%s; %s' % (u(p), u(aug)),
                               'the difference is formed IN PLACE in a view of the caller\'s array (%s is %s): the input assignments are '
                               'overwritten; it must be a fresh array %s' % (d.id, u(pv), dforms[dim][0]))
                    d = ast.BinOp(left=pv, op=aug.op, right=fi.expand(aug.value))
        v = classify(d, dforms[dim], scope={a})
        if v[0] == 'near' and not _slice_difference(d, a):
            # some other function of the input (np.not_equal(..), a cast, a roll): not shown to differ from the first difference
            v = ('far', 0, None)
        ck.decide(v, rule + '.difference', mod, site, F, u(canon(d)),
                  'first difference along the frame axis: frame n+1 against frame n (slice lemma, L = 1)',
                  'the difference must pair frame n with n+1 along the FRAME axis: a[1:] - a[:-1] (1-D) and a[:, 1:] - a[:, :-1] (2-D)')
        if v[0] == 'match':
            ck.check(mask_ok, rule + '.nonzero', mod, site, F, u(canon(m)), 'a transition is a non-zero difference', 'transitions are the positions where d != 0')
        return v[0] == 'match' and mask_ok

    for site, e in results:
        dim = _dimension(fi, site, a)
        if dim is None:
            ck.missing(rule, 'result `%s` at %s is not selected by a test of the input dimensionality' % (u(e)[:60], mod.loc(site)))
            continue
        seen.add(dim)
        ex = _pos(fi.expand(e))
        if dim == 1:
            if isinstance(ex, ast.Subscript) and isinstance(ex.value, ast.Call) and call_name(ex.value) in ('np.where', 'np.nonzero') \
                    and len(ex.value.args) == 1 and not ex.value.keywords:
                ok0 = type(const_value(ex.slice)) is int and const_value(ex.slice) == 0
                if difference(site, ex.value.args[0], 1):
                    ck.check(ok0, rule + '.nonzero', mod, site, F, u(ex), '1-D: frame indices', '1-D result must be np.where(d != 0)[0]')
            else:
                v = classify(ex, ['np.where(%s != 0)[0]' % dforms[1][0]], scope={a})
                if v[0] == 'near':
                    v = ('far', 0, None)        # another way of listing positions (argwhere, a comprehension): not shown to differ
                ck.decide(v, rule + '.nonzero', mod, site, F, u(ex)[:200], '1-D: frame indices', '1-D result must be np.where(d != 0)[0]')
            continue
        # 2-D: ragged array of the column indices grouped by per-row counts
        bnd = bind_args(ex, _SIGS['ra.RaggedArray']) if isinstance(ex, ast.Call) and call_name(ex) in ('ra.RaggedArray', 'RaggedArray') else None
        if bnd is None or 'array' not in bnd or 'lengths' not in bnd:
            v = ('far', 0, None)                # a ragged result built some other way: not understood
            ck.decide(v, rule + '.per-row', mod, site, F, u(ex)[:200], '', 'the 2-D result must be ra.RaggedArray(<columns>, lengths=<transitions per row>)')
            continue
        cols, lens = bnd['array'], bnd['lengths']
        def component(x):
            """(statement that evaluates where(<mask>), index of the component) that the expanded operand `x` denotes AT
            `site`, for the two spellings of "one half of the index tuple of where()":
              * a name bound by the unpacking `r, c = where(mask)` (the definition reaching `site` is that unpacking);
              * `t[k]` with a constant k where the only definition of `t` reaching `site` is `t = where(mask)` and the
                tuple is not touched in place.
            fi.expand only substitutes a temporary whose operands have the same reaching definitions at its definition and
            at its use, so every name left in the expanded result denotes its value at `site`."""
            def where_call(c):
                return isinstance(c, ast.Call) and call_name(c) in ('ra.where', 'np.where', 'np.nonzero') and len(c.args) == 1 and not c.keywords
            if isinstance(x, ast.Name):
                ds = fi.rd.defs_at(site, x.id)
                d = next(iter(ds)) if len(ds) == 1 else None
                if isinstance(d, ast.Assign) and len(d.targets) == 1 and isinstance(d.targets[0], ast.Tuple) and len(d.targets[0].elts) == 2 \
                        and all(isinstance(t, ast.Name) for t in d.targets[0].elts) and where_call(d.value):
                    names = [t.id for t in d.targets[0].elts]
                    if names.count(x.id) == 1:
                        return d, names.index(x.id)
                return None
            if isinstance(x, ast.Subscript) and isinstance(x.value, ast.Name) and type(const_value(x.slice)) is int \
                    and -2 <= const_value(x.slice) < 2:
                t = x.value.id
                ds = fi.rd.defs_at(site, t)
                d = next(iter(ds)) if len(ds) == 1 else None
                if isinstance(d, ast.Assign) and len(d.targets) == 1 and isinstance(d.targets[0], ast.Name) and d.targets[0].id == t \
                        and where_call(d.value) and not fi._mutated_in_place(t):
                    return d, const_value(x.slice) % 2
            return None
        cc = component(cols)
        if cc is None:
            # names hidden inside the expanded `lengths` keep their own use sites: look the unpacking up in the function
            cands = [s for s in walk_local(fn) if isinstance(s, ast.Assign) and len(s.targets) == 1 and isinstance(s.targets[0], ast.Tuple)
                     and isinstance(cols, ast.Name) and cols.id in target_names(s.targets[0]) and fi.cfg.dominates(s, site)]
            ck.missing(rule + '.per-row', 'the array given to RaggedArray (%s) is not one half of `rows, columns = where(<mask>)`%s' % (
                u(cols)[:60], '' if not cands else ' [%s]' % u(cands[0])[:80]))
            continue
        un = cc[0]
        if not fi.cfg.dominates(un, site):
            ck.missing(rule + '.per-row', '`%s` does not dominate the construction of the ragged result' % u(un)[:80])
            continue
        difference(un, fi.expand(un.value.args[0]), 2)
        ck.check(cc[1] == 1, rule + '.per-row', mod, site, F, u(ex)[:200], 'frame indices (columns) grouped by trajectory (rows)',
                 'the ragged result must hold the COLUMN indices (second component of where) grouped by the row counts')
        lb = bind_args(lens, _SIGS['np.bincount']) if isinstance(lens, ast.Call) and call_name(lens) == 'np.bincount' else None
        if lb is None or 'x' not in lb or 'weights' in lb:
            v = ('far', 0, None)                # per-row counts computed some other way ((mask).sum(axis=1), a loop): not understood
            ck.decide(v, rule + '.per-row', mod, site, F, u(lens)[:200], '', 'lengths must be the number of transitions of each row: np.bincount(rows, minlength=<rows>)')
            continue
        rc = component(lb['x'])
        if rc is None and not isinstance(lb['x'], ast.Name):
            # counts over an expression the rule cannot relate to the index tuple of where(): not shown to differ
            ck.missing(rule + '.per-row', 'the array counted by np.bincount (%s) is not one half of the index tuple of `%s`' % (
                u(lb['x'])[:60], u(un)[:80]))
            continue
        if rc is None and lb['x'].id in target_names(un.targets[0]):
            ck.missing(rule + '.per-row', '`%s` is rebound between `%s` and its use' % (lb['x'].id, u(un)[:80]))
            continue
        if rc is not None and rc[0] is not un:
            ck.missing(rule + '.per-row', 'np.bincount counts `%s`, a component of another evaluation of where() than `%s`' % (
                u(lb['x'])[:60], u(un)[:80]))
            continue
        ck.check(rc is not None and rc[1] == 0, rule + '.per-row', mod, site, F, 'np.bincount(%s, ...)' % u(lb['x']),
                 'transitions are counted per trajectory (row index)', 'the counts must be taken over the ROW indices (first component of where)')
        if 'minlength' not in lb:
            ck.bad(rule + '.per-row', mod, site, F, u(lens),
                   'np.bincount(rows) without minlength=<number of trajectories> is shorter than the input when the LAST rows have no '
                   'transition: trailing trajectories silently disappear from the result')
            continue
        nrows = ['%s.shape[0]' % a, 'len(%s)' % a] + ['(%s).shape[0]' % d for d in dforms[2]] + ['len(%s)' % d for d in dforms[2]]
        v = classify(lb['minlength'], nrows, scope={a})
        ml = canon(lb['minlength'])
        if v[0] == 'near' and not (const_value(ml) is not None or (isinstance(ml, ast.Call) and call_name(ml) == 'len') or (
                isinstance(ml, ast.Subscript) and isinstance(ml.value, ast.Attribute) and ml.value.attr == 'shape')):
            v = ('far', 0, None)                # not a length / shape entry / constant: not shown to be a different number
        ck.decide(v, rule + '.per-row', mod, site, F, u(lens)[:200], 'one length entry per input trajectory (minlength = number of rows)',
                  'minlength must be the number of trajectories (rows of the input)')
    for dim in (1, 2):
        if dim not in seen:
            ck.missing(rule, 'no result recognised for %d-D input' % dim)


def d2_empty_result(ck):
    """Added after the seeding rounds (DESIGN.md 11.2, G5).  `transitions`
    hands the column half of `where(mask)` - EMPTY when no trajectory has a
    transition - to RaggedArray together with explicit lengths.  The
    constructor must be able to build an array from empty data with given
    lengths: the constructor analysis (every slot stored before it is read,
    for every combination of branch conditions) is consulted for the
    combination {data empty, lengths given}."""
    from . import extra
    from ..report import Checker
    rule = 'C20.D2.transitions.empty-result'
    mod = ck.repo.mod(DI)
    fn = mod.func('transitions')
    calls = [c for c in calls_in(fn) if (call_name(c) or '').endswith('RaggedArray') and
             (kwarg(c, 'lengths') is not None or len(c.args) >= 2)]
    if not calls:
        ck.missing(rule, 'RaggedArray(<columns>, lengths=...) construction in transitions')
        return
    ram = ck.repo.mod('enspara/ra/ra.py')
    shadow = Checker(ck.pid, 'shadow', ck.repo, ck.seed)
    shadow.known = {}
    extra.attrs_definite_in_constructor(shadow, rule, ram, 'RaggedArray.__init__')
    hits = [v for v in shadow.violations if 'lengths is None is False' in v['detail'] and '0 < len(array) is False' in v['detail']]
    if shadow.incomplete:
        ck.missing(rule, '; '.join(shadow.incomplete)[:200])
        return
    for c in calls:
        if hits:
            ck.bad(rule, mod, c, 'transitions', 'RaggedArray(<columns of where(mask)>, lengths=<per-row counts>)',
                   'when no trajectory has a transition the data handed to RaggedArray are empty while lengths are given, and '
                   'RaggedArray.__init__ reads self._data on that path without ever storing it (%s): AttributeError instead of '
                   'a ragged array of empty rows' % hits[0]['site'])
        else:
            ck.ok(rule, mod, c, u(c)[:120], 'the constructor stores every slot before reading it also for empty data with given lengths')


def check(ck):
    mod = ck.repo.mod(RO)
    memo = d5_hidden_state(ck, [(RO, '_rotamers'), (DI, 'transitions')])
    d1_carried_state(ck, mod)
    comp = d3_composed(ck, mod, memo)
    d3_gates(ck, mod, memo, comp)
    d3_buffer_range(ck, mod, d3_exit_test(ck, mod, comp) or {})
    d1_wrapped_angles(ck, mod)
    d1_drivers(ck, mod)
    d1_angle_source(ck, mod)
    d2_transitions(ck)
    d2_empty_result(ck)
    check_no_arg_mutation(ck, 'C20.D4.inputs-unmodified', [(RO, '_rotamers'), (RO, 'get_gates'), (RO, 'is_buffered_transition'), (DI, 'transitions')])
    return EXPLANATION

"""C20 Rotamer hysteresis: carried state, first-frame binning, gate
construction shape, transition bookkeeping."""
import ast

from ..core import (AnalysisIncomplete, call_name, const_value, kwarg,
                    names_loaded, params, target_names, u, walk_expr,
                    walk_local)
from ..patterns import (Cmp, assigns_to, calls_in, check_no_arg_mutation,
                        conjuncts, finfo, returns_of, subscript_stores)
from ..match import C, CS

RO = 'enspara/geometry/rotamer.py'
DI = 'enspara/cards/disorder.py'

EXPLANATION = (
    'Static decision of the structural necessary conditions of the hysteresis '
    'state machine: (D1) in _rotamers the carried state is reassigned only '
    'inside the branch guarded by is_buffered_transition(cur_state, <angle of '
    'frame i>, hard_boundaries, buffer_width), the re-binning uses that same '
    'frame\'s angle and the same boundaries, rotamers[i] receives the carried '
    'state on every trip, frame 0 is binned by the hard boundaries (strict <) '
    'and the carried state starts from it; (D2) transitions are the slice '
    'lemma with L = 1 along the frame axis, != 0, with one length entry per '
    'input row (np.bincount with minlength); (D3) gate construction: the gates '
    'are the boundaries of the current basin looked up at [state] / '
    '[state + 1], the wrap-around swap tests the seam values of exactly those '
    'bounds (or the equivalent first/last basin index), the buffer is '
    'subtracted from the lower and added to the upper gate, and the exit test '
    'is inverted for the wrap-around basin.  The gate ARITHMETIC along each '
    'path (linear inequalities in the buffer width) is not decided: that '
    'needs a solver, a different technique family.')


def d1_carried_state(ck, mod):
    rule = 'C20.D1.carried-state'
    fn = mod.func('_rotamers')
    ck.analysed(mod, fn)
    fi = finfo(mod, fn)
    angles, hb, bw = params(fn)[:3]
    loops = [l for l in fn.body if isinstance(l, ast.For)]
    main = [l for l in loops if any(isinstance(c, ast.Call) and call_name(c) == 'is_buffered_transition' for c in walk_local(l))]
    if len(main) != 1:
        ck.missing(rule, 'frame loop calling is_buffered_transition')
        return
    loop = main[0]
    i = u(loop.target)
    ck.check(u(loop.iter) in ('range(1, n_frames)', 'range(1, len(%s))' % angles), rule + '.frames', mod, loop, '_rotamers', u(loop.iter),
             'frames 1..n-1 are processed in order', 'the state machine must visit frames 1 .. n_frames-1 in order')
    calls = [c for c in calls_in(loop) if call_name(c) == 'is_buffered_transition']
    c = calls[0]
    g = fi.stmt(c)
    okg = isinstance(g, ast.If) and g.test is c
    args = [a for a in c.args]
    ang = fi.resolve(args[1]) if len(args) > 1 and isinstance(args[1], ast.Name) else (args[1] if len(args) > 1 else None)
    ok = okg and len(args) == 4 and u(args[0]) == 'cur_state' and u(ang) == '%s[%s]' % (angles, i) and u(args[2]) == hb and u(args[3]) == bw
    ck.check(ok, rule + '.gate-call', mod, c, '_rotamers', '%s  [angle = %s]' % (u(c), u(ang)),
             'exit test sees the carried state, THIS frame\'s angle, the boundaries and the buffer',
             'the exit test must be is_buffered_transition(cur_state, angles[%s], hard_boundaries, buffer_width): using the '
             'previous angle or another state makes the machine react one frame late / to the wrong basin' % i)
    # state writes only in that branch
    writes = [s for s in walk_local(loop) if isinstance(s, (ast.Assign, ast.AugAssign)) and
              'cur_state' in target_names(s.targets[0] if isinstance(s, ast.Assign) else s.target)]
    inside = [s for s in writes if okg and any(x is s for y in g.body for x in ast.walk(y))]
    ck.check(len(writes) == 1 and len(inside) == 1, rule + '.only-on-exit', mod, writes[0] if writes else loop, '_rotamers',
             '; '.join(u(s) for s in writes), 'the state changes only when the buffered exit test fires',
             'cur_state must be reassigned exactly once per trip and only inside the is_buffered_transition branch '
             '(otherwise the buffer is ignored and the assignment is plain binning)')
    if inside:
        v = inside[0].value
        okv = isinstance(v, ast.BinOp) and isinstance(v.op, ast.Sub) and const_value(v.right) == 1 and isinstance(v.left, ast.Call) \
            and call_name(v.left) == 'np.digitize' and len(v.left.args) == 2 and u(v.left.args[1]) == hb
        a0 = v.left.args[0] if okv else None
        a0r = fi.resolve(a0) if isinstance(a0, ast.Name) else a0
        okv = okv and u(a0r) == '%s[%s]' % (angles, i)
        ck.check(okv, rule + '.rebin', mod, inside[0], '_rotamers', u(inside[0]),
                 'new state = basin containing the new angle (digitize against the same boundaries)',
                 'on exit the state must become np.digitize(angles[%s], hard_boundaries) - 1' % i)
    st = [(s, t) for s, t in subscript_stores(loop, 'rotamers')]
    ok = len(st) == 1 and u(st[0][1].slice) == i and u(st[0][0].value) == 'cur_state' and st[0][0] in loop.body
    ck.check(ok, rule + '.record', mod, st[0][0] if st else loop, '_rotamers', u(st[0][0]) if st else 'rotamers[i] = cur_state',
             'every frame records the carried state (unconditionally, after the possible update)',
             'rotamers[%s] = cur_state must execute on every trip' % i)
    if ok and okg:
        ck.check(loop.body.index(g) < loop.body.index(st[0][0]), rule + '.record', mod, st[0][0], '_rotamers', 'update before record',
                 'state is updated before it is recorded', 'the state must be updated before it is recorded for the frame')
    # first frame
    first = [l for l in loops if l is not loop]
    ok = False
    if first:
        fl = first[0]
        ifs = [n for n in fl.body if isinstance(n, ast.If)]
        if len(ifs) == 1:
            cs = conjuncts(ifs[0].test, True)
            less = cs[0].as_less() if cs and isinstance(cs[0], Cmp) else None
            b = u(fl.target)
            ok = less is not None and less[1] and u(less[0]) == '%s[0]' % angles and u(less[2]) == '%s[%s + 1]' % (hb, b) and \
                any(u(x) == 'rotamers[0] = %s' % b for x in ifs[0].body) and any(isinstance(x, ast.Break) for x in ifs[0].body) and \
                u(fl.iter) == 'range(n_basins)'
    ck.check(ok, rule + '.first-frame', mod, first[0] if first else fn, '_rotamers', u(first[0])[:160] if first else 'first frame',
             'frame 0 gets the first basin whose upper hard boundary exceeds its angle',
             'frame 0 must be binned by the hard boundaries: first basin i with angles[0] < hard_boundaries[i + 1]')
    init = [s for s in fn.body if isinstance(s, ast.Assign) and u(s.targets[0]) == 'cur_state']
    ok = len(init) == 1 and u(init[0].value) == 'rotamers[0]' and (not first or fn.body.index(first[0]) < fn.body.index(init[0]) < fn.body.index(loop))
    ck.check(ok, rule + '.first-frame', mod, init[0] if init else fn, '_rotamers', u(init[0]) if init else 'cur_state = rotamers[0]',
             'the carried state starts as the basin of frame 0', 'cur_state must be initialised to rotamers[0] after frame 0 was binned')
    # validation of inputs
    vs = [n for n in fn.body if isinstance(n, ast.If) and any(isinstance(x, ast.Raise) for x in n.body)]
    txt = ' || '.join(u(n.test) for n in vs)
    ck.check('%s[0] != 0' % hb in txt and '%s[-1] != 360' % hb in txt and '%s < 0' % bw in txt, rule + '.validation', mod, vs[0] if vs else fn, '_rotamers', txt[:200],
             'boundaries must span 0..360 and the buffer be in range', 'input validation of boundaries/buffer is missing')
    r = returns_of(fn)
    ck.check(len(r) == 1 and u(r[0].value) == 'rotamers', rule + '.record', mod, r[0] if r else fn, '_rotamers', u(r[0]) if r else '?', 'returns the recorded states', 'must return rotamers')


def d3_gates(ck, mod):
    rule = 'C20.D3.gates'
    fn = mod.func('get_gates')
    ck.analysed(mod, fn)
    fi = finfo(mod, fn)
    cs_, hb, bw = params(fn)[:3]
    sn = [s for s in assigns_to(fn, 'state_num') if isinstance(s, ast.Assign)]
    okn = len(sn) == 1 and u(sn[0].value) in ('int(%s)' % cs_, cs_)
    ck.check(okn, rule + '.lookup', mod, sn[0] if sn else fn, 'get_gates', u(sn[0]) if sn else 'state_num', 'gates are those of the CURRENT state', 'state_num must be the current state')
    lo = [s for s in fn.body if isinstance(s, ast.Assign) and u(s.targets[0]) == 'lower_bound']
    up = [s for s in fn.body if isinstance(s, ast.Assign) and u(s.targets[0]) == 'upper_bound']
    ok = bool(lo) and bool(up) and u(lo[0].value) == '%s[state_num]' % hb and u(up[0].value) == '%s[state_num + 1]' % hb
    ck.check(ok, rule + '.lookup', mod, lo[0] if lo else fn, 'get_gates', '%s ; %s' % (u(lo[0]) if lo else '?', u(up[0]) if up else '?'),
             'lower/upper gate start as the hard boundaries of the current basin',
             'the gates must start as hard_boundaries[state] (lower) and hard_boundaries[state + 1] (upper)')
    # wrap-around swaps
    swaps = [n for n in fn.body if isinstance(n, ast.If)]
    low_ok = up_ok = False
    for n in swaps:
        body = [u(x) for x in n.body]
        t = u(n.test)
        if body == ['lower_bound = 360']:
            low_ok = t in ('lower_bound == 0', 'state_num == 0', '0 == lower_bound', '%s[state_num] == 0' % hb)
            ck.check(low_ok, rule + '.wrap', mod, n, 'get_gates', 'if %s: %s' % (t, body[0]),
                     'the basin that starts at the 0/360 seam gets its lower gate moved to 360',
                     'the lower gate must wrap to 360 exactly for the basin whose lower boundary is 0 (first basin)')
        if body == ['upper_bound = 0']:
            up_ok = t in ('upper_bound == 360', '360 == upper_bound', 'state_num == n_basins - 1', 'state_num + 1 == n_basins',
                          'state_num == len(%s) - 2' % hb, '%s[state_num + 1] == 360' % hb)
            ck.check(up_ok, rule + '.wrap', mod, n, 'get_gates', 'if %s: %s' % (t, body[0]),
                     'the basin that ends at the 0/360 seam gets its upper gate moved to 0',
                     'the upper gate must wrap to 0 exactly for the basin whose upper boundary is 360, i.e. the LAST basin '
                     '(index n_basins - 1): `%s` never holds for a valid state, so the last basin loses its buffer across '
                     'the seam' % t)
    if not any([u(x) for x in n.body] == ['lower_bound = 360'] for n in swaps):
        ck.bad(rule + '.wrap', mod, fn, 'get_gates', 'lower wrap', 'no wrap-around of the lower gate at the 0/360 seam')
    if not any([u(x) for x in n.body] == ['upper_bound = 0'] for n in swaps):
        ck.bad(rule + '.wrap', mod, fn, 'get_gates', 'upper wrap', 'no wrap-around of the upper gate at the 0/360 seam')
    ws = [s for s in fn.body if isinstance(s, ast.AugAssign)]
    ok = sorted(u(s) for s in ws) == sorted(['lower_bound -= %s' % bw, 'upper_bound += %s' % bw])
    ck.check(ok, rule + '.widen', mod, ws[0] if ws else fn, 'get_gates', '; '.join(u(s) for s in ws),
             'basin widened by the buffer on both sides (lower - b, upper + b)',
             'the gates must be widened OUTWARDS: lower_bound -= buffer_width and upper_bound += buffer_width')
    if ws and swaps:
        ck.check(all(fn.body.index(n) < fn.body.index(s) for n in swaps for s in ws), rule + '.widen', mod, ws[0], 'get_gates', 'wrap before widening',
                 'seam values are substituted before the buffer is applied', 'the seam substitution must precede the widening')
    r = returns_of(fn)
    ck.check(len(r) == 1 and u(r[0].value) == '(lower_bound, upper_bound)', rule + '.order', mod, r[0] if r else fn, 'get_gates', u(r[0]) if r else '?', 'returns (lower, upper)', 'get_gates must return (lower_bound, upper_bound)')
    # is_buffered_transition
    ft = mod.func('is_buffered_transition')
    ck.analysed(mod, ft)
    un = [s for s in walk_local(ft) if isinstance(s, ast.Assign) and isinstance(s.value, ast.Call) and call_name(s.value) == 'get_gates']
    ok = len(un) == 1 and u(un[0].targets[0]) == '(lower_bound, upper_bound)' and [u(a) for a in un[0].value.args] == params(ft)[0:1] + params(ft)[2:4]
    ck.check(ok, rule + '.order', mod, un[0] if un else ft, 'is_buffered_transition', u(un[0]) if un else 'get_gates', '(lower, upper) unpacked in order for the current state',
             'is_buffered_transition must unpack (lower_bound, upper_bound) = get_gates(cur_state, hard_boundaries, buffer_width)')
    na = params(ft)[1]
    tests = {}
    for n in ft.body:
        if isinstance(n, ast.If):
            inner = [x for x in n.body if isinstance(x, ast.If)]
            if inner:
                tests[u(n.test)] = (u(inner[0].test), [u(x) for x in inner[0].body])
    wrap = tests.get('upper_bound < lower_bound')
    norm = tests.get(C('upper_bound > lower_bound'))
    ok = wrap is not None and wrap[0] == 'upper_bound <= %s <= lower_bound' % na and wrap[1] == ['result = True']
    ck.check(ok, rule + '.exit-test', mod, ft, 'is_buffered_transition', 'wrap-around: %s' % (wrap,),
             'for the wrap-around basin (gates flipped) the exit region is BETWEEN the gates',
             'when upper < lower (wrap-around basin) a transition is `upper_bound <= new_angle <= lower_bound`')
    ok = norm is not None and norm[0] == 'not lower_bound <= %s <= upper_bound' % na and norm[1] == ['result = True']
    ck.check(ok, rule + '.exit-test', mod, ft, 'is_buffered_transition', 'ordinary: %s' % (norm,),
             'for an ordinary basin the exit region is OUTSIDE the gates',
             'when upper > lower a transition is `not (lower_bound <= new_angle <= upper_bound)`')
    r = returns_of(ft)
    init = [s for s in ft.body if isinstance(s, ast.Assign) and u(s.targets[0]) == 'result']
    ck.check(len(r) == 1 and u(r[0].value) == 'result' and bool(init) and u(init[0].value) == 'False', rule + '.exit-test', mod, r[0] if r else ft, 'is_buffered_transition',
             'result defaults to False', 'no transition unless an exit test fires', 'result must default to False and be returned')


def d2_transitions(ck):
    rule = 'C20.D2.transitions'
    mod = ck.repo.mod(DI)
    fn = mod.func('transitions')
    ck.analysed(mod, fn)
    a = params(fn)[0]
    ds = [s for s in walk_local(fn) if isinstance(s, ast.Assign) and u(s.targets[0]) == 'd']
    want = {'%s[1:] - %s[:-1]' % (a, a), '%s[:, 1:] - %s[:, :-1]' % (a, a)}
    ck.check({u(s.value) for s in ds} == want, rule + '.difference', mod, ds[0] if ds else fn, 'transitions', '; '.join(u(s) for s in ds),
             'first difference along the frame axis: frame n+1 minus frame n (slice lemma, L = 1)',
             'the difference must pair frame n with n+1 along the FRAME axis: a[1:] - a[:-1] (1-D) and a[:, 1:] - a[:, :-1] (2-D)')
    nz = [c for c in calls_in(fn) if call_name(c) in ('np.where', 'ra.where')]
    ok = len(nz) == 2 and all(u(c.args[0]) == 'd != 0' for c in nz)
    ck.check(ok, rule + '.nonzero', mod, nz[0] if nz else fn, 'transitions', '; '.join(u(c) for c in nz), 'a transition is a non-zero difference', 'transitions are the positions where d != 0')
    one = [s for s in walk_local(fn) if isinstance(s, ast.Assign) and u(s.targets[0]) == 'tt' and 'np.where' in u(s.value)]
    ck.check(len(one) == 1 and u(one[0].value) == 'np.where(d != 0)[0]', rule + '.nonzero', mod, one[0] if one else fn, 'transitions', u(one[0]) if one else '?', '1-D: frame indices', '1-D result must be np.where(d != 0)[0]')
    bc = [c for c in calls_in(fn) if call_name(c) == 'np.bincount']
    ok = len(bc) == 1 and u(bc[0].args[0]) == 'rows' and kwarg(bc[0], 'minlength') is not None and u(kwarg(bc[0], 'minlength')) in ('d.shape[0]', '%s.shape[0]' % a, 'len(d)', 'len(%s)' % a)
    ck.check(ok, rule + '.per-row', mod, bc[0] if bc else fn, 'transitions', u(bc[0]) if bc else 'np.bincount',
             'one length entry per input trajectory (minlength = number of rows)',
             'np.bincount(rows) without minlength=<number of trajectories> is shorter than the input when the LAST rows have no '
             'transition: trailing trajectories silently disappear from the result')
    un = [s for s in walk_local(fn) if isinstance(s, ast.Assign) and u(s.targets[0]) == '(rows, columns)']
    rr = [s for s in walk_local(fn) if isinstance(s, ast.Assign) and u(s.targets[0]) == 'tt' and 'RaggedArray' in u(s.value)]
    ok = len(un) == 1 and len(rr) == 1 and u(rr[0].value) == 'ra.RaggedArray(columns, lengths=lengths)'
    ck.check(ok, rule + '.per-row', mod, rr[0] if rr else fn, 'transitions', u(rr[0]) if rr else '?', 'frame indices (columns) grouped by trajectory (rows)',
             'the ragged result must hold the COLUMN indices grouped by the row counts')


def check(ck):
    mod = ck.repo.mod(RO)
    d1_carried_state(ck, mod)
    d3_gates(ck, mod)
    d2_transitions(ck)
    check_no_arg_mutation(ck, 'C20.D4.inputs-unmodified', [(RO, '_rotamers'), (RO, 'get_gates'), (RO, 'is_buffered_transition'), (DI, 'transitions')])
    return EXPLANATION

"""C17 Pathways: caller's flux matrix unchanged, widest-path search
structure, path-removal schemes, cut-off loop."""
import ast

from ..core import (AnalysisIncomplete, call_name, const_value, kwarg,
                    names_loaded, params, target_names, u, walk_expr,
                    walk_local)
from ..patterns import (Cmp, assigns_to, calls_in, check_no_arg_mutation,
                        conjuncts, finfo, returns_of, subscript_stores)
from ..match import C, CS

PA = 'enspara/tpt/path.py'

EXPLANATION = (
    'Static decision of the structural necessary conditions of the pathway '
    'contract: (D1) no store reaches the caller\'s flux matrix in top_path, '
    'paths or the two removal schemes (each rebinds the parameter to a copy '
    'before its first store; advanced-index reads are copies); (D2) the '
    'frontier node popped is argmax of min_fluxes over the queue, neighbours '
    'are the strictly positive entries of its row, the relaxation value is '
    'the edge flux clipped to the upstream bottleneck, a neighbour is updated '
    'only if unvisited and strictly improved, predecessor and bottleneck are '
    'written under the same index set, the reported flux is min_fluxes at the '
    'chosen (argmax) sink and the path is rebuilt by predecessor links; (D3) '
    'the subtract scheme writes the subtraction THROUGH to the working matrix '
    '(augmented store on the path edges of the copy) and zeroes the '
    'bottleneck; the bottleneck scheme zeroes the argmin edge; names map to '
    'schemes; (D4) paths() records path and flux, then tests counter >= '
    'num_paths or explained >= cutoff, then replaces the working copy by the '
    'removal result. Optimality among all paths is not decided.')


def check(ck):
    mod = ck.repo.mod(PA)
    d2_top_path(ck, mod)
    d3_removal(ck, mod)
    d4_paths(ck, mod)
    check_no_arg_mutation(ck, 'C17.D1.inputs-unmodified', [
        (PA, 'top_path'), (PA, 'paths'), (PA, '_remove_bottleneck'), (PA, '_subtract_path_flux')])
    return EXPLANATION


def d2_top_path(ck, mod):
    rule = 'C17.D2.search'
    fn = mod.func('top_path')
    ck.analysed(mod, fn)
    fi = finfo(mod, fn)
    sources, sinks, nf = params(fn)[:3]
    loops = [l for l in fn.body if isinstance(l, ast.While)]
    if not loops:
        ck.missing(rule, 'search loop')
        return
    loop = loops[0]
    ck.check(u(loop.test) in CS('len(queue) > 0', 'queue', 'len(queue) != 0', 'len(queue)'), rule + '.loop', mod, loop, 'top_path', u(loop.test),
             'search runs until the frontier is empty', 'the search loop must run while the queue is non-empty')
    # initialisation
    init = {u(s.targets[0]): s for s in fn.body if isinstance(s, ast.Assign) and isinstance(s.targets[0], ast.Name)}
    mf = init.get('min_fluxes')
    ok = mf is not None and u(mf.value) in ('np.ones(n_states) * -1 * np.inf', '-np.inf * np.ones(n_states)', 'np.full(n_states, -np.inf)')
    ck.check(ok, rule + '.init', mod, mf or fn, 'top_path', u(mf) if mf else 'min_fluxes', 'bottleneck-so-far starts at -inf', 'min_fluxes must start at -inf for every state')
    src = [(s, t) for s, t in subscript_stores(fn, 'min_fluxes') if s in fn.body]
    ok = len(src) == 1 and u(src[0][1].slice) == sources and u(src[0][0].value) == 'np.inf'
    ck.check(ok, rule + '.init', mod, src[0][0] if src else fn, 'top_path', u(src[0][0]) if src else 'min_fluxes[sources]',
             'sources start with infinite bottleneck', 'min_fluxes[sources] must be +inf')
    q = init.get('queue')
    ck.check(q is not None and u(q.value) == 'list(%s)' % sources, rule + '.init', mod, q or fn, 'top_path', u(q) if q else 'queue',
             'frontier starts as the source set', 'the queue must start as list(sources)')
    pn = init.get('previous_node')
    ck.check(pn is not None and '-1' in u(pn.value), rule + '.init', mod, pn or fn, 'top_path', u(pn) if pn else 'previous_node',
             'predecessor sentinel -1', 'previous_node must start at -1')
    # pop
    pop = [s for s in loop.body if isinstance(s, ast.Assign) and isinstance(s.value, ast.Call) and u(s.value.func) == 'queue.pop']
    ok = len(pop) == 1 and pop[0].value.args and u(pop[0].value.args[0]) in ('min_fluxes[queue].argmax()', 'np.argmax(min_fluxes[queue])')
    ck.check(ok, rule + '.pop', mod, pop[0] if pop else loop, 'top_path', u(pop[0]) if pop else 'queue.pop(...)',
             'frontier node with the LARGEST bottleneck is expanded next',
             'the node popped must be the queue position of argmax(min_fluxes[queue]) (widest-path Dijkstra); '
             'argmin / plain pop() expands a worse node first and finalises sub-optimal bottlenecks')
    tn = u(pop[0].targets[0]) if pop else 'test_node'
    vis = [(s, t) for s, t in subscript_stores(loop, 'visited')]
    ck.check(len(vis) == 1 and u(vis[0][1].slice) == tn and const_value(vis[0][0].value) is True, rule + '.visited', mod,
             vis[0][0] if vis else loop, 'top_path', u(vis[0][0]) if vis else 'visited', 'popped node is finalised', 'visited[test_node] = True expected')
    # neighbours: strictly positive entries of the row
    nb = [s for s in loop.body if isinstance(s, ast.Assign) and u(s.targets[0]) == 'neighbors']
    ok = len(nb) == 1 and u(nb[0].value) in CS('np.where(%s[%s, :] > 0)[0]' % (nf, tn), 'np.where(%s[%s] > 0)[0]' % (nf, tn),
                                                'np.nonzero(%s[%s, :] > 0)[0]' % (nf, tn), 'np.flatnonzero(%s[%s, :] > 0)' % (nf, tn))
    ck.check(ok, rule + '.neighbors', mod, nb[0] if nb else loop, 'top_path', u(nb[0]) if nb else 'neighbors',
             'edges are exactly the strictly positive entries of the row of the expanded node',
             'neighbours must be the entries of net_flux[test_node, :] that are > 0: a tolerance test '
             '(isclose) hides small positive fluxes, >= 0 follows non-edges, a column slice walks edges backwards')
    # new_fluxes = net_flux[test_node, neighbors].flatten(); clip to min_fluxes[test_node]
    nfl = [s for s in loop.body if isinstance(s, ast.Assign) and u(s.targets[0]) == 'new_fluxes']
    ok = len(nfl) == 1 and u(nfl[0].value) in ('%s[%s, neighbors].flatten()' % (nf, tn), '%s[%s, neighbors].copy()' % (nf, tn),
                                                'np.array(%s[%s, neighbors])' % (nf, tn), '%s[%s, neighbors]' % (nf, tn))
    ck.check(ok, rule + '.relax', mod, nfl[0] if nfl else loop, 'top_path', u(nfl[0]) if nfl else 'new_fluxes',
             'candidate value = flux of the edge test_node -> neighbour', 'new_fluxes must be net_flux[test_node, neighbors]')
    clip = [(s, t) for s, t in subscript_stores(loop, 'new_fluxes')]
    ok = len(clip) == 1 and u(clip[0][1].slice) in CS('np.where(new_fluxes > min_fluxes[%s])' % tn, 'new_fluxes > min_fluxes[%s]' % tn) \
        and u(clip[0][0].value) == 'min_fluxes[%s]' % tn
    alt = [s for s in loop.body if isinstance(s, ast.Assign) and u(s.targets[0]) == 'new_fluxes' and
           u(s.value) in ('np.minimum(new_fluxes, min_fluxes[%s])' % tn, 'np.fmin(new_fluxes, min_fluxes[%s])' % tn)]
    ck.check(ok or len(alt) == 1, rule + '.relax', mod, (clip[0][0] if clip else (alt or [loop])[0]), 'top_path',
             u(clip[0][0]) if clip else 'clip', 'path bottleneck = min(edge flux, upstream bottleneck)',
             'the candidate must be clipped to the bottleneck of the path so far: min(edge flux, min_fluxes[test_node])')
    ind = [s for s in loop.body if isinstance(s, ast.Assign) and u(s.targets[0]) == 'ind']
    ok = len(ind) == 1 and u(ind[0].value) in CS('np.where(1 - visited[neighbors] & (new_fluxes > min_fluxes[neighbors]))',
                                                  'np.where(~visited[neighbors] & (new_fluxes > min_fluxes[neighbors]))',
                                                  'np.where((1 - visited[neighbors]) & (new_fluxes > min_fluxes[neighbors]))',
                                                  'np.where(new_fluxes > min_fluxes[neighbors])')
    ck.check(ok, rule + '.improve', mod, ind[0] if ind else loop, 'top_path', u(ind[0]) if ind else 'ind',
             'a neighbour is updated only if its bottleneck strictly improves (and it is not finalised)',
             'the update set must be the neighbours with new_fluxes > min_fluxes[neighbors] (strict): '
             '< picks worse paths, >= re-queues nodes forever on ties')
    ups = {u(t.value): (s, t) for s, t in subscript_stores(loop) if u(t.slice) == 'neighbors[ind]'}
    ok = set(ups) == {'min_fluxes', 'previous_node'} and u(ups['min_fluxes'][0].value) == 'new_fluxes[ind]' and \
        u(ups['previous_node'][0].value) == tn
    ck.check(ok, rule + '.update', mod, ups.get('min_fluxes', (loop,))[0], 'top_path', '; '.join(u(s) for s, t in ups.values()),
             'bottleneck and predecessor are written together for the same neighbours',
             'min_fluxes[neighbors[ind]] = new_fluxes[ind] and previous_node[neighbors[ind]] = test_node must both be '
             'present (same index set): otherwise the reported path does not realise the reported flux')
    ext = [c for c in calls_in(loop) if u(c.func) == 'queue.extend']
    ck.check(len(ext) == 1 and u(ext[0].args[0]) == 'neighbors[ind]', rule + '.update', mod, ext[0] if ext else loop, 'top_path',
             u(ext[0]) if ext else 'queue.extend', 'improved neighbours join the frontier', 'queue.extend(neighbors[ind]) expected')
    # reconstruction and reported flux
    r = returns_of(fn)
    ok = len(r) == 1 and isinstance(r[0].value, ast.Tuple) and u(r[0].value.elts[0]) == 'np.array(top_path[::-1])' and \
        u(r[0].value.elts[1]) == 'min_fluxes[top_path[0]]'
    ck.check(ok, rule + '.report', mod, r[0] if r else fn, 'top_path', u(r[0]) if r else 'return',
             'path reversed into source->sink order; flux = bottleneck recorded at the chosen sink',
             'top_path must return (np.array(top_path[::-1]), min_fluxes[top_path[0]]) where top_path[0] is the chosen sink')
    first = [c for c in calls_in(fn) if u(c.func) == 'top_path.append' and 'sinks' in u(c)]
    ok = len(first) == 1 and u(first[0].args[0]) in ('int(%s[min_fluxes[%s].argmax()])' % (sinks, sinks), '%s[min_fluxes[%s].argmax()]' % (sinks, sinks),
                                                      '%s[np.argmax(min_fluxes[%s])]' % (sinks, sinks))
    ck.check(ok, rule + '.report', mod, first[0] if first else fn, 'top_path', u(first[0]) if first else 'sink choice',
             'the sink with the largest bottleneck ends the path', 'the path must end at sinks[argmax(min_fluxes[sinks])]')
    back = [l for l in fn.body if isinstance(l, ast.While) and l is not loop]
    ok = len(back) == 1 and u(back[0].test) == 'previous_node[top_path[-1]] != -1' and \
        any(u(c) == 'top_path.append(previous_node[top_path[-1]])' for c in calls_in(back[0]))
    ck.check(ok, rule + '.report', mod, back[0] if back else fn, 'top_path', u(back[0].test) if back else 'back-trace',
             'path rebuilt by following predecessor links to a source', 'the back-trace must follow previous_node until -1')


def d3_removal(ck, mod):
    rule = 'C17.D3.removal'
    for name in ('_subtract_path_flux', '_remove_bottleneck'):
        fn = mod.func(name)
        ck.analysed(mod, fn)
        fi = finfo(mod, fn)
        nf, path = params(fn)[:2]
        cp = [s for s in assigns_to(fn, nf) if isinstance(s, ast.Assign)]
        ok = len(cp) == 1 and u(cp[0].value) in ('copy.copy(%s)' % nf, '%s.copy()' % nf, 'np.array(%s)' % nf, 'np.copy(%s)' % nf, 'copy.deepcopy(%s)' % nf)
        stores = [s for s, t in subscript_stores(fn, nf)]
        ok = ok and all(fi.cfg.dominates(cp[0], s) for s in stores)
        ck.check(ok, rule + '.copy', mod, cp[0] if cp else fn, name, u(cp[0]) if cp else 'copy', 'works on a copy made before the first store',
                 '%s must rebind net_flux to a copy before storing into it' % name)
        r = returns_of(fn)
        ck.check(len(r) == 1 and u(r[0].value) == nf, rule + '.copy', mod, r[0] if r else fn, name, u(r[0]) if r else 'return', 'returns the modified copy', 'must return the working matrix')
        edges = '%s[%s[:-1], %s[1:]]' % (nf, path, path)
        bn = [s for s in walk_local(fn) if isinstance(s, ast.Assign) and u(s.targets[0]) == 'bottleneck_ind']
        ok = len(bn) == 1 and u(bn[0].value) in ('%s.argmin()' % edges, 'np.argmin(%s)' % edges)
        ck.check(ok, rule + '.bottleneck', mod, bn[0] if bn else fn, name, u(bn[0]) if bn else 'bottleneck_ind',
                 'bottleneck = argmin over the CONSECUTIVE edges of the path', 'bottleneck_ind must be argmin of net_flux[path[:-1], path[1:]]')
        z = [s for s, t in subscript_stores(fn, nf) if u(t.slice) == '(%s[bottleneck_ind], %s[bottleneck_ind + 1])' % (path, path)
             or u(t.slice) == '%s[bottleneck_ind], %s[bottleneck_ind + 1]' % (path, path)]
        ok = len(z) == 1 and const_value(z[0].value) == 0
        ck.check(ok, rule + '.bottleneck', mod, z[0] if z else fn, name, u(z[0]) if z else 'zero the bottleneck edge',
                 'the bottleneck edge (path[k] -> path[k+1]) is removed', 'the edge path[bottleneck_ind] -> path[bottleneck_ind + 1] must be set to 0')
        if name == '_subtract_path_flux':
            sub = [s for s in walk_local(fn) if isinstance(s, ast.AugAssign) and isinstance(s.op, ast.Sub)]
            ok = len(sub) == 1 and u(sub[0].target) == edges and u(sub[0].value) in ('%s.min()' % edges, 'np.min(%s)' % edges)
            ck.check(ok, rule + '.subtract', mod, sub[0] if sub else fn, name, u(sub[0]) if sub else 'subtract',
                     'the path flux is subtracted THROUGH to the working matrix on every edge of the path',
                     'the subtract scheme must execute `net_flux[path[:-1], path[1:]] -= <min over the same edges>` on the '
                     'working copy itself: subtracting on a temporary (advanced indexing returns a copy) loses the '
                     'update, later paths re-use flux already explained')
            if sub and z:
                ck.check(fi.cfg.dominates(sub[0], z[0]), rule + '.subtract', mod, z[0], name, 'order', 'bottleneck zeroed after the subtraction', 'zeroing must follow the subtraction')


def d4_paths(ck, mod):
    rule = 'C17.D4.paths'
    fn = mod.func('paths')
    ck.analysed(mod, fn)
    fi = finfo(mod, fn)
    sources, sinks, nf, rp, npaths, cutoff = params(fn)[:6]
    # registry
    reg = {}
    for n in walk_local(fn):
        if isinstance(n, ast.If):
            cs = conjuncts(n.test, True)
            if cs and len(cs) == 1 and isinstance(cs[0], Cmp) and cs[0].op is ast.Eq and u(cs[0].lhs) == rp and isinstance(cs[0].rhs, ast.Constant):
                for s in n.body:
                    if isinstance(s, ast.Assign) and u(s.targets[0]) == rp:
                        reg[cs[0].rhs.value] = u(s.value)
    ck.check(reg == {'subtract': '_subtract_path_flux', 'bottleneck': '_remove_bottleneck'}, rule + '.registry', mod, fn, 'paths', str(reg),
             "scheme names map to their functions", "'subtract' must map to _subtract_path_flux and 'bottleneck' to _remove_bottleneck")
    cp = [s for s in assigns_to(fn, nf) if isinstance(s, ast.Assign) and 'copy' in u(s.value)]
    ck.check(len(cp) == 1 and u(cp[0].value) in ('copy.copy(%s)' % nf, '%s.copy()' % nf, 'np.array(%s)' % nf, 'copy.deepcopy(%s)' % nf), rule + '.copy', mod,
             cp[0] if cp else fn, 'paths', u(cp[0]) if cp else 'copy', 'paths works on its own copy of the flux matrix', 'paths must copy net_flux before the loop')
    tf = [s for s in walk_local(fn) if isinstance(s, ast.Assign) and u(s.targets[0]) == 'total_flux']
    ok = len(tf) == 1 and u(tf[0].value) in ('%s[%s, :].sum()' % (nf, sources), '%s[%s].sum()' % (nf, sources), 'np.sum(%s[%s, :])' % (nf, sources))
    ck.check(ok, rule + '.total', mod, tf[0] if tf else fn, 'paths', u(tf[0]) if tf else 'total_flux', 'total = outflow of the sources (rows)', 'total_flux must be the sum of the source ROWS')
    loops = [l for l in fn.body if isinstance(l, ast.While)]
    if not loops:
        ck.missing(rule, 'main loop of paths')
        return
    loop = loops[0]
    body = loop.body
    tp = [s for s in body if isinstance(s, ast.Assign) and isinstance(s.value, ast.Call) and call_name(s.value) == 'top_path']
    ok = len(tp) == 1 and [u(a) for a in tp[0].value.args] == [sources, sinks, nf] and u(tp[0].targets[0]) == '(path, flux)'
    ck.check(ok, rule + '.search', mod, tp[0] if tp else loop, 'paths', u(tp[0]) if tp else 'top_path', 'next path found on the CURRENT working matrix',
             'path, flux = top_path(sources, sinks, net_flux) expected on the working copy')
    rec = [s for s in body if isinstance(s, ast.Expr) and isinstance(s.value, ast.Call) and u(s.value.func) in ('paths.append', 'fluxes.append')]
    acc = [s for s in body if isinstance(s, ast.AugAssign) and u(s.target) == 'expl_flux']
    cnt = [s for s in body if isinstance(s, ast.AugAssign) and u(s.target) == 'counter']
    test = [s for s in body if isinstance(s, ast.If) and any(isinstance(x, ast.Break) for x in s.body) and ('counter' in u(s.test) or 'expl_flux' in u(s.test))]
    rem = [s for s in body if isinstance(s, ast.Assign) and isinstance(s.value, ast.Call) and u(s.value.func) == rp]
    ok = len(rec) == 2 and len(acc) == 1 and len(cnt) == 1 and len(test) == 1 and len(rem) == 1
    if ok:
        idx = {id(s): i for i, s in enumerate(body)}
        order = max(idx[id(s)] for s in rec + acc + cnt) < idx[id(test[0])] < idx[id(rem[0])]
        ck.check(order, rule + '.order', mod, test[0], 'paths', 'record -> test -> remove', 'path is recorded, then the limits are tested, then the path is removed',
                 'the loop must record the path, test the limits, and only then remove the path')
        t = test[0].test
        okt = isinstance(t, ast.BoolOp) and isinstance(t.op, ast.Or) and sorted(u(v) for v in t.values) == sorted(
            [C('counter >= %s' % npaths), C('expl_flux >= %s' % cutoff)])
        ck.check(okt, rule + '.limits', mod, test[0], 'paths', u(t), 'stop when the requested number of paths OR the explained fraction is reached',
                 'the stop test must be `counter >= num_paths or expl_flux >= flux_cutoff` (>: one path too many; and: ignores one limit)')
        ck.check(u(acc[0].value) == 'flux / total_flux' and isinstance(acc[0].op, ast.Add), rule + '.limits', mod, acc[0], 'paths', u(acc[0]),
                 'explained fraction accumulates flux / total', 'expl_flux += flux / total_flux expected')
        ck.check(u(rem[0].targets[0]) == nf and [u(a) for a in rem[0].value.args] == [nf, 'path'], rule + '.replace', mod, rem[0], 'paths', u(rem[0]),
                 'the removal result replaces the working matrix', 'net_flux = remove_path(net_flux, path) expected: otherwise the same path is found again')
    else:
        ck.bad(rule + '.order', mod, loop, 'paths', 'loop body', 'expected record(2 appends)/accumulate/count/test/remove statements in the loop; found %d/%d/%d/%d/%d' % (
            len(rec), len(acc), len(cnt), len(test), len(rem)))
    inf = [s for s in body if isinstance(s, ast.If) and 'np.isinf(flux)' in u(s.test) and any(isinstance(x, ast.Break) for x in s.body)]
    ck.check(len(inf) == 1 and body.index(inf[0]) < body.index(rec[0]) if rec and inf else False, rule + '.no-path', mod, inf[0] if inf else loop, 'paths',
             u(inf[0].test) if inf else 'isinf', 'stop (without recording) when no source->sink path is left', 'an infinite flux (no path) must end the loop before anything is recorded')
    r = returns_of(fn)
    ck.check(len(r) == 1 and u(r[0].value) == '(paths, fluxes)', rule + '.return', mod, r[0] if r else fn, 'paths', u(r[0]) if r else '?', 'returns (paths, fluxes)', 'must return (paths, fluxes)')

"""C17 Pathways: caller's flux matrix unchanged, widest-path search
structure, path-removal schemes, cut-off loop."""
import ast

from ..core import (call_name, const_value, names_loaded, params, u,
                    walk_expr, walk_local)
from ..patterns import (Cmp, assigns_to, calls_in, check_no_arg_mutation,
                        conjuncts, finfo, returns_of, subscript_stores)
from ..match import C, canon, classify
from ..cfg import Assume

PA = 'enspara/tpt/path.py'

EXPLANATION = (
    'Static decision of the structural necessary conditions of the pathway '
    'contract: (D1) no store reaches the caller\'s flux matrix in top_path, '
    'paths or the two removal schemes (each rebinds the parameter to a copy '
    'before its first store; advanced-index reads are copies; (D1.views) no name '
    'bound to a VIEW of the parameter - basic indexing by integer scalars / slices, '
    '.T, .view(), np.asarray ..., the kind of an index decided three-valued from the '
    'definitions of its components (an element popped from a list built from a '
    'one-dimensional array is a scalar) - is updated in place while the parameter '
    'still is the caller\'s object); (D2) the '
    'frontier node popped is argmax of min_fluxes over the queue, neighbours '
    'are the strictly positive entries of its row, the relaxation value is '
    'the edge flux clipped to the upstream bottleneck, a neighbour is updated '
    'only if unvisited and strictly improved, predecessor and bottleneck are '
    'written under the same index set (a keep-better store MF[I] = np.maximum(MF[I], <cand>) does not excuse a selection without the '
    'strict-improvement test: the predecessor written under that index set is then overwritten by worse routes), the reported flux is min_fluxes at the '
    'chosen (argmax) sink and the path is rebuilt by predecessor links '
    '(appended and returned reversed, or prepended and returned as built; the '
    'loop may read the link once into a loop-carried name, or carry the head itself '
    'in a name H with H = <prev>[H] and the new H appended in every iteration); an '
    'index set with two definitions one of which is provably empty (len(X) == 0 on '
    'its branch, or an empty constructor) is judged on the other one, and a guard '
    '`len(<updated set>) > 0` around the update skips a no-op; a heapq frontier '
    'is accepted only if every improved node is pushed again with its new '
    'priority -bottleneck (no decrease-key); the search loop is cut short (and '
    'the relaxation skipped) only on tests of the finalised mask at the sinks, '
    'never on a test of the tentative labels (predecessor / bottleneck) of the '
    'sinks alone (`<popped node> in sinks` is a test of a finalised sink); every way OUT of the search loop other than its own test '
    '(break, return, a loop flag that is only cleared where a break could stand) is judged on the disjunctive normal form of the branch '
    'conditions that dominate it: each must imply that a sink is finalised - an empty neighbour set of the expanded node may skip its '
    'relaxation, it must not end the search; the path must not be made to end at the node '
    'popped last when the statement that seeds it is reachable from the loop test (frontier exhausted, no sink reached) '
    'without a test; top_path and paths are judged with the module-level helpers they call written out in place '
    '(sa/inline.py; a call that is the first thing a statement evaluates is written out in front of it); (D3) the working matrix of a '
    'removal scheme is what it returns and is bound once to a copy of the '
    'parameter; its stores (also those of a module-level helper called on it, '
    'one level) are compared after expansion (pure value helpers replaced by '
    'their return expression; X[a:b][k] read as X[a+k] for k an argmin): the subtract scheme writes the '
    'subtraction THROUGH to the working matrix on the consecutive path edges '
    '(an in-place update of a named advanced-index copy is lost) and then '
    'zeroes the argmin edge; the bottleneck scheme zeroes the argmin edge; '
    'names map to schemes; (D4) in paths() the search call (its two results unpacked, or read once each as component 0 / 1 of a name bound only there) fixes loop, '
    'working matrix, path and flux; the no-path test precedes the recording; '
    'path and flux are appended; the loop is left as soon as <number of '
    'recorded paths> >= num_paths or <explained fraction> >= cutoff - and not already when that quantity is merely within a tolerance of its limit '
    '(np.isclose / abs(q - limit) < eps as a further way out) - (counter '
    'from 0 by 1 or len of the result list; fraction from 0 by flux / source '
    'row sum; the exit may be a break or a loop flag `while f:` that is set '
    'once per iteration with all later statements guarded by it, or a flag conjunct of the loop test that is only '
    'cleared by statements after which nothing but pure branch tests runs before the loop header - such a clearing IS a break; '
    'or `F = E; while F:` with F only cleared or re-assigned the same E directly before the header on every way round the loop, '
    'which is `while E:` with the clearings as breaks), '
    'tested after recording and before the removal whose result '
    'replaces the working copy; a loop test `while <counter> < num_paths [and '
    '<fraction> < flux_cutoff]` is accepted in addition to those guards; '
    '(D4.limits.first-path) some test of num_paths is passed on every way from '
    'the entry to the first recording (the counter starts at 0 and advances '
    'only after a recording, so a test placed after the recording cannot honour '
    'num_paths = 0); (D3.sum-bound) the recorded paths form a feasible flow: '
    'every built-in removal scheme deducts the path flux from every edge of '
    'the path, or the loop refuses (before recording) a path with <explained> '
    '+ flux / <total> > 1 - a scheme that changes a single edge leaves the '
    'attributed flux on the other edges for later paths, and the sum of the '
    'pathway fluxes can exceed the outflow of the sources. Optimality among '
    'all paths is not decided.')


def check(ck):
    mod = ck.repo.mod(PA)
    # the search and the driver loop are judged with their module-level helpers written out in place (see _inlined_view)
    view = _inlined_view(ck, mod, ('top_path', 'paths'), keep=('top_path', 'paths', '_remove_bottleneck', '_subtract_path_flux'))
    d2_top_path(ck, view)
    schemes = d3_removal(ck, mod)
    d4_paths(ck, view, schemes)
    check_no_arg_mutation(ck, 'C17.D1.inputs-unmodified', [
        (PA, 'top_path'), (PA, 'paths'), (PA, '_remove_bottleneck'), (PA, '_subtract_path_flux')])
    d1_views(ck, mod, [('top_path', 2), ('paths', 2), ('_remove_bottleneck', 0), ('_subtract_path_flux', 0)])
    if view is not mod:
        # (stores that a helper makes through a view of the matrix it was handed are stores of the caller once written out)
        d1_views(ck, view, [('top_path', 2), ('paths', 2)])
    return EXPLANATION


# ---------------------------------------------------------------------------
# helpers written out in place (rule-level view; nothing is executed)

def _eval_children(e):
    """Sub-expressions of `e` in the order Python evaluates them, for the node types whose operands are all
    evaluated unconditionally and left to right; None for anything else (conditional / deferred evaluation:
    BoolOp, IfExp, comprehensions, lambda ...)."""
    if isinstance(e, ast.Call):
        if any(isinstance(a, ast.Starred) for a in e.args) or any(k.arg is None for k in e.keywords):
            return None
        return [e.func] + list(e.args) + [k.value for k in e.keywords]
    if isinstance(e, (ast.Tuple, ast.List, ast.Set)):
        return None if any(isinstance(a, ast.Starred) for a in e.elts) else list(e.elts)
    if isinstance(e, ast.Attribute):
        return [e.value]
    if isinstance(e, ast.Subscript):
        return [e.value, e.slice]
    if isinstance(e, ast.BinOp):
        return [e.left, e.right]
    if isinstance(e, ast.UnaryOp):
        return [e.operand]
    if isinstance(e, ast.Compare) and len(e.ops) == 1:
        return [e.left, e.comparators[0]]
    if isinstance(e, (ast.Name, ast.Constant)):
        return []
    return None


def _is_reference(e):
    """Evaluating `e` only fetches object references (a local name, a constant, an attribute / bound method of those):
    no value is computed that a later call could have changed, nothing is executed."""
    if isinstance(e, (ast.Name, ast.Constant)):
        return True
    return isinstance(e, ast.Attribute) and _is_reference(e.value)


def _first_call(e, wanted):
    """The call node of `e` (a call of one of the functions `wanted`) that is evaluated BEFORE anything else that
    computes a value or has an effect: all that precedes it in evaluation order are reference fetches, and it is
    evaluated unconditionally, once.  ('found', call) / ('clean', None) if `e` is a mere reference / ('dirty', None)."""
    if isinstance(e, ast.Call) and isinstance(e.func, ast.Name) and e.func.id in wanted:
        # its own arguments are evaluated as part of the call statement that replaces it
        return ('found', e)
    if _is_reference(e):
        return ('clean', None)
    kids = _eval_children(e)
    if kids is None:
        return ('dirty', None)
    for k in kids:
        st = _first_call(k, wanted)
        if st[0] != 'clean':
            return st
    # every operand is a reference but `e` itself computes (a call / an index / an operation)
    return ('dirty', None)


def _write_out_calls(fn, helpers):
    """`S(... h(a) ...)`  ->  `<body of h with its result bound to t>; S(... t ...)` for simple statements S
    (expression statement, assignment, return) in which the helper call is the first thing evaluated (see
    _first_call) - the statement then does exactly what it did, in the same order.  Binding of the parameters, renaming
    of the helper's locals and the conditions under which a body can be written out are those of sa/inline.py
    (expand_call / _rewrite_returns); a helper it refuses stays a call.  Whole-statement forms (`h(a)`, `x = h(a)`,
    `return h(a)`) are left to inline.Inliner.  Rewrites `fn` in place; returns the names of the helpers written out."""
    import copy as _copy
    from .. import inline
    done = []
    count = [0]
    wanted = set(helpers)

    def block(stmts):
        out = []
        for s in stmts:
            if isinstance(s, (ast.Expr, ast.Assign, ast.Return)) and s.value is not None and \
                    not (isinstance(s.value, ast.Call) and isinstance(s.value.func, ast.Name) and s.value.func.id in wanted):
                for _again in range(4):
                    st = _first_call(s.value, wanted)
                    if st[0] != 'found':
                        break
                    call = st[1]
                    tmp = '__call%d_%s' % (count[0] + 1, call.func.id.strip('_'))
                    try:
                        caller_locals = inline._assigned_names(fn) | set(params(fn))
                        prelude, body, _tag = inline.expand_call(helpers[call.func.id], call, caller_locals)
                        if not inline._ends(body):
                            raise inline._Refuse('helper can fall off its end while its value is used')
                        body = inline._rewrite_returns(body, lambda e: [ast.copy_location(ast.Assign(
                            targets=[ast.copy_location(ast.Name(id=tmp, ctx=ast.Store()), call)],
                            value=e if e is not None else ast.copy_location(ast.Constant(value=None), call)), e if e is not None else call)])
                    except inline._Refuse:
                        break
                    count[0] += 1
                    done.append(call.func.id)
                    s = _copy.copy(s)
                    s.value = _replace_node(s.value, call, ast.copy_location(ast.Name(id=tmp, ctx=ast.Load()), call))
                    out.extend(prelude + body)
            elif not isinstance(s, (ast.FunctionDef, ast.AsyncFunctionDef, ast.ClassDef)):
                for f in ('body', 'orelse', 'finalbody'):
                    b = getattr(s, f, None)
                    if isinstance(b, list) and b and isinstance(b[0], ast.stmt):
                        setattr(s, f, block(b))
                for h in getattr(s, 'handlers', []) or []:
                    h.body = block(h.body)
            out.append(s)
        return out
    fn.body = block(fn.body)
    return done


def _replace_node(root, old, new):
    class R(ast.NodeTransformer):
        def visit(self, n):
            if n is old:
                return new
            return super().visit(n)
    return R().visit(root)


def _inlined_view(ck, mod, quals, keep=()):
    """A copy of the module in which, inside the functions `quals`, every call of another module-level function of
    the same file (not one of `keep`, the anchored functions that have their own rules) is replaced by the body of
    that function: sa/inline.py (parameters bound in order, locals renamed apart, tail returns - also in guard-clause
    form - turned into assignments of the result; refused for generators, recursion, returns inside loops ...), after
    a call that is the first thing a statement evaluates is written out in front of the statement (_write_out_calls).  The
    written-out statements keep the line numbers they have in the helper.  Extracting a step of an algorithm into a
    helper does not change what the algorithm does; the rules then find the step where it is executed.  Returns
    `mod` itself when there is nothing to write out."""
    import copy as _copy
    from .. import inline
    from ..core import Module
    helpers = {n: f for n, f in mod.functions.items() if '.' not in n and n not in keep and n not in quals}
    called = set()
    for q in quals:
        fn = mod.functions.get(q)
        if fn is not None:
            called |= {c.func.id for c in ast.walk(fn) if isinstance(c, ast.Call) and isinstance(c.func, ast.Name) and c.func.id in helpers}
    if not called:
        return mod
    try:
        tree = _copy.deepcopy(mod.tree)
        tops = {s.name: s for s in tree.body if isinstance(s, (ast.FunctionDef, ast.AsyncFunctionDef))}
        hs = {n: tops[n] for n in helpers if n in tops}
        done = {}
        for q in quals:
            fn = tops.get(q)
            if fn is None:
                continue
            inl = inline.Inliner(hs)
            names = []
            for _round in range(3):
                wrote = _write_out_calls(fn, hs)
                names += wrote
                if not inl.run(fn) and not wrote:
                    break
            if names or inl.done:
                done[q] = sorted(set(names) | set(inl.done))
        if not done:
            return mod
        ast.fix_missing_locations(tree)
        view = Module(mod.rel, mod.src, tree, mod.kind)
    except Exception as e:                       # the view is a convenience: without it the rules see the calls
        ck.observe('C17.view', mod, None, 'helpers could not be written out in place: %r' % (e,))
        return mod
    ck.observe('C17.view', mod, None, 'judged with module-level helpers written out in place: %s' % '; '.join(
        '%s <- %s' % (q, ', '.join(v)) for q, v in sorted(done.items())))
    return view


def d2_top_path(ck, mod):
    """Widest-path search.  The constructs are located by ROLE (which object
    is popped from, which array is indexed by the queue inside the pop
    argument, ...) and compared after expanding temporaries (fi.xu), so the
    rule is independent of local names and of which sub-expressions carry a
    name.  An unrecognised shape is reported as analysis-incomplete; a
    violation is reported only for a recognised construct with a semantically
    relevant position changed (match.classify: near)."""
    rule = 'C17.D2.search'
    fn = mod.func('top_path')
    ck.analysed(mod, fn)
    fi = finfo(mod, fn)
    sources, sinks, nf = params(fn)[:3]
    F = 'top_path'

    # --- the frontier: `<tn> = Q.pop(<pos>)` inside a while loop over Q
    pops = [(l, c) for l in walk_local(fn) if isinstance(l, ast.While)
            for c in calls_in(l) if isinstance(c.func, ast.Attribute) and c.func.attr == 'pop' and isinstance(c.func.value, ast.Name)]
    heap = None
    if not pops:
        heap = _heap_frontier(ck, mod, fn, fi, rule, F)
        if heap is None:
            return
        loop, Q, MF, TN = heap['loop'], heap['Q'], heap['MF'], heap['TN']
    else:
        loop, pop = pops[0]
        Q = pop.func.value.id
        if not pop.args or isinstance(pop.args[0], ast.Constant):
            ck.bad(rule + '.pop', mod, pop, F, u(pop), 'the frontier is popped by position (%s): the node expanded next must be the one with the LARGEST '
                   'bottleneck so far (widest-path Dijkstra), not the first/last queued' % u(pop))
            return
        v = classify(fi.expand(pop.args[0]), ['_MF[%s].argmax()' % Q, 'int(_MF[%s].argmax())' % Q])
        ck.decide(v, rule + '.pop', mod, pop, F, u(pop), 'frontier node with the LARGEST bottleneck is expanded next',
                  'the node popped must be the queue position of argmax(<bottleneck array>[queue]) (widest-path Dijkstra); '
                  'argmin / plain pop() expands a worse node first and finalises sub-optimal bottlenecks')
        if v[0] != 'match' or not isinstance(v[1]['_MF'], ast.Name):
            return
        MF = v[1]['_MF'].id
        pst = fi.stmt(pop)
        if not (isinstance(pst, ast.Assign) and isinstance(pst.targets[0], ast.Name)):
            ck.missing(rule + '.pop', 'popped node is not bound to a name')
            return
        TN = pst.targets[0].id
    loop_forms = ['0 < len(%s)' % Q, Q, 'len(%s) != 0' % Q, 'len(%s)' % Q, '1 <= len(%s)' % Q]
    v = classify(loop.test, loop_forms)
    clears = []
    if v[0] != 'match':
        # `while FLAG and <frontier not empty>:` with FLAG only cleared by statements that act as `break` (see _flag_breaks):
        # the loop test proper is the remaining conjunct, the clearings are exits of the loop (judged by _reach)
        fb = _flag_breaks(mod, fn, fi, loop)
        if fb is not None and len(fb[2]) == 1:
            clears = list(fb[1])
            v = classify(fb[2][0], loop_forms)
    ck.decide(v, rule + '.loop', mod, loop, F, u(loop.test), 'search runs until the frontier is empty' + (
        ' (the flag `%s` is only cleared where a `break` could stand)' % fb[0] if clears else ''), 'the search loop must run while the queue is non-empty')

    # --- initial state (statements before the loop)
    def init_of(name):
        ds = [s for s in assigns_to(fn, name) if isinstance(s, ast.Assign) and fi.cfg.dominates(s, loop) and not _inside(mod, s, loop)]
        return ds[-1] if ds else None
    mf0 = init_of(MF)
    if mf0 is None:
        ck.missing(rule + '.init', 'initialisation of %s' % MF)
    else:
        v = classify(fi.expand(mf0.value), ['np.ones(_N) * -1 * np.inf', '-np.inf * np.ones(_N)', 'np.full(_N, -np.inf)', 'np.ones(_N) * -np.inf',
                                            '-np.ones(_N) * np.inf', 'np.zeros(_N) - np.inf', 'np.full(_N, -np.inf, dtype=float)',
                                            'np.full(_N, float("-inf"))', 'np.full(shape=_N, fill_value=-np.inf)'], scope={nf, sources, sinks})
        ck.decide(v, rule + '.init', mod, mf0, F, u(mf0), 'bottleneck-so-far starts at -inf', 'the bottleneck array must start at -inf for every state')
    src = [(s, t) for s, t in subscript_stores(fn, MF) if not _inside(mod, s, loop) and fi.cfg.dominates(s, loop)]
    if not src:
        ck.missing(rule + '.init', 'store of the source bottleneck (%s[sources] = inf) before the loop' % MF)
    else:
        s0, t0 = src[0]
        ok = fi.xu(t0.slice) == sources and fi.xu(s0.value) in ('np.inf', "float('inf')", 'math.inf')
        ck.check(ok, rule + '.init', mod, s0, F, u(s0), 'sources start with infinite bottleneck', '%s[sources] must be +inf' % MF)
    q0 = init_of(Q)
    if q0 is None:
        ck.missing(rule + '.init', 'initialisation of the queue')
    elif heap is not None:
        v = classify(fi.expand(q0.value, stop=(sources,)), ['[(-np.inf, int(_X)) for _X in %s]' % sources, '[(-np.inf, _X) for _X in %s]' % sources,
                                                            '[(-%s[_X], _X) for _X in %s]' % (MF, sources), '[(-%s[_X], int(_X)) for _X in %s]' % (MF, sources),
                                                            "[(float('-inf'), int(_X)) for _X in %s]" % sources], scope={sources, MF})
        ck.decide(v, rule + '.init', mod, q0, F, u(q0), 'heap frontier starts as the source set (priority -inf = minus the source bottleneck)',
                  'the heap must start as [(-inf, s) for s in sources]')
    else:
        v = classify(fi.expand(q0.value, stop=(sources,)), ['list(%s)' % sources, '[_X for _X in %s]' % sources, '%s.tolist()' % sources, 'list(%s.flatten())' % sources], scope={sources})
        ck.decide(v, rule + '.init', mod, q0, F, u(q0), 'frontier starts as the source set', 'the queue must start as list(sources)')

    # --- finalisation of the popped node
    vis = [(s, t) for s, t in subscript_stores(loop) if fi.xu(t.slice) == TN and const_value(s.value) is True]
    if len(vis) != 1 or not isinstance(vis[0][1].value, ast.Name):
        ck.missing(rule + '.visited', '`<visited>[%s] = True` in the search loop' % TN)
        return
    V = vis[0][1].value.id
    ck.ok(rule + '.visited', mod, vis[0][0], u(vis[0][0]), 'popped node is finalised')
    v0 = init_of(V)
    if v0 is None:
        ck.missing(rule + '.init', 'initialisation of %s' % V)
    else:
        vx = fi.expand(v0.value)
        v = classify(vx, ['np.zeros(_N).astype(bool)', 'np.zeros(_N, dtype=bool)', 'np.zeros(_N, bool)', 'np.full(_N, False)', 'np.full(_N, False, dtype=bool)',
                          'np.zeros(_N, dtype=np.bool_)', 'np.zeros(_N).astype(np.bool_)', 'np.zeros(_N, dtype="bool")', 'np.zeros(_N, dtype=int)', 'np.zeros(_N)'])
        root = vx
        while isinstance(root, ast.Call) and isinstance(root.func, ast.Attribute) and root.func.attr == 'astype':
            root = root.func.value
        if v[0] != 'match':
            # positively wrong only if the array is known not to be all-False; any other spelling is not judged
            wrong = isinstance(root, ast.Call) and call_name(root) in ('np.empty', 'np.empty_like', 'np.ones', 'np.ones_like')
            v = ('near', 1, 'np.zeros(n).astype(bool)') if wrong else ('far', 0, None)
        ck.decide(v, rule + '.init', mod, v0, F, u(v0), 'no state is finalised initially',
                  'the finalised-mask must start all False: an uninitialised / all-True mask excludes arbitrary states from the relaxation')

    # --- the update: `MF[<idx>] = <val>` in the loop
    ups = [(s, t) for s, t in subscript_stores(loop, MF) if isinstance(s, ast.Assign)]
    if len(ups) != 1:
        ck.missing(rule + '.update', 'exactly one store into %s inside the search loop (found %d)' % (MF, len(ups)))
        return
    us, ut = ups[0]
    row = ['%s[%s, :]' % (nf, TN), '%s[%s]' % (nf, TN)]
    nb_forms = ['np.where(0 < %s)[0]' % r for r in row] + ['np.nonzero(0 < %s)[0]' % r for r in row]
    idx = canon(fi.expand(ut.slice, strict=False))
    val_src = us.value
    upd_names = set()
    if isinstance(idx, ast.Name) and isinstance(ut.slice, ast.Name):
        # the index set is a name with two definitions, one of which is provably EMPTY (stores / extends with an empty index
        # set are no-ops): the update is decided on the other definition
        live = _nonempty_def(mod, fi, ut.slice, loop)
        if live is not None:
            site, lv = live
            upd_names.add(ut.slice.id)
            idx = canon(fi.expand(lv, strict=False))
            if isinstance(us.value, ast.Name) and fi.defs_of_use(us.value) == fi.defs_of_use(ut.slice) and fi.def_value(site, us.value.id) is not None:
                val_src = fi.def_value(site, us.value.id)
    if not isinstance(idx, ast.Subscript):
        ck.missing(rule + '.neighbors', 'index of the bottleneck update is not <neighbours>[<selection>]: %s' % u(idx)[:120])
        return
    v = classify(idx.value, nb_forms, scope={nf, TN})
    if v[0] == 'match':
        v = ('match', {'_SEL': idx.slice})
    ck.decide(v, rule + '.neighbors', mod, us, F, fi.xu(ut.slice, strict=False),
              'edges are exactly the strictly positive entries of the row of the expanded node',
              'the updated states must be (a selection of) the entries of net_flux[test_node, :] that are > 0: a tolerance test '
              '(isclose) hides small positive fluxes, >= 0 follows non-edges, a column slice walks edges backwards')
    if v[0] != 'match':
        return
    NBX = u(canon(idx.value))                       # canonical text of the neighbour index set
    _reach(ck, mod, fi, rule, F, loop, us, NBX, V, sinks, MF, TN, upd={fi.xu(ut.slice, strict=False), u(idx)} | upd_names, clears=clears)
    sel = v[1]['_SEL']
    # the relaxed values: `<val>` = NF[<sel>] where NF is the clipped edge-flux array
    val = fi.expand(val_src, strict=False)
    # `MF[I] = np.maximum(MF[I], <cand>)`: the label keeps the better of old and new value whatever the selection says
    # (keep-better store).  The LABELS are then right also without the strict-improvement test in the selection - but
    # everything else written under the same index set (predecessor, frontier) is then written for neighbours that did
    # not improve: judged at the predecessor store below.
    keep_better = False
    if isinstance(val, ast.Call) and call_name(val) in ('np.maximum', 'np.fmax') and len(val.args) == 2 and not val.keywords:
        old_ = [a for a in val.args if isinstance(a, ast.Subscript) and isinstance(a.value, ast.Name) and a.value.id == MF and u(canon(a.slice)) == u(idx)]
        new_ = [a for a in val.args if a not in old_]
        if len(old_) == 1 and len(new_) == 1:
            keep_better = True
            val = new_[0]
    if not (isinstance(val, ast.Subscript) and isinstance(val.value, ast.Name) and u(canon(val.slice)) == u(canon(sel))):
        ck.missing(rule + '.update', 'value stored into %s is not <relaxed fluxes>[<same selection>]: %s' % (MF, u(val)[:120]))
        return
    NF = val.value.id
    mask = sel.args[0] if isinstance(sel, ast.Call) and call_name(sel) in ('np.where', 'np.nonzero') and sel.args else sel
    atoms = _and_atoms(mask)
    strict = C('%s[%s] < %s' % (MF, NBX, NF))
    notvis = {C('1 - %s[%s]' % (V, NBX)), C('~%s[%s]' % (V, NBX)), C('%s[%s] == 0' % (V, NBX)), C('np.logical_not(%s[%s])' % (V, NBX)), C('%s[%s] == False' % (V, NBX))}
    texts = [u(a) for a in atoms]
    rest = [t for t in texts if t != strict and t not in notvis]
    improve_deferred = False
    if strict in texts and not rest:
        ck.ok(rule + '.improve', mod, us, u(mask), 'a neighbour is updated only if its bottleneck strictly improves (and it is not finalised)')
    elif keep_better and not rest and C('%s[%s] <= %s' % (MF, NBX, NF)) not in texts:
        # the selection is (at most) "not finalised"; the keep-better store makes that harmless for the label itself
        improve_deferred = True
    else:
        v = classify(mask, ['1 - %s[%s] & (%s[%s] < %s)' % (V, NBX, MF, NBX, NF), '~%s[%s] & (%s[%s] < %s)' % (V, NBX, MF, NBX, NF), '%s[%s] < %s' % (MF, NBX, NF)], scope={V, MF, NF, nf, TN})
        if v[0] == 'match':
            v = ('far', 0, None)
        ck.decide(v, rule + '.improve', mod, us, F, u(mask)[:200], '',
                  'the update set must be the neighbours with new_fluxes > min_fluxes[neighbors] (strict): '
                  '< picks worse paths, >= re-queues nodes forever on ties')
    # relaxed fluxes: NF = net_flux[TN, NB] (copy), clipped to MF[TN]
    nfd = [s for s in assigns_to(loop, NF) if isinstance(s, ast.Assign)]
    edge = ['%s[%s, %s]%s' % (nf, TN, NBX, sfx) for sfx in ('.flatten()', '.copy()', '', '.ravel()')] + ['np.array(%s[%s, %s])' % (nf, TN, NBX)]
    clip_fun = ['np.minimum(%s, %s[%s])' % (e, MF, TN) for e in edge] + ['np.fmin(%s, %s[%s])' % (e, MF, TN) for e in edge] + \
               ['np.minimum(%s[%s], %s)' % (MF, TN, e) for e in edge]
    clip = [(s, t) for s, t in subscript_stores(loop, NF)]
    if len(nfd) == 1 and classify(fi.expand(nfd[0].value), clip_fun)[0] == 'match' and not clip:
        ck.ok(rule + '.relax', mod, nfd[0], u(nfd[0]), 'candidate = min(edge flux, upstream bottleneck)')
    elif len(nfd) >= 1:
        v = classify(fi.expand(nfd[0].value), edge, scope={nf, TN, MF})
        ck.decide(v, rule + '.relax', mod, nfd[0], F, u(nfd[0]), 'candidate value = flux of the edge test_node -> neighbour', 'new_fluxes must be net_flux[test_node, neighbors]')
        if len(clip) == 1:
            cs, ct = clip[0]
            m = ct.slice
            m = m.args[0] if isinstance(m, ast.Call) and call_name(m) in ('np.where', 'np.nonzero') and m.args else m
            v = classify(ast.Tuple(elts=[fi.expand(m), fi.expand(cs.value)], ctx=ast.Load()), ['(%s[%s] < %s, %s[%s])' % (MF, TN, NF, MF, TN)], scope={MF, TN, NF})
            ck.decide(v, rule + '.relax', mod, cs, F, u(cs), 'path bottleneck = min(edge flux, upstream bottleneck)',
                      'the candidate must be clipped to the bottleneck of the path so far: min(edge flux, min_fluxes[test_node])')
        else:
            alt = [s for s in nfd[1:] if classify(fi.expand(s.value), ['np.minimum(%s, %s[%s])' % (NF, MF, TN), 'np.fmin(%s, %s[%s])' % (NF, MF, TN),
                                                                       'np.minimum(%s[%s], %s)' % (MF, TN, NF)])[0] == 'match']
            if alt:
                ck.ok(rule + '.relax', mod, alt[0], u(alt[0]), 'candidate clipped to the upstream bottleneck')
            else:
                ck.missing(rule + '.relax', 'clip of %s to %s[%s] not recognised' % (NF, MF, TN))
    else:
        ck.missing(rule + '.relax', 'definition of the relaxed flux array %s' % NF)
    # predecessor written for the same index set; queue extended by it
    idx_t = fi.xu(ut.slice, strict=False)
    pn = [(s, t) for s, t in subscript_stores(loop) if t is not ut and fi.xu(t.slice, strict=False) == idx_t and fi.xu(s.value) == TN]
    if len(pn) == 1 and isinstance(pn[0][1].value, ast.Name):
        PN = pn[0][1].value.id
        ck.ok(rule + '.update', mod, pn[0][0], u(pn[0][0]), 'bottleneck and predecessor are written together for the same neighbours')
        if improve_deferred:
            ck.bad(rule + '.improve', mod, pn[0][0], F, u(pn[0][0]),
                   'the predecessor of a neighbour may only be overwritten when the route through the expanded node strictly IMPROVES its bottleneck. Here the '
                   'label keeps the better value by itself (`%s`) and the index set `%s` no longer contains the test %s[<neighbours>] < <candidate>: the '
                   'predecessor store `%s` under that same index set runs for every open neighbour, also when the route through %s is WORSE than the one '
                   'recorded - the back-traced path then runs through a narrower edge than the reported flux' % (
                       u(us)[:120], u(mask)[:80], MF, u(pn[0][0]), TN))
    elif improve_deferred:
        PN = None
        ck.missing(rule + '.improve', 'keep-better store `%s` with a selection that does not test the improvement: the predecessor store is not written under the '
                   'same index set and its own index set is not modelled' % u(us)[:100])
    else:
        PN = None
        other = [(s, t) for s, t in subscript_stores(loop) if t is not ut and fi.xu(s.value) == TN]
        if other:
            ck.bad(rule + '.update', mod, other[0][0], F, u(other[0][0]),
                   'the predecessor store `%s` uses a different index set than the bottleneck store `%s`: '
                   'the reported path then does not realise the reported flux' % (u(other[0][0]), u(us)))
        else:
            ck.missing(rule + '.update', 'predecessor store `<prev>[<same index set>] = %s` not found' % TN)
    ext = [c for c in calls_in(loop) if isinstance(c.func, ast.Attribute) and c.func.attr == 'extend' and u(c.func.value) == Q]
    if heap is not None:
        _heap_pushes(ck, mod, fi, rule, F, heap, loop, us, idx_t, V)
    elif len(ext) == 1 and len(ext[0].args) == 1 and not ext[0].keywords:
        # what joins the frontier, expanded at the extension; a name with two definitions one of which is provably empty
        # (extending by nothing is a no-op) is judged on the other one, expanded where that definition stands
        ea = ext[0].args[0]
        eax = canon(fi.expand(ea, strict=False))
        if isinstance(eax, ast.Name) and isinstance(ea, ast.Name):
            live = _nonempty_def(mod, fi, ea, loop)
            if live is not None:
                eax = canon(fi.expand(live[1], strict=False))
        same = u(eax) in (idx_t, u(idx))
        v = ('match', {}) if same else classify(eax, [idx_t], scope={nf, TN, V, MF, NF})
        ck.decide(v, rule + '.update', mod, ext[0], F, u(ext[0]), 'improved neighbours join the frontier',
                  'the queue must be extended by exactly the updated neighbours (%s)' % idx_t[:80])
    else:
        ck.missing(rule + '.update', '`%s.extend(<updated neighbours>)` in the search loop' % Q)
    if PN is not None:
        pn0 = init_of(PN)
        if pn0 is None:
            ck.missing(rule + '.init', 'initialisation of %s' % PN)
        else:
            v = classify(fi.expand(pn0.value), ['np.ones(_N).astype(int) * -1', 'np.full(_N, -1, dtype=int)', 'np.full(_N, -1)', '-np.ones(_N, dtype=int)',
                                                '-1 * np.ones(_N, dtype=int)', 'np.ones(_N, dtype=int) * -1', 'np.zeros(_N, dtype=int) - 1', '-np.ones(_N).astype(int)'], scope={nf, sources, sinks})
            ck.decide(v, rule + '.init', mod, pn0, F, u(pn0), 'predecessor sentinel -1', 'the predecessor array must start at -1')

    # --- reconstruction and reported flux
    r = returns_of(fn)
    if len(r) != 1 or not isinstance(r[0].value, ast.Tuple) or len(r[0].value.elts) != 2:
        ck.missing(rule + '.report', 'single `return <path>, <flux>`')
        return
    rp, rf = r[0].value.elts
    _report(ck, mod, fn, fi, loop, r[0], rp, rf, sinks, MF, PN, TN, clears=clears)


_EMPTY_ARRAYS = ('np.array([])', '[]', 'np.empty(0)', 'np.zeros(0)', 'np.array([], dtype=int)', 'np.empty(0, dtype=int)', 'np.zeros(0, dtype=int)',
                 'np.array((), dtype=int)', 'np.array(())')


def _nonempty_def(mod, fi, name_node, within):
    """A Name use reached by exactly two plain definitions one of which binds a provably EMPTY array / list: its
    value is an empty constructor, or it is the expression X itself bound under a branch condition that says
    len(X) == 0 (X.size == 0, not len(X) ...).  Returns (site, value expression) of the OTHER definition - the
    only one under which an index set / extension by that name is not a no-op - else None."""
    try:
        defs = list(fi.defs_of_use(name_node))
    except Exception:
        return None
    if len(defs) != 2 or any(d in ('PARAM', 'UNBOUND') or not isinstance(d, ast.Assign) for d in defs):
        return None
    empties = {C(t) for t in _EMPTY_ARRAYS}

    def is_empty(site):
        v = fi.def_value(site, name_node.id)
        if v is None:
            return False
        if u(canon(v)) in empties:
            return True
        vx = fi.xu(v, strict=False)
        sizes = {'len(%s)' % vx, '%s.size' % vx, '%s.shape[0]' % vx}
        for a in _assumes(fi, mod, site, within):
            for at in conjuncts(a.test, a.polarity) or []:
                if isinstance(at, Cmp):
                    l, r = fi.xu(at.lhs, strict=False), fi.xu(at.rhs, strict=False)
                    c = at if l in sizes else at.flipped() if r in sizes else None
                    k = const_value(c.rhs) if c is not None else None
                    if c is not None and type(k) is int and ((c.op in (ast.Eq, ast.LtE) and k == 0) or (c.op is ast.Lt and k == 1)):
                        return True
                elif not at[2] and fi.xu(at[1], strict=False) in sizes:
                    return True
        return False
    flags = [is_empty(d) for d in defs]
    if flags.count(True) != 1:
        return None
    live = defs[flags.index(False)]
    v = fi.def_value(live, name_node.id)
    return (live, v) if v is not None else None


def _assumes(fi, mod, stmt, within=None):
    """Branch conditions known to hold whenever `stmt` executes: the synthetic
    Assume nodes of the CFG that dominate it (insensitive to guard-clause vs
    nested-if form), restricted to tests of ifs inside `within`."""
    return [a for a in fi.cfg.dom.get(stmt, ()) if isinstance(a, Assume) and (within is None or _inside(mod, a.owner, within))]


def _reach(ck, mod, fi, rule, F, loop, us, NBX, V, sinks, MF=None, TN=None, upd=(), clears=()):
    """The relaxation `us` must run for every popped node that has neighbours,
    as long as some sink is not finalised: every branch condition it depends
    on inside the search loop must be one of these two (in any spelling /
    nesting); the opposite condition is a violation."""
    sink_done = {C('%s[%s].all()' % (V, sinks)), C('%s[%s].any()' % (V, sinks)), C('all(%s[%s])' % (V, sinks)), C('any(%s[%s])' % (V, sinks))}
    count = {'len(%s)' % NBX, '%s.size' % NBX, '%s.shape[0]' % NBX}
    # (the set of nodes that ARE updated: skipping the update when it is empty skips a no-op)
    for x in upd:
        count |= {'len(%s)' % x, '%s.size' % x, '%s.shape[0]' % x}
    # the tentative labels: the bottleneck array and every array that records the expanded node (predecessor links)
    labels = {MF} if MF else set()
    if TN:
        labels |= {t.value.id for s, t in subscript_stores(loop) if isinstance(t.value, ast.Name) and fi.xu(s.value) == TN}
    labels -= {V}

    def labels_only(at):
        """The atom is a pure function of the tentative labels at the sinks and of nothing else (not of the
        finalised mask, the frontier or the node just expanded)."""
        from ..match import _closed_over
        es = [fi.expand(e, strict=False) for e in ((at.lhs, at.rhs) if isinstance(at, Cmp) else (at[1],))]
        names = set()
        for e in es:
            names |= names_loaded(e)
        return sinks in names and bool(names & labels) and all(_closed_over(e, labels | {sinks}) for e in es)
    def popped_sink(at):
        """True: the atom says that the node just popped - which is finalised by being popped - is one of the sinks
        (`<popped> in sinks`, np.isin(<popped>, sinks), (sinks == <popped>).any()); False: that it is none; else None."""
        if TN is None:
            return None
        tn = {TN, 'int(%s)' % TN}
        sk = {sinks, 'set(%s)' % sinks, 'list(%s)' % sinks, '%s.tolist()' % sinks, 'frozenset(%s)' % sinks}
        if isinstance(at, Cmp):
            if at.op in (ast.In, ast.NotIn) and fi.xu(at.lhs, strict=False) in tn and fi.xu(at.rhs, stop=(sinks,), strict=False) in sk:
                return at.op is ast.In
            return None
        _, e, pol = at
        t = fi.xu(e, stop=(sinks,), strict=False)
        forms = set()
        for x in tn:
            forms |= {C('np.isin(%s, %s)' % (x, sinks)), C('(%s == %s).any()' % (sinks, x)), C('(%s == %s).any()' % (x, sinks)),
                      C('np.in1d(%s, %s)' % (x, sinks)), C('any(%s == %s)' % (sinks, x))}
        return bool(pol) if t in forms else None
    for a in sorted(_assumes(fi, mod, us, loop), key=lambda a: a.lineno):
        atoms = conjuncts(a.test, a.polarity)
        txt = '%s%s' % ('' if a.polarity else 'not ', u(a.test))
        if atoms is None:
            ck.missing(rule + '.reach', 'condition `%s` under which the relaxation runs is not modelled' % txt[:100])
            continue
        for at in atoms:
            verdict = None          # True: harmless, False: opposite of a required condition
            ps = popped_sink(at)
            if ps is not None:
                # the relaxation may be skipped once a sink has been popped (a finalised sink), never because none has
                verdict = not ps
            elif isinstance(at, Cmp):
                l, r = fi.xu(at.lhs, strict=False), fi.xu(at.rhs, strict=False)
                c = at if l in count else at.flipped() if r in count else None
                k = const_value(c.rhs) if c is not None else None
                if c is not None and isinstance(k, int) and not isinstance(k, bool):
                    nonempty = (c.op is ast.Gt and k == 0) or (c.op is ast.NotEq and k == 0) or (c.op is ast.GtE and k == 1)
                    empty = (c.op is ast.Eq and k == 0) or (c.op is ast.LtE and k == 0) or (c.op is ast.Lt and k == 1)
                    verdict = True if nonempty else False if empty else None
            else:
                _, e, pol = at
                t = fi.xu(e, strict=False)
                if t in sink_done:
                    verdict = not pol
                elif t in count:
                    verdict = bool(pol)
            if verdict is None and labels_only(at):
                ck.bad(rule + '.reach', mod, a.owner, F, txt,
                       'whether the search goes on after expanding a node is decided from the tentative labels of the sinks alone (`%s`; labels: %s): a sink '
                       'that has merely been DISCOVERED (it has a predecessor / a bottleneck from the first relaxation that touched it) is not FINALISED - '
                       'frontier nodes that would still raise its bottleneck are never expanded, so the reported path need not have the largest bottleneck. '
                       'The search may only be cut short when a sink has been popped (`%s[%s]`)' % (txt[:100], ', '.join(sorted(labels)), V, sinks))
            elif verdict is None:
                ck.missing(rule + '.reach', 'condition `%s` under which the relaxation runs is not modelled' % txt[:100])
            else:
                ck.check(verdict, rule + '.reach', mod, a.owner, F, txt, 'relaxation runs for every expanded node with neighbours while a sink is not finalised',
                         'the relaxation `%s` only runs when `%s`: nodes that have outgoing flux (or every node until all sinks are finalised) are skipped, '
                         'their neighbours never receive a bottleneck' % (u(us)[:60], txt[:80]))
    # EVERY way out of the search loop other than its own test (break, return, a cleared loop flag): the search may be
    # abandoned only when a sink is known to be finalised.  The guard that was judged above as a condition of the
    # RELAXATION is not thereby a legitimate condition of an EXIT: `no neighbours` may skip the relaxation of the popped
    # node (a no-op), it must not end the search - the frontier still holds the other routes.  The condition of an exit
    # is the conjunction of the branch conditions that dominate it, each one a disjunction of conjunctions (_disjuncts);
    # it implies "a sink is finalised" iff some branch condition has such an atom in every disjunct.
    def atom_kind(at):
        ps = popped_sink(at)
        if ps is not None:
            return 'done' if ps else 'notdone'
        if isinstance(at, Cmp):
            l, r = fi.xu(at.lhs, strict=False), fi.xu(at.rhs, strict=False)
            c = at if l in count else at.flipped() if r in count else None
            k = const_value(c.rhs) if c is not None else None
            if c is not None and isinstance(k, int) and not isinstance(k, bool):
                if (c.op is ast.Gt and k == 0) or (c.op is ast.NotEq and k == 0) or (c.op is ast.GtE and k == 1):
                    return 'nonempty'
                if (c.op is ast.Eq and k == 0) or (c.op is ast.LtE and k == 0) or (c.op is ast.Lt and k == 1):
                    return 'empty'
        else:
            _, e, pol = at
            t = fi.xu(e, strict=False)
            if t in sink_done:
                return 'done' if pol else 'notdone'
            if t in count:
                return 'nonempty' if pol else 'empty'
        return 'labels' if labels_only(at) else None
    exits = [x for x in walk_local(loop) if (isinstance(x, ast.Break) and _loop_of(mod, x, None) is loop) or isinstance(x, ast.Return)]
    exits += [x for x in clears if x not in exits]
    for x in sorted(exits, key=lambda n: getattr(n, 'lineno', 0)):
        conds = _assumes(fi, mod, x, loop)
        txt = ' and '.join('%s%s' % ('' if a.polarity else 'not ', u(a.test)) for a in conds) or 'unconditionally'
        dnfs = [_disjuncts(a.test, a.polarity) for a in conds]
        kinds = [None if d is None else [[atom_kind(at) for at in conj] for conj in d] for d in dnfs]
        if any(k is not None and all('done' in conj for conj in k) for k in kinds):
            ck.ok(rule + '.reach', mod, x, txt, 'the search is cut short only after a sink has been finalised')
            continue
        # a way to this exit on which no test says that a sink is finalised: one such disjunct of every branch condition
        free = [None if k is None else [conj for conj in k if 'done' not in conj] for k in kinds]
        lab = any(k is not None and any('labels' in conj for conj in k) for k in free)
        known = [None if k is None else [conj for conj in k if all(a in ('empty', 'nonempty', 'notdone') for a in conj)] for k in free]
        witness = [k[0] for k in known if k] if all(known) else None
        flat = [a for conj in (witness or []) for a in conj]
        if lab:
            ck.bad(rule + '.reach', mod, x, F, txt,
                   'the search loop is left on a test of the tentative labels of the sinks alone (`%s`): a sink that has merely been DISCOVERED is not '
                   'FINALISED - frontier nodes that would still raise its bottleneck are never expanded. The search may only be cut short when a sink '
                   'has been popped (`%s[%s]`)' % (txt[:100], V, sinks))
        elif witness is not None and 'empty' in flat and 'nonempty' not in flat:
            ck.bad(rule + '.reach', mod, x, F, txt,
                   'the search loop is left (`%s`) when the node just expanded has no neighbour to relax (`%s`), without any sink being known as finalised: '
                   'an expanded node without outgoing positive flux is a dead end of ITS route only - the frontier still holds the nodes of the other routes, '
                   'which are never expanded, so a source-to-sink path that exists is not found (flux -inf, paths() stops) or the sink keeps a tentative, '
                   'smaller bottleneck. An empty neighbour set may skip the relaxation of that node (`continue`), it must not end the search; the only '
                   'early exit is `%s[%s]` all / any finalised' % (u(x)[:40], txt[:100], V, sinks))
        else:
            ck.missing(rule + '.reach', 'exit `%s` of the search loop under `%s` is not modelled' % (u(x)[:40], txt[:100]))


def _disjuncts(test, polarity=True, limit=16):
    """Disjunctive normal form of a boolean test under `polarity`: a list of conjunctions (each a list of atoms as
    returned by patterns.conjuncts); None if an operand cannot be split or the form grows beyond `limit` disjuncts."""
    c = conjuncts(test, polarity)
    if c is not None:
        return [c]
    if isinstance(test, ast.UnaryOp) and isinstance(test.op, ast.Not):
        return _disjuncts(test.operand, not polarity, limit)
    if not isinstance(test, ast.BoolOp):
        return None
    parts = [_disjuncts(v, polarity, limit) for v in test.values]
    if any(p is None for p in parts):
        return None
    if isinstance(test.op, ast.And) != polarity:            # a disjunction under this polarity
        out = [conj for p in parts for conj in p]
    else:                                                     # a conjunction one operand of which is a disjunction
        out = [[]]
        for p in parts:
            out = [a + b for a in out for b in p]
            if len(out) > limit:
                return None
    return out if len(out) <= limit else None


def _heap_frontier(ck, mod, fn, fi, rule, F):
    """Priority-queue variant of the frontier: `<node> = heapq.heappop(Q)[1]` in a
    while loop, entries `(-<bottleneck>[x], x)` pushed with heapq.heappush.  A
    binary heap has no decrease-key: the order of the pops follows the CURRENT
    bottlenecks only if every node whose bottleneck is raised is pushed again
    with its new priority (checked in _heap_pushes)."""
    hp = [(l, c) for l in walk_local(fn) if isinstance(l, ast.While)
          for c in calls_in(l) if call_name(c) in ('heapq.heappop', 'heappop') and len(c.args) == 1 and isinstance(c.args[0], ast.Name)]
    if not hp:
        ck.missing(rule + '.pop', 'no `<queue>.pop(...)` / `heapq.heappop(<queue>)` inside a while loop in top_path: search loop not recognised')
        return None
    loop, pop = hp[0]
    Q = pop.args[0].id
    pst = fi.stmt(pop)
    TN = None
    if isinstance(pst, ast.Assign) and len(pst.targets) == 1:
        t, val = pst.targets[0], pst.value
        if isinstance(val, ast.Call) and call_name(val) == 'int' and len(val.args) == 1:
            val = val.args[0]
        if isinstance(t, ast.Name) and isinstance(val, ast.Subscript) and val.value is pop and const_value(val.slice) in (1, -1):
            TN = t.id
        elif isinstance(t, ast.Tuple) and len(t.elts) == 2 and isinstance(t.elts[1], ast.Name) and val is pop:
            TN = t.elts[1].id
    if TN is None:
        ck.missing(rule + '.pop', 'node component of the popped heap entry `%s` is not bound to a name' % u(pst)[:80])
        return None
    pushes = [c for c in calls_in(loop) if call_name(c) in ('heapq.heappush', 'heappush') and len(c.args) == 2 and u(c.args[0]) == Q]
    if not pushes or any(not (isinstance(c.args[1], ast.Tuple) and len(c.args[1].elts) == 2) for c in pushes):
        ck.missing(rule + '.pop', '`heapq.heappush(%s, (<priority>, <node>))` in the search loop' % Q)
        return None
    MF = None
    for c in pushes:
        prio, node = c.args[1].elts
        if isinstance(node, ast.Call) and call_name(node) == 'int' and len(node.args) == 1:
            node = node.args[0]
        nx = fi.xu(node)
        v = classify(fi.expand(prio), ['-_MF[%s]' % nx, '-1 * _MF[%s]' % nx, '-float(_MF[%s])' % nx])
        if v[0] != 'match':
            v2 = classify(fi.expand(prio), ['_MF[%s]' % nx, 'float(_MF[%s])' % nx])
            if v2[0] == 'match':
                ck.bad(rule + '.pop', mod, c, F, u(c), 'heapq is a MIN-heap: with priority %s the node with the SMALLEST bottleneck is expanded first; '
                       'the priority must be minus the bottleneck (widest-path Dijkstra expands the largest)' % u(prio))
            else:
                ck.missing(rule + '.pop', 'priority of `%s` is not minus the bottleneck of the pushed node' % u(c)[:100])
            return None
        if not isinstance(v[1]['_MF'], ast.Name) or (MF is not None and v[1]['_MF'].id != MF):
            ck.missing(rule + '.pop', 'bottleneck array in the priority of `%s`' % u(c)[:100])
            return None
        MF = v[1]['_MF'].id
    return {'loop': loop, 'Q': Q, 'MF': MF, 'TN': TN, 'pushes': pushes, 'pop': pop}


def _heap_pushes(ck, mod, fi, rule, F, heap, loop, us, idx_t, V):
    """Every node whose bottleneck was raised by the update store `us` (index
    set idx_t) must be pushed with its NEW priority."""
    if len(heap['pushes']) != 1:
        ck.missing(rule + '.pop', 'exactly one heappush in the search loop (found %d)' % len(heap['pushes']))
        return
    c = heap['pushes'][0]
    ps = fi.stmt(c)
    fl = mod.parent.get(ps)
    node = c.args[1].elts[1]
    if isinstance(node, ast.Call) and call_name(node) == 'int' and len(node.args) == 1:
        node = node.args[0]
    if not (isinstance(fl, ast.For) and isinstance(fl.target, ast.Name) and isinstance(node, ast.Name) and node.id == fl.target.id
            and ps in fl.body and _every_iteration(mod, ps, fl) and not fl.orelse and _inside(mod, fl, loop)):
        ck.missing(rule + '.pop', 'the push `%s` is not the body of a `for <node> in <updated nodes>` loop' % u(c)[:100])
        return
    if not fi.cfg.dominates(us, fl):
        if fi.cfg.dominates(fl, us) and not fi.cfg.reachable(us, fl, avoiding=[loop]):
            ck.bad(rule + '.pop', mod, fl, F, u(fl.iter), 'nodes are pushed before their bottleneck is updated: the heap priority is the OLD bottleneck')
        else:
            ck.missing(rule + '.pop', 'the pushes do not follow the bottleneck update on every path')
        return
    it = canon(fi.expand(fl.iter, strict=False))
    if u(it) == idx_t:
        ck.ok(rule + '.pop', mod, fl, u(fl.iter), 'every improved neighbour is pushed with its new priority: pops follow the current bottlenecks (stale entries are harmless)')
        return
    if isinstance(it, ast.Subscript) and u(it.value) == idx_t:
        m = it.slice
        m = m.args[0] if isinstance(m, ast.Call) and call_name(m) in ('np.where', 'np.nonzero') and m.args else m
        vm = classify(m, ['~_A[%s]' % idx_t, '_A[%s] == 0' % idx_t, '_A[%s] == False' % idx_t, 'np.logical_not(_A[%s])' % idx_t, '1 - _A[%s]' % idx_t,
                          'np.where(~_A[%s])' % idx_t])
        if vm[0] == 'match' and isinstance(vm[1]['_A'], ast.Name) and vm[1]['_A'].id != V:
            A = vm[1]['_A'].id
            marks = [s for s, t in subscript_stores(loop, A) if const_value(s.value) is True and fi.xu(t.slice, strict=False) in (idx_t, u(it))]
            if marks:
                ck.bad(rule + '.pop', mod, fl, F, u(fl.iter)[:200],
                       'only neighbours not yet marked in `%s` are pushed, but `%s` raises the bottleneck of ALL of %s: a node that is already in the heap keeps its '
                       'old (smaller) priority - a binary heap has no decrease-key - so it is popped later than its current bottleneck demands and other nodes '
                       '(sinks included) are finalised first with sub-optimal bottlenecks. The frontier node expanded next is then no longer the one with the '
                       'LARGEST bottleneck; every improved node must be pushed again with its new priority' % (A, u(us), idx_t[:60]))
                return
    ck.missing(rule + '.pop', 'set of pushed nodes `%s` is not recognised as the set of updated neighbours `%s`' % (u(fl.iter)[:100], idx_t[:80]))


def _report(ck, mod, fn, fi, loop, ret, rp, rf, sinks, MF, PN, TN=None, clears=()):
    """Reconstruction of the path and the reported flux.  The path list P is
    "the list the returned array is built from"; how it grows (append =
    collected sink->source, insert(0, .) = built source->sink) fixes where the
    walking head and the chosen sink sit and whether the return value has to
    be reversed.  The back-trace loop is recognised modulo naming and loop
    rotation (the link read once into a loop-carried name): test and pushed
    value are compared after pexpand()."""
    rule = 'C17.D2.search'
    F = 'top_path'
    best = ['int(%s[%s[%s].argmax()])' % (sinks, MF, sinks), '%s[%s[%s].argmax()]' % (sinks, MF, sinks)]
    rev_forms = ['np.array(_P[::-1])', 'np.asarray(_P[::-1])', 'np.array(list(reversed(_P)))', 'np.array(_P)[::-1]', 'np.asarray(_P)[::-1]',
                 'np.flip(np.array(_P))']
    fwd_forms = ['np.array(_P)', 'np.asarray(_P)', 'np.array(list(_P))']
    rpx = fi.expand(rp)
    vr, vf = classify(rpx, rev_forms, near=2), classify(rpx, fwd_forms, near=1)
    vb = vr if vr[0] == 'match' else vf
    if vb[0] != 'match' or not isinstance(vb[1]['_P'], ast.Name):
        ck.decide(vr if vr[0] != 'match' else 'far', rule + '.report', mod, ret, F, u(ret), '',
                  'the path collected sink->source must be returned reversed (source->sink)')
        return
    ret_reversed = vr[0] == 'match'
    P = vb[1]['_P'].id

    # every in-place change of the path list must be a recognised growth step
    grows = []
    for s in fi._mutated_in_place(P):
        g = _grow_call(s, P)
        if g is None:
            ck.missing(rule + '.report', 'statement `%s` changes the path list %s in a way the rule does not model' % (u(s)[:100], P))
            return
        grows.append((s,) + g)
    p0s = [d for d in fi.rd.defs_at(ret, P)]
    if len(p0s) != 1 or not isinstance(p0s[0], ast.Assign):
        ck.missing(rule + '.report', 'single initialisation of the path list %s' % P)
        return
    p0 = p0s[0]
    seeds = [g for g in grows if not _in_loop(mod, g[0], fn)]
    steps = [g for g in grows if _in_loop(mod, g[0], fn)]
    first_expr, first_at = None, p0
    if isinstance(p0.value, ast.List) and len(p0.value.elts) == 1 and not seeds:
        first_expr = p0.value.elts[0]
    elif (isinstance(p0.value, ast.List) and not p0.value.elts or u(p0.value) == 'list()') and len(seeds) == 1 \
            and fi.cfg.dominates(p0, seeds[0][0]):
        first_expr, first_at = seeds[0][2], seeds[0][0]
    if first_expr is None:
        ck.missing(rule + '.report', 'first element (chosen sink) of the path list %s' % P)
        return
    fx = fi.expand(first_expr, stop=(sinks,))
    v = classify(fx, best, scope={sinks, MF})
    if v[0] != 'match' and TN is not None and _ends_at_popped_node(ck, mod, fi, loop, first_expr, fx, first_at, TN, sinks, MF, rule, F, clears=clears):
        return
    ck.decide(v, rule + '.report', mod, first_at, F, u(first_expr), 'the sink with the largest bottleneck ends the path',
              'the path must end at sinks[argmax(min_fluxes[sinks])]')

    back = [l for l in walk_local(fn) if isinstance(l, ast.While) and l is not loop and any(_inside(mod, g[0], l) for g in steps)]
    if len(back) != 1 or len(steps) != 1 or not fi.cfg.dominates(first_at, back[0]):
        ck.missing(rule + '.report', 'back-trace: exactly one while loop that extends the path list %s by one node per iteration '
                   '(`while <prev>[%s[-1]] != -1: %s.append(<prev>[%s[-1]])` or its prepending / rotated forms) not recognised' % (P, P, P, P))
        return
    b, (gs, mode, garg) = back[0], steps[0]
    head, sinkpos = ('%s[-1]' % P, '%s[0]' % P) if mode == 'append' else ('%s[0]' % P, '%s[-1]' % P)
    if ret_reversed != (mode == 'append'):
        ck.bad(rule + '.report', mod, ret, F, u(ret), 'the path list is %s but returned %s: states must be reported source -> sink' % (
            'collected sink->source (append)' if mode == 'append' else 'built source->sink (insert(0, .))',
            'reversed' if ret_reversed else 'as collected'))
        return
    flux_ok = classify(fi.expand(rf, stop=(sinks,)), ['%s[%s]' % (MF, sinkpos)] + ['%s[%s]' % (MF, x) for x in best], scope={MF, P, sinks})
    ck.decide(flux_ok, rule + '.report', mod, ret, F, u(rf), 'flux = bottleneck recorded at the chosen sink',
              'the reported flux must be min_fluxes at the chosen sink (the sink end of the path list)')
    # loop test and pushed value: both must be the predecessor link of the current head
    test = pexpand(fi, b.test)

    def test_forms(h):
        return ['_PN[%s] != -1' % h, '-1 != _PN[%s]' % h, '0 <= _PN[%s]' % h, '-1 < _PN[%s]' % h]
    vt = classify(test, test_forms(head), scope={P} | ({PN} if PN else set()))
    if vt[0] != 'match':
        # the walking head may be a loop-carried NAME that equals <list>[head position] at every loop test
        ch = _carried_head(mod, fi, b, P, gs, garg, first_expr, first_at, sinks, test_forms)
        if ch is not None:
            PNb, H, step = ch
            if PN is not None and PNb != PN:
                ck.bad(rule + '.report', mod, b, F, u(b.test), 'the back-trace follows `%s` but the search records predecessors in `%s`' % (PNb, PN))
                return
            if [s for s in fi._mutated_in_place(PNb) if _inside(mod, s, b)]:
                ck.missing(rule + '.report', 'the predecessor array %s is modified inside the back-trace loop' % PNb)
                return
            ck.ok(rule + '.report', mod, b, u(b.test), 'back-trace runs until the head `%s` (= %s at every test) has no predecessor (sentinel -1)' % (H, head))
            ck.ok(rule + '.report', mod, step, u(step), 'path rebuilt by following predecessor links to a source: the head moves to its predecessor, which is added to the list')
            return
        cl = _carried_link(mod, fi, b, P, gs, mode, garg, first_expr, sinks)
        if cl is not None:
            PNb, L, step = cl
            if PN is not None and PNb != PN:
                ck.bad(rule + '.report', mod, b, F, u(b.test), 'the back-trace follows `%s` but the search records predecessors in `%s`' % (PNb, PN))
                return
            if [s for s in fi._mutated_in_place(PNb) if _inside(mod, s, b)]:
                ck.missing(rule + '.report', 'the predecessor array %s is modified inside the back-trace loop' % PNb)
                return
            ck.ok(rule + '.report', mod, b, u(b.test), 'back-trace runs until the carried link `%s` (= %s[%s] at every test) is the sentinel -1' % (L, PNb, head))
            ck.ok(rule + '.report', mod, step, u(step), 'path rebuilt by following predecessor links to a source: the tested link is added to the list and then advanced')
            return
    if vt[0] != 'match' or not isinstance(vt[1]['_PN'], ast.Name):
        ck.decide(vt if vt[0] != 'match' else 'far', rule + '.report', mod, b, F, u(b.test), '',
                  'the back-trace must run while the predecessor of the current head (%s) is not the sentinel -1' % head)
        return
    PNb = vt[1]['_PN'].id
    if PN is not None and PNb != PN:
        ck.bad(rule + '.report', mod, b, F, u(b.test), 'the back-trace follows `%s` but the search records predecessors in `%s`' % (PNb, PN))
        return
    others = [s for s in fi._mutated_in_place(PNb) if _inside(mod, s, b)]
    if others:
        ck.missing(rule + '.report', 'the predecessor array %s is modified inside the back-trace loop' % PNb)
        return
    ck.ok(rule + '.report', mod, b, u(b.test), 'back-trace runs until the head has no predecessor (sentinel -1)')
    vg = classify(pexpand(fi, garg), ['%s[%s]' % (PNb, head), 'int(%s[%s])' % (PNb, head)], scope={PNb, P})
    ck.decide(vg, rule + '.report', mod, gs, F, u(gs), 'path rebuilt by following predecessor links to a source',
              'each step must add the predecessor of the current head: %s[%s]' % (PNb, head))
    # the pushed value is the link that was tested: no step in between may move the head
    if vg[0] == 'match' and not _every_iteration(mod, gs, b):
        ck.missing(rule + '.report', 'the growth step `%s` is conditional inside the back-trace loop' % u(gs))


def _ends_at_popped_node(ck, mod, fi, loop, first_expr, fx, first_at, TN, sinks, MF, rule, F, clears=()):
    """WRONG OPERAND in the role "end of the path": the node the search loop popped last instead of the best sink.
    The popped node is a sink only on the ways out of the loop that test it (a `break` under `<popped> in sinks`);
    the loop also ends through its own test when the frontier is exhausted - no sink reachable from the sources -
    and the node popped last is then whatever had the smallest bottleneck.  If the statement that seeds the path
    can be reached from the loop test without passing a `break`, and no branch condition on the way there looks at
    the popped node / the sinks / the labels, the path can end in a non-sink state (with a finite reported flux,
    where -inf is what tells paths() that no pathway is left): VIOLATION.  With such a condition in between the rule
    does not decide (incomplete).  Returns True if it reported something."""
    e = fx
    while isinstance(e, ast.Call) and call_name(e) == 'int' and len(e.args) == 1 and not e.keywords:
        e = e.args[0]
    if not (isinstance(e, ast.Name) and e.id == TN):
        return False
    if _inside(mod, first_at, loop):
        return False
    breaks = [x for x in walk_local(loop) if isinstance(x, ast.Break) and _loop_of(mod, x, None) is loop]
    if clears or not fi.cfg.reachable(loop, first_at, avoiding=breaks):
        # (a cleared loop flag leaves through the loop test: the CFG cannot tell that way out from an exhausted frontier)
        ck.missing(rule + '.report', 'the path ends at the node popped last (`%s`), reached only through a break of the search loop: '
                   'whether that node is the sink with the largest bottleneck is not decided' % u(first_expr))
        return True
    watched = {TN, sinks, MF}
    conds = [a for a in fi.cfg.dom.get(first_at, ()) if isinstance(a, Assume) and not _inside(mod, a.owner, loop)
             and (names_loaded(a.test) & watched or any(isinstance(c, ast.Call) for c in ast.walk(a.test)))]
    if conds:
        ck.missing(rule + '.report', 'the path ends at the node popped last (`%s`) under the condition `%s`: whether that excludes an '
                   'exhausted frontier is not decided' % (u(first_expr), u(conds[0].test)[:80]))
        return True
    ck.bad(rule + '.report', mod, first_at, F, u(first_expr),
           'the path is made to end at `%s`, the node the search loop popped LAST, instead of %s[argmax(%s[%s])]: that node is a sink only '
           'when the loop was left on a test of it; the loop `while %s` also ends when the frontier is exhausted (no sink can be reached from '
           'the sources) and `%s` is reached from there without any test - the node popped last is then an arbitrary non-sink state, the '
           'returned "pathway" does not end in a sink and its flux is finite where -inf must tell paths() that no pathway is left' % (
               u(first_expr), sinks, MF, sinks, u(loop.test)[:40], u(first_at)[:60]))
    return True


def _carried_head(mod, fi, b, P, gs, garg, first_expr, first_at, sinks, test_forms):
    """Back-trace whose walking head is a loop-carried name H instead of <list>[-1] / <list>[0]:

        H = <first element of the list>            (before the loop)
        while <prev>[H] != -1:
            H = <prev>[H]; <list>.append(H)        (or: <list>.append(<prev>[H]); H = <prev>[H])

    Invariant at every evaluation of the loop test: H is the element added last (the head of the list), because
    H has exactly these two definitions, both steps are unconditional top-level statements of the body, and the
    element added in an iteration is the new H.  Returns (<prev> name, H, step statement) or None."""
    from ..match import match
    hit = None
    for f in test_forms('_H'):
        bd = match(f, b.test)
        if bd is not None and isinstance(bd.get('_H'), ast.Name) and isinstance(bd.get('_PN'), ast.Name):
            hit = bd
            break
    if hit is None:
        return None
    H, PNb = hit['_H'].id, hit['_PN'].id
    Hn = [n for n in walk_expr(b.test) if isinstance(n, ast.Name) and n.id == H][0]      # (match() binds canonical copies)
    if H in (P, PNb) or fi._mutated_in_place(H):
        return None
    defs = fi.defs_of_use(Hn)
    inner = [s for s in assigns_to(b, H)]
    if len(defs) != 2 or len(inner) != 1 or inner[0] not in defs:
        return None
    step = inner[0]
    init = [d for d in defs if d is not step][0]
    if init in ('PARAM', 'UNBOUND') or not isinstance(init, ast.Assign) or _inside(mod, init, b) or not fi.cfg.dominates(init, b):
        return None
    v0 = fi.def_value(init, H)
    if v0 is None or fi.xu(v0, stop=(sinks,)) != fi.xu(first_expr, stop=(sinks,)):
        return None
    if not (isinstance(step, ast.Assign) and len(step.targets) == 1 and isinstance(step.targets[0], ast.Name)):
        return None
    link = ['%s[%s]' % (PNb, H), 'int(%s[%s])' % (PNb, H)]
    if classify(step.value, link)[0] != 'match':
        return None
    if step not in b.body or gs not in b.body or not _every_iteration(mod, step, b) or not _every_iteration(mod, gs, b) or b.orelse:
        return None
    i_step, i_gs = b.body.index(step), b.body.index(gs)
    if i_step < i_gs:
        ok = isinstance(garg, ast.Name) and garg.id == H or (
            isinstance(garg, ast.Call) and call_name(garg) == 'int' and len(garg.args) == 1 and isinstance(garg.args[0], ast.Name) and garg.args[0].id == H)
    else:
        ok = classify(garg, link)[0] == 'match'
    return (PNb, H, step) if ok else None


def _carried_link(mod, fi, b, P, gs, mode, garg, first_expr, sinks):
    """Back-trace whose loop-carried name L is the predecessor LINK of the head, not the head:

        L = <prev>[<first element of the list>]     (before the loop)
        while L != -1:
            <list>.append(L); L = <prev>[L]         (growth first, then the advance)

    Invariant at every evaluation of the loop test: L == <prev>[head of the list] - it holds at entry by the
    initialisation, and an iteration makes the old L the head and the new L its predecessor.  L has exactly these
    two definitions; both statements are unconditional top-level statements of the body, growth before advance.
    Returns (<prev> name, L, advance statement) or None."""
    from ..match import match
    hit = None
    for f in ('_L != -1', '-1 != _L', '0 <= _L', '-1 < _L', '_L >= 0', '_L > -1'):
        bd = match(f, b.test)
        if bd is not None and isinstance(bd.get('_L'), ast.Name):
            hit = bd
            break
    if hit is None:
        return None
    L = hit['_L'].id
    Ln = [n for n in walk_expr(b.test) if isinstance(n, ast.Name) and n.id == L][0]
    if L == P or fi._mutated_in_place(L):
        return None
    defs = fi.defs_of_use(Ln)
    inner = [s for s in assigns_to(b, L)]
    if len(defs) != 2 or len(inner) != 1 or inner[0] not in defs:
        return None
    step = inner[0]
    init = [d for d in defs if d is not step][0]
    if init in ('PARAM', 'UNBOUND') or not isinstance(init, ast.Assign) or _inside(mod, init, b) or not fi.cfg.dominates(init, b):
        return None

    def link_of(e):
        if isinstance(e, ast.Call) and call_name(e) == 'int' and len(e.args) == 1 and not e.keywords:
            e = e.args[0]
        if isinstance(e, ast.Subscript) and isinstance(e.value, ast.Name):
            return e.value.id, e.slice
        return None
    v0 = fi.def_value(init, L)
    l0 = link_of(v0) if v0 is not None else None
    if l0 is None or fi.xu(l0[1], stop=(sinks,)) != fi.xu(first_expr, stop=(sinks,)):
        return None
    PNb = l0[0]
    if PNb in (L, P):
        return None
    if not (isinstance(step, ast.Assign) and len(step.targets) == 1 and isinstance(step.targets[0], ast.Name)):
        return None
    l1 = link_of(step.value)
    if l1 is None or l1[0] != PNb or not (isinstance(l1[1], ast.Name) and l1[1].id == L):
        return None
    if step not in b.body or gs not in b.body or not _every_iteration(mod, step, b) or not _every_iteration(mod, gs, b) or b.orelse:
        return None
    if b.body.index(gs) > b.body.index(step):
        return None
    # nothing between initialisation and loop, or between growth and advance, may rebind the list head
    ok = isinstance(garg, ast.Name) and garg.id == L or (
        isinstance(garg, ast.Call) and call_name(garg) == 'int' and len(garg.args) == 1 and isinstance(garg.args[0], ast.Name) and garg.args[0].id == L)
    return (PNb, L, step) if ok else None


def _every_iteration(mod, stmt, loop):
    """stmt is a top-level statement of the loop body and no break/continue/return precedes it there."""
    if stmt not in loop.body:
        return False
    for s in loop.body[:loop.body.index(stmt)]:
        for x in ast.walk(s):
            if isinstance(x, (ast.Break, ast.Continue, ast.Return, ast.Raise)):
                return False
    return True


def _grow_call(s, P):
    """('append'|'prepend', pushed expression) for `P.append(x)` / `P.insert(0, x)` statements."""
    if not (isinstance(s, ast.Expr) and isinstance(s.value, ast.Call)):
        return None
    c = s.value
    if not (isinstance(c.func, ast.Attribute) and isinstance(c.func.value, ast.Name) and c.func.value.id == P) or c.keywords:
        return None
    if c.func.attr == 'append' and len(c.args) == 1:
        return ('append', c.args[0])
    if c.func.attr == 'insert' and len(c.args) == 2 and const_value(c.args[0]) == 0 and type(const_value(c.args[0])) is int:
        return ('prepend', c.args[1])
    return None


def pexpand(fi, expr, stop=(), depth=8):
    """fi.expand() extended to loop-carried names: a Name reached by several
    definitions `t = E` that all have the same (expanded) pure expression E,
    none of whose operands can change between the definition and this use,
    denotes E evaluated at the use (e.g. `t = prev[P[-1]]` before a loop and
    again at the end of its body: at the loop test `t` IS `prev[P[-1]]`)."""
    from ..normal import is_pure

    def phi(e):
        try:
            defs = fi.defs_of_use(e)
        except Exception:
            return None
        if len(defs) < 2 or any(d in ('PARAM', 'UNBOUND') for d in defs) or fi._mutated_in_place(e.id):
            return None
        use = fi.stmt(e)
        vals = []
        for site in defs:
            if not isinstance(site, (ast.Assign, ast.AnnAssign)):
                return None
            v = fi.def_value(site, e.id)
            if v is None or isinstance(v, ast.GeneratorExp) or not is_pure(v):
                return None
            for m in walk_expr(v):
                if not (isinstance(m, ast.Name) and isinstance(m.ctx, ast.Load)):
                    continue
                if m.id == e.id or fi.rd.defs_at(site, m.id) != fi.rd.defs_at(use, m.id):
                    return None
                for ms in fi._mutated_in_place(m.id):
                    if ms is use or ms is site:
                        continue
                    if fi.cfg.reachable(site, ms, avoiding=[use]) and fi.cfg.reachable(ms, use, avoiding=[site]):
                        return None
            vals.append(v)
        return vals

    def stable(e, vals):
        # no operand may be changed in place on a cycle through the use that
        # avoids every definition (definition before a loop, use inside it)
        use = fi.stmt(e)
        sites = [d for d in fi.defs_of_use(e) if d not in ('PARAM', 'UNBOUND')]
        for v in vals:
            for m in walk_expr(v):
                if not (isinstance(m, ast.Name) and isinstance(m.ctx, ast.Load)):
                    continue
                for ms in fi._mutated_in_place(m.id):
                    if ms in sites:
                        continue
                    if fi.cfg.reachable(use, ms, avoiding=sites) and (ms is use or fi.cfg.reachable(ms, use, avoiding=sites)):
                        return False
        return True

    def ex(e, d):
        if isinstance(e, ast.Name):
            if d > 0 and e.id not in stop and isinstance(e.ctx, ast.Load):
                v = fi.temp_value(e)
                if v is not None and stable(e, [v]):
                    return ex(v, d - 1)
                vs = phi(e) if v is None else None
                if vs and stable(e, vs):
                    xs = [ex(v, d - 1) for v in vs]
                    if len({u(canon(x)) for x in xs}) == 1:
                        return xs[0]
            return ast.copy_location(ast.Name(id=e.id, ctx=e.ctx), e)
        if not isinstance(e, ast.AST):
            return e
        if isinstance(e, (ast.expr_context, ast.operator, ast.unaryop, ast.boolop, ast.cmpop)):
            return e
        new = type(e)()
        for f in e._fields:
            val = getattr(e, f, None)
            if isinstance(val, list):
                setattr(new, f, [ex(x, d) for x in val])
            elif isinstance(val, ast.AST):
                setattr(new, f, ex(val, d))
            else:
                setattr(new, f, val)
        for a in ('lineno', 'col_offset', 'end_lineno', 'end_col_offset'):
            if hasattr(e, a):
                setattr(new, a, getattr(e, a))
        return new
    return ex(expr, depth)


def _inside(mod, node, outer):
    p = mod.parent.get(node)
    while p is not None:
        if p is outer:
            return True
        p = mod.parent.get(p)
    return False


def _in_loop(mod, node, fn):
    p = mod.parent.get(node)
    while p is not None and p is not fn:
        if isinstance(p, (ast.For, ast.While)):
            return True
        p = mod.parent.get(p)
    return False


def _and_atoms(mask):
    """Conjuncts of an elementwise mask built with & / np.logical_and."""
    if isinstance(mask, ast.BinOp) and isinstance(mask.op, ast.BitAnd):
        return _and_atoms(mask.left) + _and_atoms(mask.right)
    if isinstance(mask, ast.Call) and call_name(mask) == 'np.logical_and' and len(mask.args) == 2:
        return _and_atoms(mask.args[0]) + _and_atoms(mask.args[1])
    return [mask]


# ---------------------------------------------------------------------------
# D1 (views): a store through a NAME that is a basic-index view of the caller's matrix

_INDEX_ARRAY_CALLS = {'np.where', 'np.nonzero', 'np.arange', 'np.array', 'np.asarray', 'list', 'range', 'np.ix_', 'np.unique', 'np.argsort',
                      'np.isnan', 'np.isinf', 'np.isfinite', 'np.isclose', 'np.logical_not', 'np.logical_and', 'np.logical_or', 'np.zeros', 'np.ones'}
_SURE_VIEW_METHODS = {'view', 'transpose', 'swapaxes', 'diagonal', 'squeeze'}
_MAYBE_VIEW_METHODS = {'reshape', 'ravel'}
_SURE_VIEW_FUNCS = {'np.asarray', 'np.asanyarray', 'np.transpose', 'np.squeeze', 'np.swapaxes', 'np.diagonal', 'np.atleast_1d', 'np.atleast_2d'}
_MAYBE_VIEW_FUNCS = {'np.ravel', 'np.reshape', 'np.ascontiguousarray', 'np.asfortranarray'}


def _def_values(fi, n):
    """Value expressions of ALL definitions reaching the Name use `n` (plain assignments only), else None."""
    try:
        defs = fi.defs_of_use(n)
    except Exception:
        return None
    out = []
    for d in defs:
        if d in ('PARAM', 'UNBOUND') or not isinstance(d, (ast.Assign, ast.AnnAssign)):
            return None
        v = fi.def_value(d, n.id)
        if v is None:
            return None
        out.append(v)
    return out or None


def _mask_like(fi, e, depth=4):
    """Index expression that selects elements of a 1-D array into a 1-D array: a boolean mask or the tuple np.where(mask)."""
    if isinstance(e, ast.Name):
        vs = _def_values(fi, e) if depth > 0 else None
        return bool(vs) and all(_mask_like(fi, v, depth - 1) for v in vs)
    if isinstance(e, ast.Compare) or (isinstance(e, ast.BinOp) and isinstance(e.op, (ast.BitAnd, ast.BitOr))) \
            or (isinstance(e, ast.UnaryOp) and isinstance(e.op, ast.Invert)):
        return True
    return isinstance(e, ast.Call) and call_name(e) in ('np.where', 'np.nonzero') and len(e.args) == 1


def _one_dim(fi, e, depth=4):
    """The expression is a one-dimensional array by construction (True) - anything else False."""
    if isinstance(e, ast.Name):
        vs = _def_values(fi, e) if depth > 0 else None
        return bool(vs) and all(_one_dim(fi, v, depth - 1) for v in vs)
    if isinstance(e, ast.Call) and isinstance(e.func, ast.Attribute):
        if e.func.attr in ('flatten', 'ravel') and not e.args:
            return True
        if e.func.attr == 'reshape' and len(e.args) == 1:
            a = e.args[0]
            a = a.elts[0] if isinstance(a, (ast.Tuple, ast.List)) and len(a.elts) == 1 else a
            return const_value(a) == -1
    if isinstance(e, ast.Subscript):
        if isinstance(e.value, ast.Call) and call_name(e.value) in ('np.where', 'np.nonzero') and type(const_value(e.slice)) is int:
            return True
        return _one_dim(fi, e.value, depth - 1) and _mask_like(fi, e.slice, depth)
    return False


def _node_list(fi, n, depth=3):
    """The Name use `n` denotes a Python list whose elements are scalars: every reaching definition builds it from a
    one-dimensional array (list(S), S.tolist(), [x for x in S]) or as an empty list, and it only grows by scalars /
    one-dimensional arrays."""
    vs = _def_values(fi, n) if depth > 0 else None
    if not vs:
        return False
    for v in vs:
        if isinstance(v, ast.List) and not v.elts:
            continue
        if isinstance(v, ast.Call) and call_name(v) == 'list' and len(v.args) <= 1 and not v.keywords:
            if not v.args or _one_dim(fi, v.args[0]):
                continue
        if isinstance(v, ast.Call) and isinstance(v.func, ast.Attribute) and v.func.attr == 'tolist' and _one_dim(fi, v.func.value):
            continue
        if isinstance(v, ast.ListComp) and len(v.generators) == 1 and not v.generators[0].ifs and isinstance(v.generators[0].target, ast.Name) \
                and _one_dim(fi, v.generators[0].iter):
            el, t = v.elt, v.generators[0].target.id
            if isinstance(el, ast.Call) and call_name(el) == 'int' and len(el.args) == 1:
                el = el.args[0]
            if isinstance(el, ast.Name) and el.id == t:
                continue
        return False
    for s in fi._mutated_in_place(n.id):
        calls = [c for c in ast.walk(s) if isinstance(c, ast.Call) and isinstance(c.func, ast.Attribute) and isinstance(c.func.value, ast.Name)
                 and c.func.value.id == n.id]
        stores = [t for t in ast.walk(s) if isinstance(t, ast.Subscript) and isinstance(t.ctx, (ast.Store, ast.Del)) and isinstance(t.value, ast.Name)
                  and t.value.id == n.id]
        if stores or not calls:
            return False
        for c in calls:
            if c.func.attr in ('pop', 'remove', 'index', 'count', 'sort', 'reverse', 'clear'):
                continue
            if c.func.attr == 'extend' and len(c.args) == 1 and _one_dim(fi, c.args[0]):
                continue
            if c.func.attr == 'append' and len(c.args) == 1 and _scalar(fi, c.args[0], depth - 1) is True:
                continue
            return False
    return True


def _scalar(fi, e, depth=4):
    """Three-valued: True = an integer SCALAR (basic index), False = an array / sequence / mask (advanced index), None = unknown."""
    if isinstance(e, ast.Constant):
        return True if type(e.value) is int else None
    if isinstance(e, ast.UnaryOp) and isinstance(e.op, (ast.USub, ast.UAdd)):
        return _scalar(fi, e.operand, depth)
    if isinstance(e, (ast.Compare, ast.List, ast.ListComp, ast.BoolOp)) or (isinstance(e, ast.UnaryOp) and isinstance(e.op, ast.Invert)):
        return False
    if isinstance(e, ast.BinOp):
        if isinstance(e.op, (ast.BitAnd, ast.BitOr)):
            return False
        a, b = _scalar(fi, e.left, depth), _scalar(fi, e.right, depth)
        return True if a is True and b is True else False if a is False or b is False else None
    if isinstance(e, ast.Name):
        if depth <= 0:
            return None
        vs = _def_values(fi, e)
        if not vs:
            return None
        ks = [_scalar(fi, v, depth - 1) for v in vs]
        return True if all(k is True for k in ks) else False if all(k is False for k in ks) else None
    if isinstance(e, ast.Call):
        cn = call_name(e) or ''
        if cn in ('int', 'len') and len(e.args) == 1:
            return True
        if cn in _INDEX_ARRAY_CALLS:
            return False
        if isinstance(e.func, ast.Attribute):
            if e.func.attr in ('argmax', 'argmin') and not e.args and not e.keywords:
                return True
            if e.func.attr == 'item':
                return True
            if e.func.attr == 'pop' and isinstance(e.func.value, ast.Name):
                return True if _node_list(fi, e.func.value, depth - 1) else None
            if e.func.attr in ('flatten', 'ravel', 'astype', 'copy', 'tolist', 'nonzero'):
                return False if e.func.attr in ('flatten', 'ravel', 'tolist', 'nonzero') else _scalar(fi, e.func.value, depth)
        return None
    if isinstance(e, ast.Subscript):
        if isinstance(e.value, ast.Call) and call_name(e.value) in ('np.where', 'np.nonzero') and type(const_value(e.slice)) is int:
            return False
        if isinstance(e.slice, ast.Slice):
            return False
        if isinstance(e.value, ast.Name) and _scalar(fi, e.slice, depth - 1) is True and (_node_list(fi, e.value, depth - 1) or _one_dim(fi, e.value, depth - 1)):
            return True
        return None
    return None


def _index_kind(fi, idx):
    """-> ('basic' | 'advanced' | 'unknown', number of scalar components, number of components)"""
    comps = idx.elts if isinstance(idx, ast.Tuple) else [idx]
    kinds, nsc = [], 0
    for c in comps:
        if isinstance(c, ast.Slice) or (isinstance(c, ast.Constant) and (c.value is None or c.value is Ellipsis)):
            kinds.append('basic')
            continue
        k = _scalar(fi, c)
        kinds.append('basic' if k is True else 'advanced' if k is False else 'unknown')
        nsc += k is True
    kind = 'advanced' if 'advanced' in kinds else 'unknown' if 'unknown' in kinds else 'basic'
    return kind, nsc, len(comps)


def d1_views(ck, mod, entries):
    """NECESSARY CONDITION (caller's matrix unchanged): basic indexing (integer scalars / slices), `.T`, `.view()`,
    `np.asarray` ... hand out the STORAGE of the matrix; a name bound to such an expression over the parameter - while the
    parameter still is the caller's object - is the caller's matrix, and every in-place update of that name (subscript
    store, `op=`, fill ...) writes into the argument.  An advanced index (index arrays, masks) makes a copy.  The kind of
    an index is decided from the definitions of its components (three-valued): proven basic -> VIOLATION, not decided ->
    analysis incomplete, advanced -> nothing to show."""
    rule = 'C17.D1.inputs-unmodified.views'
    order = {None: 0, 'maybe': 1, 'view': 2}
    for qual, pos in entries:
        fn = mod.func(qual)
        fi = finfo(mod, fn)
        ps = params(fn)
        if pos >= len(ps):
            ck.missing(rule, '%s: matrix parameter #%d' % (qual, pos))
            continue
        P = ps[pos]
        aliases = {}                # (definition site, name) -> (('view' | 'maybe', remaining dimensions or None), text of the defining expression)

        def join(vals):
            vals = [v for v in vals if v is not None]
            if not vals:
                return None
            k = max((v[0] for v in vals), key=lambda x: order[x])
            nds = {v[1] for v in vals}
            return (k, nds.pop() if len(nds) == 1 else None)

        def kind_of(e):
            """(kind, number of array dimensions left or None if unknown) if the value of e may share storage with the
            caller's two-dimensional matrix, None if it is fresh storage / a scalar element"""
            if isinstance(e, ast.Name):
                try:
                    defs = fi.defs_of_use(e)
                except Exception:
                    return None
                return join([('view', 2) if (d == 'PARAM' and e.id == P) else aliases.get((d, e.id), (None,))[0] for d in defs])
            if isinstance(e, ast.Attribute):
                return kind_of(e.value) if e.attr in ('T', 'real', 'imag') else None
            if isinstance(e, ast.IfExp):
                return join([kind_of(e.body), kind_of(e.orelse)])
            if isinstance(e, ast.Subscript):
                kv = kind_of(e.value)
                if kv is None:
                    return None
                k, nd = kv
                ik, nsc, ncomp = _index_kind(fi, e.slice)
                if ik == 'advanced':
                    return None                              # advanced indexing copies
                if ik == 'unknown':
                    return ('maybe', None)
                comps = e.slice.elts if isinstance(e.slice, ast.Tuple) else [e.slice]
                if any(isinstance(c, ast.Constant) and c.value is None for c in comps):
                    nd = None
                nd = nd - nsc if nd is not None else None
                if nd is not None and nd <= 0:
                    return None                              # one scalar element
                return (k, nd)
            if isinstance(e, ast.Call):
                cn = call_name(e) or ''
                if isinstance(e.func, ast.Attribute) and e.func.attr in _SURE_VIEW_METHODS | _MAYBE_VIEW_METHODS:
                    kv = kind_of(e.func.value)
                    if kv is not None:
                        sure = e.func.attr in _SURE_VIEW_METHODS
                        return (kv[0] if sure else 'maybe', kv[1] if e.func.attr in ('view', 'transpose', 'swapaxes') else None)
                if cn in _SURE_VIEW_FUNCS | _MAYBE_VIEW_FUNCS and e.args:
                    kv = kind_of(e.args[0])
                    if kv is not None:
                        sure = cn in _SURE_VIEW_FUNCS and len(e.args) == 1 and not e.keywords
                        return (kv[0] if sure else 'maybe', kv[1] if cn in ('np.asarray', 'np.asanyarray', 'np.transpose') and sure else None)
                return None
            return None
        for _round in range(4):
            changed = False
            for s in walk_local(fn):
                pairs = []
                if isinstance(s, ast.Assign):
                    for t in s.targets:
                        if isinstance(t, ast.Name):
                            pairs.append((t.id, s.value))
                        elif isinstance(t, (ast.Tuple, ast.List)) and isinstance(s.value, (ast.Tuple, ast.List)) and len(t.elts) == len(s.value.elts):
                            pairs += [(te.id, ve) for te, ve in zip(t.elts, s.value.elts) if isinstance(te, ast.Name)]
                elif isinstance(s, ast.For) and isinstance(s.target, ast.Name):
                    kv = kind_of(s.iter)                    # iterating over the matrix yields its rows (views)
                    if kv is not None:
                        kv = (kv[0], kv[1] - 1) if kv[1] is not None else ('maybe', None)
                        if (kv[1] is None or kv[1] > 0) and aliases.get((s, s.target.id), (None,))[0] != kv:
                            aliases[(s, s.target.id)] = (kv, 'for %s in %s' % (s.target.id, u(s.iter)))
                            changed = True
                for name, val in pairs:
                    kv = kind_of(val)
                    if name == P and isinstance(val, ast.Name) and val.id == P:
                        continue
                    if kv is not None and aliases.get((s, name), (None,))[0] != kv:
                        aliases[(s, name)] = (kv, u(val))
                        changed = True
            if not changed:
                break
        found = False
        for (site, T), ((k, nd), text) in sorted(aliases.items(), key=lambda kv: getattr(kv[0][0], 'lineno', 0)):
            muts = list(fi._mutated_in_place(T))
            muts += [s for s in walk_local(fn) if isinstance(s, ast.AugAssign) and isinstance(s.target, ast.Name) and s.target.id == T and s not in muts]
            for s in muts:
                if site not in fi.rd.defs_at(s, T):
                    continue
                found = True
                bare = isinstance(s, ast.AugAssign) and isinstance(s.target, ast.Name)       # `T op= v` rebinds T if T is a scalar
                if k == 'view' and not (bare and nd is None):
                    ck.bad(rule, mod, s, qual, u(s)[:160],
                           '`%s` is bound to `%s` (line %s), which shares the storage of the caller\'s matrix `%s` (basic indexing / a view-making '
                           'operation of the parameter, which has not been rebound to a copy there): the in-place update `%s` writes into the '
                           'argument; work on a copy (an advanced index such as %s[i, <index array>], or .copy())' % (
                               T, text[:80], getattr(site, 'lineno', '?'), P, u(s)[:80], P))
                else:
                    ck.missing(rule, '%s: `%s` updates `%s` = `%s` in place; whether that expression is a view of the caller\'s matrix `%s` '
                               '(basic index) or a copy (advanced index) is not decided' % (qual, u(s)[:60], T, text[:60], P))
        if not found:
            ck.ok(rule, mod, fn, '%s(%s)' % (qual, P), 'no name that may be a view of the caller\'s matrix is updated in place (%d view name(s))' % len(aliases))


# ---------------------------------------------------------------------------
# D3: the two removal schemes

_NEUTRAL_ATTRS = {'shape', 'dtype', 'ndim', 'size'}
_READ_ONLY_CALLS = {'copy.copy', 'copy.deepcopy', 'len', 'np.array', 'np.shape', 'np.isinf', 'np.isnan', 'np.isfinite', 'np.count_nonzero'}


def _copy_forms(p):
    return ['copy.copy(%s)' % p, '%s.copy()' % p, 'copy.deepcopy(%s)' % p, 'np.array(%s, copy=True)' % p, 'np.array(%s, dtype=float)' % p]


def _subst_names(node, mapping):
    import copy as _copy

    class R(ast.NodeTransformer):
        def visit_Name(self, n):
            return ast.copy_location(ast.Name(id=mapping.get(n.id, n.id), ctx=n.ctx), n)
    return R().visit(_copy.deepcopy(node))


def _subst_exprs(node, mapping):
    """Copy of `node` with every loaded Name in `mapping` replaced by (a copy of) the mapped expression."""
    import copy as _copy

    class R(ast.NodeTransformer):
        def visit_Name(self, n):
            if isinstance(n.ctx, ast.Load) and n.id in mapping:
                return ast.copy_location(_copy.deepcopy(mapping[n.id]), n)
            return n
    return R().visit(_copy.deepcopy(node))


def _helper_value(mod, call):
    """The value of a call `h(a1, ..)` of a module-level VALUE helper, as an
    expression over the caller's argument expressions; None if `h` is not such
    a helper.  A value helper has (after the docstring) only assignments of
    pure expressions to plain local names and one final `return <pure expr>`;
    it rebinds no parameter and mutates nothing (purity of every right-hand
    side), so the call is a read-only use of its arguments and equals the
    return expression with the temporaries expanded and the parameters
    replaced by the (pure) arguments, evaluated where the call stands."""
    from ..normal import is_pure
    if not isinstance(call.func, ast.Name) or call.keywords or any(isinstance(a, ast.Starred) for a in call.args):
        return None
    callee = mod.functions.get(call.func.id)
    if callee is None or callee.decorator_list or callee.args.vararg or callee.args.kwarg or callee.args.kwonlyargs:
        return None
    cps = params(callee)
    if len(cps) != len(call.args) or not all(is_pure(a) for a in call.args):
        return None
    body = [s for i, s in enumerate(callee.body)
            if not (i == 0 and isinstance(s, ast.Expr) and isinstance(s.value, ast.Constant) and isinstance(s.value.value, str))]
    if not body or not isinstance(body[-1], ast.Return) or body[-1].value is None:
        return None
    local = set()
    for s in body[:-1]:
        if not (isinstance(s, ast.Assign) and is_pure(s.value)):
            return None
        for t in s.targets:
            for x in (t.elts if isinstance(t, (ast.Tuple, ast.List)) else [t]):
                if not isinstance(x, ast.Name):
                    return None
                local.add(x.id)
    if local & set(cps):
        return None
    hfi = finfo(mod, callee)
    rv = hfi.expand(body[-1].value)
    if not is_pure(rv) or any(isinstance(x, ast.Name) and x.id in local for x in ast.walk(rv)):
        return None
    return _subst_exprs(rv, dict(zip(cps, call.args)))


def _inline_values(mod, expr):
    """`expr` with every call of a module-level value helper (see _helper_value) replaced by its value."""
    import copy as _copy

    class R(ast.NodeTransformer):
        def visit_Call(self, n):
            self.generic_visit(n)
            v = _helper_value(mod, n)
            return ast.copy_location(v, n) if v is not None else n
    return R().visit(_copy.deepcopy(expr))


def _nonneg_scalar(k):
    """k is known to be a non-negative integer scalar: a flat arg-reduction `x.argmin()` / `x.argmax()`
    (canonical method spelling, no axis), int() of one, a non-negative int literal, or a sum of those."""
    if isinstance(k, ast.Constant):
        return type(k.value) is int and k.value >= 0
    if isinstance(k, ast.Call) and call_name(k) == 'int' and len(k.args) == 1 and not k.keywords:
        return _nonneg_scalar(k.args[0])
    if isinstance(k, ast.Call) and isinstance(k.func, ast.Attribute) and k.func.attr in ('argmin', 'argmax') and not k.args and not k.keywords:
        return True
    if isinstance(k, ast.BinOp) and isinstance(k.op, ast.Add):
        return _nonneg_scalar(k.left) and _nonneg_scalar(k.right)
    return False


def _fold_slice_index(expr):
    """Identity  X[a:b][K] == X[a + K]  (X[:b][K] == X[K])  for a literal a >= 0 (or absent), no step and a
    non-negative integer scalar K: whenever the left side does not raise IndexError it denotes that
    element (for an absent upper bound both sides raise for the same K).  Applied bottom-up."""
    import copy as _copy

    class R(ast.NodeTransformer):
        def visit_Subscript(self, n):
            self.generic_visit(n)
            v, k = n.value, n.slice
            if isinstance(v, ast.Subscript) and isinstance(v.slice, ast.Slice) and v.slice.step is None and isinstance(n.ctx, ast.Load) \
                    and not isinstance(k, (ast.Slice, ast.Tuple)) and _nonneg_scalar(k):
                lo = v.slice.lower
                if lo is None or _is_zero(lo) and type(const_value(lo)) is int:
                    return ast.copy_location(ast.Subscript(value=v.value, slice=k, ctx=n.ctx), n)
                if isinstance(lo, ast.Constant) and type(lo.value) is int and lo.value > 0:
                    return ast.copy_location(ast.Subscript(value=v.value, slice=ast.BinOp(left=k, op=ast.Add(), right=lo), ctx=n.ctx), n)
            return n
    return R().visit(_copy.deepcopy(expr))


def _matrix_effects(mod, fn, W, depth=1):
    """Everything `fn` can do to the CONTENTS of the object bound to the name
    W, found through the uses of W (not through pinned statement shapes):

      events   subscript stores `W[idx] = v` / `W[idx] op= v`, with idx and v
               expanded (fi.expand) - including the stores of a module-level
               helper that is called as a statement with W as an argument
               (one level of inlining, helper parameters renamed to the
               caller's arguments);
      lost     in-place updates of a NAMED sub-array `t = W[idx]; t op= v`
               (for an advanced index t is a copy: the update never reaches W);
      unknown  any other use through which W could be changed or aliased and
               that the rule does not model (-> analysis incomplete).
    """
    from ..normal import PURE_METHODS
    fi = finfo(mod, fn)
    events, unknown, lost = [], [], []

    def see(e):
        # temporaries expanded, value helpers replaced by their value, slice-then-index folded, canonical spelling
        return canon(_fold_slice_index(canon(_inline_values(mod, fi.expand(e, stop=(W,))))))
    for n in walk_local(fn):
        if not (isinstance(n, ast.Name) and n.id == W):
            continue
        par = mod.parent.get(n)
        if isinstance(n.ctx, ast.Store):
            continue
        if isinstance(par, ast.Subscript) and par.value is n:
            st = fi.stmt(par)
            if isinstance(par.ctx, ast.Store):
                tg = st.targets if isinstance(st, ast.Assign) else [st.target] if isinstance(st, ast.AugAssign) else []
                flat = [x for t in tg for x in (t.elts if isinstance(t, (ast.Tuple, ast.List)) else [t])]
                if par in flat and len(flat) == 1:
                    events.append({'stmt': st, 'kind': 'aug' if isinstance(st, ast.AugAssign) else 'store', 'op': getattr(st, 'op', None),
                                   'idx': see(par.slice), 'val': see(st.value), 'text': u(st), 'line': getattr(st, 'lineno', 0)})
                else:
                    unknown.append((st, 'store into %s through `%s`' % (W, u(st)[:80])))
            elif isinstance(par.ctx, ast.Del):
                unknown.append((st, 'del %s' % u(par)))
            else:
                gp = mod.parent.get(par)
                if isinstance(gp, ast.Assign) and gp.value is par and len(gp.targets) == 1 and isinstance(gp.targets[0], ast.Name):
                    T = gp.targets[0].id
                    for ms in fi._mutated_in_place(T):
                        if gp in fi.rd.defs_at(ms, T):
                            lost.append({'stmt': ms, 'temp': T, 'def': gp, 'idx': see(par.slice), 'text': u(ms)})
            continue
        if isinstance(par, ast.Return) or isinstance(par, (ast.BinOp, ast.Compare, ast.UnaryOp)):
            continue
        if isinstance(par, ast.Attribute) and par.value is n:
            gp = mod.parent.get(par)
            if par.attr in _NEUTRAL_ATTRS:
                continue
            if isinstance(gp, ast.Call) and gp.func is par and par.attr in PURE_METHODS and par.attr not in ('view', 'reshape', 'ravel', 'transpose', 'squeeze', 'diagonal'):
                continue
            unknown.append((par, '`%s`' % u(gp if isinstance(gp, ast.Call) else par)[:80]))
            continue
        if isinstance(par, ast.Call) and n in par.args:
            cn = call_name(par) or ''
            if cn in _READ_ONLY_CALLS or _helper_value(mod, par) is not None:
                continue                                     # (a value helper only reads its arguments)
            st = fi.stmt(par)
            callee = mod.functions.get(cn) if isinstance(par.func, ast.Name) else None
            if callee is not None and depth > 0 and isinstance(st, ast.Expr) and st.value is par and not par.keywords \
                    and all(isinstance(a, ast.Name) for a in par.args) and [a.id for a in par.args].count(W) == 1 \
                    and len(params(callee)) == len(par.args) and not (callee.args.vararg or callee.args.kwarg):
                cps = params(callee)
                hW = cps[[a.id for a in par.args].index(W)]
                if assigns_to(callee, hW):
                    unknown.append((st, 'helper %s rebinds its matrix parameter' % cn))
                    continue
                mapping = dict(zip(cps, [a.id for a in par.args]))
                for x in walk_local(callee):
                    if isinstance(x, ast.Name) and isinstance(x.ctx, ast.Store) and x.id not in mapping:
                        mapping[x.id] = '%s__in__%s' % (x.id, cn)
                ev2, un2, lo2 = _matrix_effects(mod, callee, hW, depth - 1)
                for e in ev2:
                    e2 = dict(e, stmt=st, inner=e['stmt'], idx=_subst_names(e['idx'], mapping), val=_subst_names(e['val'], mapping),
                              text='%s  ->  %s: %s' % (u(st), cn, e['text']), line=getattr(st, 'lineno', 0), via=cn)
                    events.append(e2)
                for _node, why in un2:
                    unknown.append((st, 'in helper %s: %s' % (cn, why)))
                for l in lo2:
                    lost.append(dict(l, stmt=st, idx=_subst_names(l['idx'], mapping), text='%s  ->  %s: %s' % (u(st), cn, l['text'])))
                continue
            unknown.append((st, '%s is passed to `%s`' % (W, u(par)[:80])))
            continue
        unknown.append((n, '%s used in `%s`' % (W, u(fi.stmt(n) or par)[:80])))
    events.sort(key=lambda e: (e['line'], getattr(e.get('inner'), 'lineno', 0)))
    return events, unknown, lost


def _is_zero(node):
    v = const_value(node)
    return v is not None and not isinstance(v, bool) and isinstance(v, (int, float)) and v == 0


def d3_removal(ck, mod):
    """Roles: the working matrix W is what the function returns; it must be
    bound (once) to a copy of the matrix parameter.  What happens to W is read
    off its stores (see _matrix_effects), compared after expansion."""
    rule = 'C17.D3.removal'
    schemes = {}
    for name in ('_subtract_path_flux', '_remove_bottleneck'):
        schemes[name] = d3_one(ck, mod, rule, name)
    return schemes


def d3_one(ck, mod, rule, name):
    """-> {'effect': 'consumes' (the path flux is deducted from every edge of the path) | 'single-edge' (only the
    bottleneck edge is changed) | None (not decided), 'node': statement to report}"""
    summary = {'effect': None, 'node': None}
    for _once in (0,):
        fn = mod.func(name)
        ck.analysed(mod, fn)
        fi = finfo(mod, fn)
        nf, path = params(fn)[:2]
        r = returns_of(fn)
        if len(r) != 1 or not isinstance(r[0].value, ast.Name):
            ck.missing(rule + '.copy', '%s: a single `return <working matrix>`' % name)
            continue
        W = r[0].value.id
        events, unknown, lost = _matrix_effects(mod, fn, W)
        E = ['%s[:-1], %s[1:]' % (path, path), '%s[0:-1], %s[1:]' % (path, path), '%s[:len(%s) - 1], %s[1:]' % (path, path, path)]
        epats = ['(%s)' % e for e in E]
        # an update of a named sub-array is known to be LOST only for the advanced index (path[:-1], path[1:]) (a copy);
        # for any other index the name may be a view of the working matrix
        for l in [l for l in lost if classify(l['idx'], epats)[0] != 'match']:
            lost.remove(l)
            unknown.append((l['stmt'], '`%s` updates `%s`, a sub-array of %s that may be a view' % (l['text'][:60], l['temp'], W)))
        for _node, why in unknown[:3]:
            ck.missing(rule, '%s: use of the working matrix not modelled: %s' % (name, why))
        complete = not unknown
        # ---- works on a copy; returns it
        uses = [(e['stmt'], e['text']) for e in events] + [(r[0], u(r[0]))]
        sites = set()
        for s, _ in uses:
            sites |= fi.rd.defs_at(s, W)
        if 'PARAM' in sites:
            s, txt = [(s, t) for s, t in uses if 'PARAM' in fi.rd.defs_at(s, W)][0]
            ck.bad(rule + '.copy', mod, s, name, txt, '%s must rebind net_flux to a copy before storing into it: here `%s` still is the caller\'s matrix' % (name, W))
        elif len(sites) == 1 and isinstance(list(sites)[0], ast.Assign) and fi.rd.defs_at(list(sites)[0], nf) == {'PARAM'}:
            cp = list(sites)[0]
            v = classify(fi.expand(cp.value, stop=(nf,)), _copy_forms(nf), scope={nf})
            ck.decide(v, rule + '.copy', mod, cp, name, u(cp), 'works on a copy made before the first store',
                      '%s must rebind net_flux to a copy before storing into it' % name)
            ck.ok(rule + '.copy', mod, r[0], u(r[0]), 'returns the modified copy')
        else:
            ck.missing(rule + '.copy', '%s: the working matrix `%s` is not bound exactly once (to a copy of `%s`) before its stores' % (name, W, nf))
        # ---- no residual flux is deleted by magnitude: `x[x < c] = 0` with c > 0 on the working matrix (or on a
        # copy of its path edges that is stored back) removes genuinely positive residuals of every path edge, so
        # later pathways disappear and the enumeration stops short of the requested fraction
        for st in walk_local(fn):
            if not (isinstance(st, ast.Assign) and len(st.targets) == 1 and isinstance(st.targets[0], ast.Subscript)
                    and isinstance(st.targets[0].value, ast.Name) and _is_zero(st.value)):
                continue
            base, cmpx = st.targets[0].value.id, st.targets[0].slice
            if not (isinstance(cmpx, ast.Compare) and len(cmpx.ops) == 1):
                continue
            l, op, r = cmpx.left, cmpx.ops[0], cmpx.comparators[0]
            thr = None
            if isinstance(op, (ast.Lt, ast.LtE)) and isinstance(const_value(r), (int, float)) and not isinstance(const_value(r), bool):
                thr, side = const_value(r), l
            elif isinstance(op, (ast.Gt, ast.GtE)) and isinstance(const_value(l), (int, float)) and not isinstance(const_value(l), bool):
                thr, side = const_value(l), r
            if thr is None or not thr > 0 or base not in names_loaded(side):
                continue
            dv = None
            if base != W:
                ds = [d for d in fi.rd.defs_at(st, base) if isinstance(d, ast.Assign)]
                dv = fi.def_value(ds[0], base) if len(ds) == 1 else None
            if base == W or (isinstance(dv, ast.Subscript) and isinstance(dv.value, ast.Name) and dv.value.id == W):
                ck.bad(rule + '.threshold-zero', mod, st, name, u(st),
                       'residual fluxes below the positive constant %r are set to 0 in %s: the removal may zero only the bottleneck '
                       'edge (whose residual is 0 up to rounding); positive residuals are flux still to be explained' % (thr, name))
        # ---- the bottleneck edge is zeroed
        Ks = ['%s[%s].argmin()' % (W, e) for e in E]
        Ks += ['int(%s)' % k for k in Ks]
        zpats = ['(%s[%s], %s[%s + 1])' % (path, k, path, k) for k in Ks] + ['(%s[%s], %s[1 + %s])' % (path, k, path, k) for k in Ks]
        zero = [e for e in events if e['kind'] == 'store' and _is_zero(e['val'])]
        rest = [e for e in events if e not in zero]
        z, zv = None, None
        if len(zero) == 1:
            z = zero[0]
            v = zv = classify(z['idx'], zpats, scope={W, path})
            ck.decide(v, rule + '.bottleneck', mod, z['stmt'], name, z['text'],
                      'the bottleneck edge path[k] -> path[k+1], k = argmin over the CONSECUTIVE edges of the path, is removed',
                      'the edge set to 0 must be path[k] -> path[k + 1] with k = argmin of net_flux[path[:-1], path[1:]] (evaluated on the working matrix)')
        elif not zero and complete and (not rest or name == '_subtract_path_flux' and all(e['kind'] == 'aug' for e in rest)):
            l = lost[0] if lost else None
            ck.bad(rule + '.bottleneck', mod, l['stmt'] if l else fn, name, l['text'] if l else 'zero the bottleneck edge',
                   'the edge path[bottleneck_ind] -> path[bottleneck_ind + 1] must be set to 0 in the working matrix' +
                   (' (the store goes to `%s`, a copy made by advanced indexing)' % l['temp'] if l else ''))
        else:
            ck.missing(rule + '.bottleneck', '%s: exactly one store `%s[path[k], path[k + 1]] = 0` (found %d zero store(s), %d other store(s))' % (
                name, W, len(zero), len(rest)))
        if name == '_remove_bottleneck':
            if rest:
                ck.missing(rule + '.bottleneck', '_remove_bottleneck: additional store into the working matrix: %s' % rest[0]['text'][:100])
            elif z is not None and complete and not lost and zv[0] == 'match':
                summary = {'effect': 'single-edge', 'node': z['stmt']}
            continue
        # ---- subtract scheme: the path flux is subtracted on every edge of the path, in the working matrix
        mins = ['%s[%s].min()' % (W, e) for e in E] + ['min(%s[%s])' % (W, e) for e in E]
        cand = list(rest)
        if len(cand) == 1:
            s = cand[0]
            vi = classify(s['idx'], epats, scope={path})
            if s['kind'] == 'aug':
                vv = classify(s['val'], mins, scope={W, path})
                if vv[0] == 'match' and not isinstance(s['op'], ast.Sub):
                    vv = ('near', 1, '%s[%s] -= %s' % (W, E[0], mins[0]))
            else:
                vv = classify(s['val'], ['%s[%s] - %s' % (W, e, m) for e in E for m in mins if e in m], scope={W, path})
            both = vi if vi[0] != 'match' else vv
            ck.decide(both, rule + '.subtract', mod, s['stmt'], name, s['text'],
                      'the path flux is subtracted THROUGH to the working matrix on every edge of the path',
                      'the subtract scheme must execute `net_flux[path[:-1], path[1:]] -= <min over the same edges>` on the working copy itself')
            if both[0] == 'match' and complete:
                summary = {'effect': 'consumes', 'node': s['stmt']}
            if z is not None:
                ck.check(s['stmt'] is not z['stmt'] and fi.cfg.dominates(s['stmt'], z['stmt']), rule + '.subtract', mod, z['stmt'], name, 'order',
                         'bottleneck zeroed after the subtraction', 'zeroing must follow the subtraction')
        elif not rest and complete:
            subl = [l for l in lost if isinstance(l['stmt'], ast.AugAssign) or l.get('via')] or lost
            l = subl[0] if subl else None
            ck.bad(rule + '.subtract', mod, l['stmt'] if l else fn, name, l['text'] if l else 'subtract',
                   'the subtract scheme must execute `net_flux[path[:-1], path[1:]] -= <min over the same edges>` on the '
                   'working copy itself: subtracting on a temporary (advanced indexing returns a copy) loses the '
                   'update, later paths re-use flux already explained' + (' [`%s` is %s[%s], a copy]' % (l['temp'], W, u(l['idx'])[:60]) if l else
                                                                          ' [no store into the working matrix subtracts anything]'))
        else:
            ck.missing(rule + '.subtract', '_subtract_path_flux: exactly one subtracting store into the working matrix (found %d candidate(s) among %d store(s))' % (
                len(cand), len(rest)))
    return summary


# ---------------------------------------------------------------------------
# D4: the cut-off loop of paths()

def _object_mutations(fi, name):
    """fi._mutated_in_place without the plain rebindings whose value merely calls a pure method of the old object (`x = x.copy()`)."""
    from ..normal import PURE_METHODS
    out = []
    for s in fi._mutated_in_place(name):
        if isinstance(s, ast.Assign) and all(isinstance(t, ast.Name) for t in s.targets) and all(
                c.func.attr in PURE_METHODS for c in ast.walk(s.value)
                if isinstance(c, ast.Call) and isinstance(c.func, ast.Attribute) and isinstance(c.func.value, ast.Name) and c.func.value.id == name):
            continue
        out.append(s)
    return out


def _loop_of(mod, node, fn):
    p = mod.parent.get(node)
    while p is not None and p is not fn:
        if isinstance(p, (ast.For, ast.While)):
            return p
        p = mod.parent.get(p)
    return None


def _break_polarity(g, clears=()):
    """True if the body of `if` g leaves the loop (break - or a flag assignment that is equivalent to a break, see
    _flag_breaks - as a top-level statement of the body), False if the else branch does, None otherwise."""
    if any(isinstance(x, ast.Break) or x in clears for x in g.body):
        return True
    if any(isinstance(x, ast.Break) or x in clears for x in g.orelse):
        return False
    return None


def _flag_breaks(mod, fn, fi, loop):
    """`while FLAG and <rest>:` where the flag plays the part of `break`: FLAG is a positive conjunct of the loop test,
    it is a truthy constant when the loop is entered, and inside the loop it is only ever assigned a falsy constant by
    statements after which NOTHING is executed before control is back at the loop header (only pure branch tests lie
    in between).  Such an assignment leaves the loop exactly like `break` (the header test fails on FLAG without
    evaluating the conjuncts to its right; conjuncts to its left are pure tests).  On iterations on which it is not executed
    FLAG is true and the header test is <rest>.  Returns (FLAG, [clearing statements], [remaining conjunct
    expressions]) or None."""
    from ..normal import is_pure
    if loop.orelse or not is_pure(loop.test):
        return None
    t = loop.test
    vals = t.values if isinstance(t, ast.BoolOp) and isinstance(t.op, ast.And) else [t]
    for cand in vals:
        if not isinstance(cand, ast.Name):
            continue
        FLAG = cand.id
        inner = [s for s in assigns_to(loop, FLAG)]
        if not inner or fi._mutated_in_place(FLAG):
            continue
        outer = [d for d in fi.defs_of_use(cand) if d not in inner]
        if len(outer) != 1 or not isinstance(outer[0], ast.Assign) or _inside(mod, outer[0], loop) or not (
                len(outer[0].targets) == 1 and isinstance(outer[0].targets[0], ast.Name)) or const_value(outer[0].value) not in (True, 1):
            continue
        good = True
        for s in inner:
            if not (isinstance(s, ast.Assign) and len(s.targets) == 1 and isinstance(s.targets[0], ast.Name) and const_value(s.value, 'x') in (False, 0)
                    and const_value(s.value, 'x') is not None and _loop_of(mod, s, fn) is loop):
                good = False
                break
            seen, work = set(), list(fi.cfg.succ.get(s, []))
            while work and good:
                n = work.pop()
                if n is loop or id(n) in seen:
                    continue
                seen.add(id(n))
                if isinstance(n, Assume) or isinstance(n, ast.Pass) or (isinstance(n, ast.If) and is_pure(n.test)):
                    work += fi.cfg.succ.get(n, [])
                else:
                    good = False
            if not good:
                break
        if good:
            return FLAG, inner, [v for v in vals if v is not cand]
    return None


def _flag_header(mod, fn, fi, loop):
    """`F = E; while F [and <rest>]:` where the flag F is a positive conjunct of the loop test and inside the loop is
    only assigned (a) a falsy constant or (b) the SAME pure expression E that initialises it, always by statements
    after which nothing is executed before control is back at the loop header (only pure branch tests, `pass` and
    `continue` lie in between), and every way round the loop passes such a statement.  Then at every evaluation of the
    loop test F is either False because of an (a)-statement - which therefore leaves the loop exactly like `break` - or
    it holds the value E has at that very moment (no operand of E can change between the assignment and the test;
    before the first test: no statement between the initialisation and the loop binds or mutates an operand of E).
    The loop is `while E [and <rest>]:` with the (a)-statements as breaks.
    Returns (F, [clearing statements], [E] + remaining conjuncts) or None."""
    from ..normal import is_pure
    if loop.orelse or not is_pure(loop.test):
        return None
    t = loop.test
    vals = t.values if isinstance(t, ast.BoolOp) and isinstance(t.op, ast.And) else [t]
    for cand in vals:
        if not isinstance(cand, ast.Name):
            continue
        FLAG = cand.id
        inner = [s for s in assigns_to(loop, FLAG)]
        if not inner or fi._mutated_in_place(FLAG):
            continue
        outer = [d for d in fi.defs_of_use(cand) if d not in inner]
        if len(outer) != 1 or not isinstance(outer[0], ast.Assign) or _inside(mod, outer[0], loop) or not (
                len(outer[0].targets) == 1 and isinstance(outer[0].targets[0], ast.Name)):
            continue
        init = outer[0]
        E = init.value
        if const_value(E, 'x') != 'x' or not is_pure(E) or FLAG in names_loaded(E):
            continue
        # initialisation and loop are neighbours in one statement list, nothing in between touches an operand of E
        holder = mod.parent.get(loop)
        sibs = None
        for f in ('body', 'orelse', 'finalbody'):
            b = getattr(holder, f, None)
            if isinstance(b, list) and loop in b and init in b:
                sibs = b[b.index(init) + 1:b.index(loop)]
        if sibs is None:
            continue
        ops = names_loaded(E)
        touched = False
        for s in sibs:
            for x in ast.walk(s):
                if isinstance(x, ast.Name) and isinstance(x.ctx, (ast.Store, ast.Del)) and x.id in ops | {FLAG}:
                    touched = True
            if any(s in fi._mutated_in_place(o) for o in ops) or any(isinstance(x, (ast.Break, ast.Continue, ast.Return, ast.Raise)) for x in ast.walk(s)):
                touched = True
        if touched:
            continue
        Et = u(canon(E))
        clears, good = [], True
        for s in inner:
            if not (isinstance(s, ast.Assign) and len(s.targets) == 1 and isinstance(s.targets[0], ast.Name) and _loop_of(mod, s, fn) is loop):
                good = False
                break
            k = const_value(s.value, 'x')
            if k != 'x' and k is not None and k in (False, 0):
                clears.append(s)
            elif u(canon(s.value)) != Et:
                good = False
                break
            if not _straight_to_header(fi, loop, s):
                good = False
                break
        if not good:
            continue
        # every way round the loop ends in one of these statements: walk back from the header through pure tests
        seen, work, ends = set(), [p for p in fi.cfg.pred.get(loop, []) if p is loop or _inside(mod, getattr(p, 'owner', p), loop)], True
        while work and ends:
            n = work.pop()
            if id(n) in seen or n in inner:
                continue
            seen.add(id(n))
            if isinstance(n, (Assume, ast.Pass, ast.Continue)) or (isinstance(n, ast.If) and is_pure(n.test)):
                work += fi.cfg.pred.get(n, [])
            else:
                ends = False      # (also the loop header itself: an iteration that executes nothing)
        if not ends:
            continue
        return FLAG, clears, [E] + [v for v in vals if v is not cand]
    return None


def _straight_to_header(fi, loop, s):
    """After statement `s` nothing is executed before control is back at the header of `loop`: only pure branch
    tests, `pass` and `continue` lie in between."""
    from ..normal import is_pure
    seen, work = set(), list(fi.cfg.succ.get(s, []))
    if not work:
        return False
    while work:
        n = work.pop()
        if n is loop or id(n) in seen:
            continue
        seen.add(id(n))
        if isinstance(n, (Assume, ast.Pass, ast.Continue)) or (isinstance(n, ast.If) and is_pure(n.test)):
            work += fi.cfg.succ.get(n, [])
        else:
            return False
    return True


def _after_guard(mod, cfg, g, s):
    """Statement s is executed only after the exit test of guard g was taken with the CONTINUING outcome: the test
    dominates s and s does not sit on the leaving side (if/else and guard-clause spellings alike)."""
    return cfg.dominates(g.node, s) and not any(s is x or _inside(mod, s, x) for x in g.leave) and (
        not _inside(mod, s, g.node) or isinstance(g.node, ast.If) and any(s is x or _inside(mod, s, x) for x in (g.node.orelse if g.pol else g.node.body)))


class _Guard:
    """A conditional exit of the path loop: the loop is left when `test` has the truth value `pol`.
    node   statement at which the decision is taken (dominance / reporting anchor)
    leave  statements executed only on the leaving side (the branch that holds the break)"""

    def __init__(self, node, test, pol, leave):
        self.node, self.test, self.pol, self.leave = node, test, pol, leave


def _flag_exit(mod, fn, fi, loop):
    """`while FLAG:` driven by a flag instead of `break`: FLAG is a truthy constant before the loop and is
    bound exactly once in the loop, by a top-level statement `FLAG = E` of the loop body, and every
    statement that follows it in the body is `if FLAG: ...` (no else).  Then once E is false nothing more
    is executed and the header test ends the loop, and while E is true the header test passes: the
    assignment is the exit `if not E: break`.  Returns the _Guard (node = the assignment, test = E,
    leaves when E is false) or None if the loop does not have that shape."""
    t = loop.test
    if not isinstance(t, ast.Name) or loop.orelse:
        return None
    FLAG = t.id
    inner = [s for s in assigns_to(loop, FLAG)]
    if len(inner) != 1 or not (isinstance(inner[0], ast.Assign) and len(inner[0].targets) == 1 and isinstance(inner[0].targets[0], ast.Name)) \
            or inner[0] not in loop.body:
        return None
    inner = inner[0]
    outer = [d for d in fi.defs_of_use(t) if d is not inner]
    if len(outer) != 1 or not isinstance(outer[0], ast.Assign) or _inside(mod, outer[0], loop) or not (
            len(outer[0].targets) == 1 and isinstance(outer[0].targets[0], ast.Name)) or const_value(outer[0].value) not in (True, 1):
        return None
    for s in loop.body[loop.body.index(inner) + 1:]:
        if not (isinstance(s, ast.If) and isinstance(s.test, ast.Name) and s.test.id == FLAG and not s.orelse):
            return None
    if FLAG in names_loaded(inner.value):
        return None
    return _Guard(inner, inner.value, False, [])


_CLOSE_FUNS = ('np.isclose', 'math.isclose', 'np.allclose', 'isclose', 'numpy.isclose', 'numpy.allclose')


def _tolerance_stop(fi, atom, limits, stop=()):
    """`atom` is a CONTINUE condition of a loop (conjuncts form).  If it says "go on only while <x> is NOT within a
    tolerance of the limit parameter L" - `not np.isclose(<x>, L, ...)` / math.isclose / np.allclose (either operand
    order), or `eps <= abs(<x> - L)` / `eps < abs(L - <x>)` with eps a non-negative numeric constant - i.e. the loop is
    left when <x> is merely CLOSE to L, return (L, <x>, text of the stop test); else None.  L must be the caller's
    value (a parameter that is not rebound)."""
    site = fi.stmt(atom.lhs if isinstance(atom, Cmp) else atom[1])     # (expanded nodes are copies: definitions are looked up at the test)

    def is_limit(e):
        return isinstance(e, ast.Name) and e.id in limits and site is not None and fi.rd.defs_at(site, e.id) == {'PARAM'}

    def pair(x, y):
        if is_limit(x) and not is_limit(y):
            return x.id, y
        if is_limit(y) and not is_limit(x):
            return y.id, x
        return None
    if isinstance(atom, Cmp):
        less = atom.as_less()
        if less is None:
            return None
        small, _strict, big = less
        eps = _fold_const(small)
        bx = fi.expand(big, stop=stop + tuple(limits))
        if eps is None or eps < 0 or not (isinstance(bx, ast.Call) and call_name(bx) in ('abs', 'np.abs', 'np.fabs', 'np.absolute', 'math.fabs')
                                           and len(bx.args) == 1 and not bx.keywords and isinstance(bx.args[0], ast.BinOp) and isinstance(bx.args[0].op, ast.Sub)):
            return None
        pr = pair(bx.args[0].left, bx.args[0].right)
        return None if pr is None else (pr[0], pr[1], '%s %s %s' % (u(bx), '<=' if _strict else '<', u(small)))
    _, e, pol = atom
    if pol:
        return None
    ex = fi.expand(e, stop=stop + tuple(limits))
    if isinstance(ex, ast.Call) and call_name(ex) in _CLOSE_FUNS and len(ex.args) >= 2 and not any(isinstance(a, ast.Starred) for a in ex.args):
        pr = pair(ex.args[0], ex.args[1])
        return None if pr is None else (pr[0], pr[1], u(ex))
    return None


def _search_results(mod, fn, fi, call, tps, loop):
    """The names that hold the two results of the search call, by role: `P, X = top_path(...)` (tuple unpacking), or
    `R = top_path(...)` with R bound only there, never used otherwise than as `R[0]` / `R[1]` (a tuple: nothing can
    change it) and each component bound to ONE name by a statement of the same loop that the call dominates
    (`P = R[0]`, `X = R[1]`, `P, X = R[0], R[1]`).  Returns (P, X, <statement binding P>, <statement binding X>) or None."""
    if not (isinstance(tps, ast.Assign) and tps.value is call and len(tps.targets) == 1):
        return None
    t = tps.targets[0]
    if isinstance(t, ast.Tuple) and len(t.elts) == 2 and all(isinstance(e, ast.Name) for e in t.elts):
        return t.elts[0].id, t.elts[1].id, tps, tps
    if not isinstance(t, ast.Name):
        return None
    R = t.id
    if [s for s in assigns_to(fn, R) if s is not tps] or fi._mutated_in_place(R):
        return None
    comp = {0: [], 1: []}
    for n in walk_local(fn):
        if not (isinstance(n, ast.Name) and n.id == R and isinstance(n.ctx, ast.Load)):
            continue
        sub = mod.parent.get(n)
        k = const_value(sub.slice) if isinstance(sub, ast.Subscript) and sub.value is n and isinstance(sub.ctx, ast.Load) else None
        if type(k) is not int or k not in (0, 1, -1, -2) or fi.defs_of_use(n) != {tps}:
            return None
        comp[k % 2].append(sub)
    out = []
    for k in (0, 1):
        if len(comp[k]) != 1:
            return None
        st = fi.stmt(comp[k][0])
        if not isinstance(st, ast.Assign) or _loop_of(mod, st, fn) is not loop or not fi.cfg.dominates(tps, st):
            return None
        names = [x.id for tt in st.targets for x in ([tt] if isinstance(tt, ast.Name) else tt.elts if isinstance(tt, (ast.Tuple, ast.List)) else [])
                 if isinstance(x, ast.Name) and fi.def_value(st, x.id) is comp[k][0]]
        if len(names) != 1 or len(st.targets) != 1:
            return None
        out.append((names[0], st))
    if out[0][0] == out[1][0]:
        return None
    return out[0][0], out[1][0], out[0][1], out[1][1]


def _fold_const(e):
    """Value of an arithmetic expression over numeric literals (constant folding), else None."""
    if isinstance(e, ast.Constant):
        return e.value if type(e.value) in (int, float) else None
    if isinstance(e, ast.UnaryOp) and isinstance(e.op, (ast.USub, ast.UAdd)):
        v = _fold_const(e.operand)
        return None if v is None else (-v if isinstance(e.op, ast.USub) else v)
    if isinstance(e, ast.BinOp) and isinstance(e.op, (ast.Add, ast.Sub, ast.Mult, ast.Div)):
        a, b = _fold_const(e.left), _fold_const(e.right)
        if a is None or b is None or (isinstance(e.op, ast.Div) and b == 0):
            return None
        return a + b if isinstance(e.op, ast.Add) else a - b if isinstance(e.op, ast.Sub) else a * b if isinstance(e.op, ast.Mult) else a / b
    return None


def _header_limits(fi, loop, npaths, cutoff, tests=None):
    """`while <q1> < num_paths [and <q2> < flux_cutoff]:` - the loop test as a list of (kind, Cmp) continue
    conditions, every one an ordering test against one of the two limit parameters; None if the test has
    any other shape."""
    if loop.orelse:
        return None
    out = []
    atoms = []
    for t in ([loop.test] if tests is None else tests):
        atoms += conjuncts(t, True) or [None]
    for a in atoms or [None]:
        if not isinstance(a, Cmp) or a.as_less() is None:
            return None
        sides = (fi.xu(a.lhs), fi.xu(a.rhs))
        pn = [x for x in (a.lhs, a.rhs) if isinstance(x, ast.Name) and x.id in (npaths, cutoff) and fi.defs_of_use(x) == {'PARAM'}]
        if len(pn) != 1 or not ((npaths in sides) ^ (cutoff in sides)):
            return None
        out.append(('count' if pn[0].id == npaths else 'expl', a))
    return out or None


def d4_paths(ck, mod, schemes=None):
    """The constructs are located by role: the search call `top_path(...)`
    fixes the loop, the working matrix (its third argument), the path and the
    flux; the lists are "what the path / the flux is appended to"; the
    counter and the explained fraction are "what is compared with the
    num_paths / flux_cutoff parameter in a guard that leaves the loop"; the
    removal is "the call whose result is rebound to the working matrix"."""
    rule = 'C17.D4.paths'
    F = 'paths'
    fn = mod.func('paths')
    ck.analysed(mod, fn)
    fi = finfo(mod, fn)
    cfg = fi.cfg
    sources, sinks, nf, rp, npaths, cutoff = params(fn)[:6]

    # ---- the search call
    calls = [c for c in calls_in(fn) if call_name(c) == 'top_path']
    if len(calls) != 1:
        ck.missing(rule + '.search', 'exactly one call of top_path in paths (found %d)' % len(calls))
        return
    call = calls[0]
    tps = fi.stmt(call)
    loop = _loop_of(mod, call, fn)
    found = _search_results(mod, fn, fi, call, tps, loop) if isinstance(loop, ast.While) else None
    if found is None:
        ck.missing(rule + '.search', '`<path>, <flux> = top_path(...)` inside a while loop')
        return
    # (PDEF / FDEF: the statements that bind the path / the flux of the current search - the call statement itself, or the
    # statements that read component 0 / 1 of its result)
    PATH, FLUX, PDEF, FDEF = found
    tpp = params(mod.func('top_path'))[:3]
    amap = dict(zip(tpp, call.args))
    for k in call.keywords:
        if k.arg in tpp and k.arg not in amap:
            amap[k.arg] = k.value
    if len(amap) != 3 or len(call.args) > 3 or any(isinstance(a, ast.Starred) for a in call.args) or not isinstance(amap[tpp[2]], ast.Name):
        ck.missing(rule + '.search', 'arguments of `%s`' % u(call))
        return
    W = amap[tpp[2]].id
    vs = classify(ast.Tuple(elts=[fi.expand(amap[tpp[0]], stop=(sources, sinks, W)), fi.expand(amap[tpp[1]], stop=(sources, sinks, W))], ctx=ast.Load()),
                  ['(%s, %s)' % (sources, sinks)], scope={sources, sinks, W, nf})
    ck.decide(vs, rule + '.search', mod, tps, F, u(tps), 'the search runs from the sources to the sinks', 'top_path must be called with (sources, sinks, <working matrix>)')
    flag, header, clears = None, [], []
    if fi.xu(loop.test) not in ('True', '1'):
        flag = _flag_exit(mod, fn, fi, loop)
        if flag is None:
            fb = _flag_breaks(mod, fn, fi, loop)
            if fb is not None:
                clears = fb[1]
                header = _header_limits(fi, loop, npaths, cutoff, tests=fb[2]) if fb[2] else []
            else:
                fh = _flag_header(mod, fn, fi, loop)
                if fh is not None:
                    clears = fh[1]
                    header = _header_limits(fi, loop, npaths, cutoff, tests=fh[2])
                else:
                    header = _header_limits(fi, loop, npaths, cutoff)
        if flag is None and header is None:
            ck.missing(rule + '.loop', 'loop condition `%s` of the path loop is neither constant, nor a flag that is set once per iteration with everything '
                       'after it guarded by the flag, nor a flag that holds the value of a limit test at every evaluation of the loop test, '
                       'nor a conjunction of tests of num_paths / flux_cutoff: exits through the loop test are not modelled' % u(loop.test))
            return

    # ---- the removal: `W = <callable>(W, PATH)` in the loop; W is a copy of the parameter before the loop
    rebinds = [s for s in assigns_to(loop, W)]
    rem = [s for s in rebinds if isinstance(s, ast.Assign) and len(s.targets) == 1 and isinstance(s.targets[0], ast.Name) and isinstance(s.value, ast.Call)
           and isinstance(s.value.func, ast.Name)]
    wdefs = fi.rd.defs_at(tps, W)
    RPN = None
    if len(rebinds) == 1 and len(rem) == 1:
        rm = rem[0]
        RPN = rm.value.func.id
        va = classify(ast.Tuple(elts=[fi.expand(a, stop=(W, PATH, FLUX)) for a in rm.value.args], ctx=ast.Load()), ['(%s, %s)' % (W, PATH)], scope={W, PATH, FLUX, nf}) \
            if not rm.value.keywords else ('far', 0, None)
        ck.decide(va, rule + '.replace', mod, rm, F, u(rm), 'the removal result replaces the working matrix',
                  'net_flux = remove_path(net_flux, path) expected: otherwise the same path is found again')
        if rm not in wdefs:
            ck.bad(rule + '.replace', mod, rm, F, u(rm), 'the matrix returned by the removal never reaches the next top_path call')
    elif not rebinds:
        dropped = [c for c in calls_in(loop) if isinstance(c.func, ast.Name) and isinstance(fi.stmt(c), ast.Expr) and fi.stmt(c).value is c
                   and [u(a) for a in c.args] == [W, PATH]]
        if dropped:
            ck.bad(rule + '.replace', mod, dropped[0], F, u(dropped[0]), 'the result of the removal is discarded: the working matrix is never replaced, the same path is found again')
            RPN = dropped[0].func.id
        else:
            ck.missing(rule + '.replace', 'removal step `%s = <remove_path>(%s, %s)` in the loop' % (W, W, PATH))
        rm = None
    else:
        ck.missing(rule + '.replace', 'the working matrix `%s` is rebound %d times in the loop' % (W, len(rebinds)))
        return
    outer = [d for d in wdefs if d is not rm]
    if 'PARAM' in outer:
        ck.bad(rule + '.copy', mod, tps, F, 'copy', 'paths must copy net_flux before the loop: the search and the removal functions would receive the caller\'s matrix')
    elif len(outer) == 1 and isinstance(outer[0], ast.Assign) and not _inside(mod, outer[0], loop) and fi.rd.defs_at(outer[0], nf) == {'PARAM'}:
        v = classify(fi.expand(outer[0].value, stop=(nf,)), _copy_forms(nf), scope={nf})
        ck.decide(v, rule + '.copy', mod, outer[0], F, u(outer[0]), 'paths works on its own copy of the flux matrix', 'paths must copy net_flux before the loop')
    else:
        ck.missing(rule + '.copy', 'definition of the working matrix `%s` before the loop' % W)

    # ---- registry: scheme names -> functions.  Every binding `<callable> = <scheme function>` is judged by the
    # branch conditions that dominate it (CFG assumes: insensitive to nesting / elif chains / guard clauses)
    if RPN is not None:
        want = {'subtract': '_subtract_path_flux', 'bottleneck': '_remove_bottleneck'}
        reg, odd, wrong = {}, [], []
        binds = [s for s in assigns_to(fn, RPN) if s is not rm]
        for s in binds:
            val = u(s.value) if isinstance(s, ast.Assign) and len(s.targets) == 1 and isinstance(s.targets[0], ast.Name) else None
            if val == rp and fi.rd.defs_at(s, rp) == {'PARAM'}:
                continue                                     # the caller's own callable is passed through
            if val not in want.values() or _inside(mod, s, loop):
                odd.append(s)
                continue
            own = [k for k in want if want[k] == val][0]
            eq, ne, under_callable = set(), set(), None
            for a in _assumes(fi, mod, s):
                for at in conjuncts(a.test, a.polarity) or [None]:
                    if isinstance(at, Cmp) and at.op in (ast.Eq, ast.NotEq):
                        x, c = (at.lhs, at.rhs) if not isinstance(at.lhs, ast.Constant) else (at.rhs, at.lhs)
                        if isinstance(x, ast.Name) and x.id == rp and fi.defs_of_use(x) == {'PARAM'} and isinstance(c, ast.Constant) and isinstance(c.value, str):
                            (eq if at.op is ast.Eq else ne).add(c.value)
                            continue
                    if isinstance(at, tuple) and u(at[1]) == 'callable(%s)' % rp:
                        if at[2]:
                            under_callable = a.owner
                        continue
                    odd.append(a.owner)
            if under_callable is not None:
                wrong.append((under_callable, 'callable(%s)' % rp, "the scheme names are only looked up when %s is callable: 'subtract' / 'bottleneck' are "
                              "never mapped to their functions" % rp))
            elif own in ne or (eq and own not in eq):
                wrong.append((s, u(s), "`%s` is bound when %s is %s: '%s' must select %s" % (
                    val, rp, ' / '.join(['not %r' % k for k in sorted(ne)] + [repr(k) for k in sorted(eq)]), own, val)))
            elif own in eq:
                reg[own] = val
            else:
                odd.append(s)
        rdefs = fi.rd.defs_at(rm, RPN) if rm is not None else set()
        for d in rdefs:
            if not (d == 'PARAM' and RPN == rp) and d not in binds:
                odd.append(d)
        seen = set()
        for node, construct, why in wrong:
            if construct not in seen:
                seen.add(construct)
                ck.bad(rule + '.registry', mod, node, F, construct, why + " ('subtract' must map to _subtract_path_flux and 'bottleneck' to _remove_bottleneck)")
        if not wrong:
            if reg == want and not odd:
                ck.ok(rule + '.registry', mod, fn, str(reg), 'scheme names map to their functions')
            else:
                ck.missing(rule + '.registry', "binding of the removal callable `%s` from the scheme names 'subtract' / 'bottleneck' (recognised: %s)" % (RPN, reg))

    # ---- recording
    def appends(x, site):
        out = []
        for c in calls_in(loop):
            if isinstance(c.func, ast.Attribute) and c.func.attr == 'append' and isinstance(c.func.value, ast.Name) and len(c.args) == 1 \
                            and fi.xu(c.args[0], stop=(x,)) == x and fi.rd.defs_at(fi.stmt(c), x) == {site}:
                out.append(c)
        return out
    recp, recf = appends(PATH, PDEF), appends(FLUX, FDEF)
    if len(recp) != 1 or len(recf) != 1:
        ck.missing(rule + '.order', 'recording steps `<paths>.append(%s)` and `<fluxes>.append(%s)` in the loop (found %d / %d)' % (PATH, FLUX, len(recp), len(recf)))
        return
    PATHS, FLUXES = recp[0].func.value.id, recf[0].func.value.id
    rec = [fi.stmt(recp[0]), fi.stmt(recf[0])]
    for L, st in ((PATHS, rec[0]), (FLUXES, rec[1])):
        ds = [d for d in fi.rd.defs_at(st, L)]
        okl = len(ds) == 1 and isinstance(ds[0], ast.Assign) and not _inside(mod, ds[0], loop) and fi.def_value(ds[0], L) is not None \
            and u(fi.def_value(ds[0], L)) in ('[]', 'list()') \
            and _object_mutations(fi, L) == [st]
        if not okl:
            ck.missing(rule + '.order', 'the result list `%s` is not an empty list that only grows by the one append in the loop' % L)
            return

    # ---- guards that leave the loop
    guards = []
    exits = [x for x in walk_local(loop) if isinstance(x, (ast.Break, ast.Continue, ast.Return, ast.Raise))] + list(clears)
    for g in [x for x in walk_local(loop) if isinstance(x, ast.If) and _loop_of(mod, x, fn) is loop]:
        pol = _break_polarity(g, clears)
        if pol is None:
            continue
        branch = g.body if pol else g.orelse
        exits = [x for x in exits if x not in branch]
        guards.append(_Guard(g, g.test, pol, branch))
    if flag is not None:
        guards.append(flag)
    if exits:
        ck.missing(rule + '.order', 'exit from the path loop not modelled: `%s`' % u(exits[0])[:80])
        return
    nopath_forms = ['np.isinf(%s)' % FLUX, '%s == -np.inf' % FLUX, '-np.inf == %s' % FLUX, "%s == float('-inf')" % FLUX, 'np.isneginf(%s)' % FLUX]
    atoms = {'count': [], 'expl': [], 'nopath': [], 'nopath_inv': [], 'bound': [], 'other': [], 'tol': []}
    bound_forms = ['_A + %s / _T' % FLUX, '%s / _T + _A' % FLUX]
    for g in guards:
        pol, cont = g.pol, conjuncts(g.test, not g.pol)
        if cont is None:
            stop = conjuncts(g.test, pol) or []
            names = set()
            for a in stop:
                for e in ((a.lhs, a.rhs) if isinstance(a, Cmp) else (a[1],)):
                    names |= names_loaded(e)
            if names & {npaths, cutoff}:
                ck.bad(rule + '.limits', mod, g.node, F, u(g.test), 'the loop must stop when the requested number of paths OR the explained fraction is reached: '
                       'here the loop is left only when %s hold at once (%s), so one limit alone never ends it' % (
                           ' AND '.join('`%s`' % (a if isinstance(a, Cmp) else ('' if a[2] else 'not ') + u(a[1])) for a in stop),
                           'the loop goes on while `%s`' % u(g.test) if not pol else 'the break test is a conjunction'))
                return
            atoms['other'].append((g, None))
            continue
        for a in cont:
            tol = _tolerance_stop(fi, a, (npaths, cutoff), stop=(W, PATH, FLUX))
            if tol is not None:
                # the loop is ALSO left when <x> is merely close to a limit: judged below, once the limit tests are known
                atoms['tol'].append((g, a, tol))
            elif isinstance(a, Cmp):
                less = a.as_less()
                sides = (fi.xu(a.lhs), fi.xu(a.rhs))
                if npaths in sides and less is not None:
                    atoms['count'].append((g, a))
                elif cutoff in sides and less is not None:
                    atoms['expl'].append((g, a))
                elif a.op in (ast.NotEq, ast.Eq) and classify(ast.Compare(left=a.lhs, ops=[ast.Eq()], comparators=[a.rhs]), nopath_forms)[0] == 'match':
                    atoms['nopath' if a.op is ast.NotEq else 'nopath_inv'].append((g, a))
                elif less is not None and _fold_const(less[2]) is not None and classify(fi.expand(less[0], stop=(W, PATH, FLUX)), bound_forms)[0] == 'match':
                    # continue only while <explained so far> + flux / <total> <= K: a bound on the explained total
                    atoms['bound'].append((g, a))
                else:
                    atoms['other'].append((g, a))
            else:
                _, e, p = a
                ex = fi.expand(e, stop=(PATH, FLUX))
                isinf_, isfin_ = classify(ex, nopath_forms)[0] == 'match', classify(ex, ['np.isfinite(%s)' % FLUX])[0] == 'match'
                if (isinf_ and not p) or (isfin_ and p):
                    atoms['nopath'].append((g, a))
                elif isinf_ or isfin_:
                    atoms['nopath_inv'].append((g, a))
                else:
                    atoms['other'].append((g, a))
    # a way out on a TOLERANCE test of a limit (`np.isclose(<q>, <limit>)`, `abs(<q> - <limit>) < eps`): if <q> is the very
    # quantity whose ordering test against that limit is the stopping rule, the loop now also stops while <q> < <limit> -
    # the limit is not honoured (paths that carry a small share of the flux are dropped); any other operand is not judged
    for g, a, (param, other, what) in atoms['tol']:
        kind = 'count' if param == npaths else 'expl'
        qs = {fi.xu(x[1].as_less()[0]) for x in atoms[kind] if fi.xu(x[1].as_less()[2]) == param}
        if fi.xu(other) in qs:
            ck.bad(rule + '.limits', mod, g.node, F, u(g.test), 'the loop must go on until <quantity> >= %s: here it is also left when `%s` holds, i.e. as soon as `%s` '
                   'comes within a tolerance of %s from below (np.isclose / math.isclose: relative 1e-5 / 1e-9 by default) - the remaining pathways, which together carry the missing share of the '
                   'flux, are never enumerated although the limit asks for them' % (param, what, fi.xu(other), param))
        else:
            atoms['other'].append((g, a))
    if atoms['other']:
        g, a = atoms['other'][0]
        ck.missing(rule + '.limits', 'condition `%s` of a guard that leaves the path loop is not modelled' % u(g.test)[:100])
        return

    # ---- no path left: stop before anything is recorded
    for g, a in atoms['nopath_inv']:
        ck.bad(rule + '.no-path', mod, g.node, F, u(g.test), 'the loop goes on only when the flux IS infinite (no path found) and stops as soon as a real path is found')
    if atoms['nopath_inv']:
        return
    early = [(g, a) for g, a in atoms['nopath'] if cfg.dominates(FDEF, g.node) and all(_after_guard(mod, cfg, g, s) for s in rec)]
    if early:
        ck.ok(rule + '.no-path', mod, early[0][0].node, u(early[0][0].test), 'stop (without recording) when no source->sink path is left')
    elif atoms['nopath']:
        g = atoms['nopath'][0][0]
        ck.bad(rule + '.no-path', mod, g.node, F, u(g.test), 'an infinite flux (no path) must end the loop before anything is recorded: here the test is made '
               'after `%s`, so the sentinel result of top_path is returned as a pathway' % u(rec[0]))
    else:
        between = [x for x in walk_local(loop) if isinstance(x, ast.If) and cfg.dominates(x, rec[0]) and names_loaded(x.test) & {FLUX, PATH}]
        if between:
            ck.missing(rule + '.no-path', 'guard `%s` before the recording step not recognised as the no-path test' % u(between[0].test)[:80])
        else:
            ck.bad(rule + '.no-path', mod, rec[0], F, 'isinf', 'an infinite flux (no path) must end the loop before anything is recorded: '
                   'no test of the flux precedes `%s`' % u(rec[0]))

    # ---- limits
    def limit(kind, param, what):
        """the guard atom `<quantity> < param` (continue condition); returns (guard, quantity expr) or None"""
        al = atoms[kind]
        if not al:
            used = [n for n in walk_local(fn) if isinstance(n, ast.Name) and n.id == param and isinstance(n.ctx, ast.Load)]
            if not used:
                ck.bad(rule + '.limits', mod, loop, F, param, 'the parameter %s is never tested: %s' % (param, what))
            else:
                ck.missing(rule + '.limits', 'test of %s in a guard that leaves the loop' % param)
            return None
        if len(al) > 1:
            ck.missing(rule + '.limits', '%s is tested in %d guards' % (param, len(al)))
            return None
        g, a = al[0]
        small, strict, big = a.as_less()
        if fi.xu(big) == param and strict:
            return g, small
        # the continue condition is not `<quantity> < param`
        ck.bad(rule + '.limits', mod, g.node, F, u(g.test), 'the loop must stop as soon as <quantity> >= %s (%s); here it continues while `%s`' % (param, what, a))
        return None
    lc = limit('count', npaths, 'otherwise one path too many / too few is returned')
    le = limit('expl', cutoff, 'otherwise the explained-flux cut-off is missed')
    ordered = []
    if lc is not None:
        g, q = lc
        qx = fi.xu(q)
        if qx in ('len(%s)' % PATHS, 'len(%s)' % FLUXES):
            L = PATHS if qx == 'len(%s)' % PATHS else FLUXES
            st = rec[0] if L == PATHS else rec[1]
            ck.check(cfg.dominates(st, g.node), rule + '.limits', mod, g.node, F, u(g.test), 'number of paths found = length of the result list, tested after recording',
                     'len(%s) is tested before the current path is recorded: one path too many' % L)
        elif isinstance(q, ast.Name):
            ds = list(fi.defs_of_use(q))
            incs = [d for d in ds if not isinstance(d, str) and _inside(mod, d, loop)]
            inc = incs[0] if len(incs) == 1 else None
            one = inc is not None and _loop_of(mod, inc, fn) is loop and (
                isinstance(inc, ast.AugAssign) and isinstance(inc.op, ast.Add) and const_value(inc.value) == 1 or
                isinstance(inc, ast.Assign) and u(canon(inc.value)) in (C('%s + 1' % q.id), C('1 + %s' % q.id)))
            if not one and inc is not None and isinstance(inc, ast.AugAssign) and _loop_of(mod, inc, fn) is loop and const_value(inc.value) is not None:
                ck.bad(rule + '.limits', mod, inc, F, u(inc), 'the number of recorded paths must advance by `+= 1` per path')
            elif not one:
                ck.missing(rule + '.limits', 'the path counter `%s` is not advanced by exactly one `+= 1` per iteration' % q.id)
            elif len(ds) != 1:
                ck.bad(rule + '.limits', mod, g.node, F, u(g.test), 'the path counter `%s` is tested before `%s` has run for the path just recorded: one path too many is returned' % (q.id, u(inc)))
            else:
                init = [d for d in fi.rd.defs_at(inc, q.id) if d is not inc]
                vi = ('match', {}) if len(init) == 1 and isinstance(init[0], ast.Assign) and const_value(init[0].value) == 0 and not _inside(mod, init[0], loop) \
                    else ('near', 1, '0') if len(init) == 1 and isinstance(init[0], ast.Assign) and const_value(init[0].value) is not None else ('far', 0, None)
                ck.decide(vi, rule + '.limits', mod, init[0] if len(init) == 1 and init[0] not in ('PARAM', 'UNBOUND') else inc, F,
                          u(init[0]) if len(init) == 1 and init[0] not in ('PARAM', 'UNBOUND') else q.id,
                          'path counter starts at 0', 'the path counter must start at 0')
                ck.check(all(cfg.dominates(s, inc) or cfg.dominates(inc, s) for s in rec) and cfg.dominates(tps, inc) and
                         all(cfg.dominates(e[0].node, inc) for e in early), rule + '.limits', mod, inc, F, u(inc),
                         'the counter advances once per recorded path', 'the counter must advance exactly when a path is recorded')
                ordered.append(inc)
        else:
            ck.missing(rule + '.limits', 'quantity `%s` compared with %s is not a counter of the recorded paths' % (u(q), npaths))
    acc, T_acc, ACC = None, None, None
    if le is not None:
        g, q = le
        ds = list(fi.defs_of_use(q)) if isinstance(q, ast.Name) else []
        acc = ds[0] if len(ds) == 1 and not isinstance(ds[0], str) and _inside(mod, ds[0], loop) and _loop_of(mod, ds[0], fn) is loop else None
        term = None
        if isinstance(acc, ast.AugAssign) and isinstance(acc.op, ast.Add):
            term = acc.value
        elif isinstance(acc, ast.Assign) and isinstance(acc.value, ast.BinOp) and isinstance(acc.value.op, ast.Add):
            l, r_ = acc.value.left, acc.value.right
            term = r_ if u(l) == q.id else l if u(r_) == q.id else None
        if term is None and isinstance(acc, ast.AugAssign) and classify(fi.expand(acc.value, stop=(W, PATH, FLUX)), ['%s / _T' % FLUX])[0] == 'match':
            ck.bad(rule + '.limits', mod, acc, F, u(acc), 'the explained fraction must ACCUMULATE flux / total (+=)')
            acc = None
        elif term is None:
            ck.missing(rule + '.limits', 'accumulation `<explained> += %s / <total>` of the quantity compared with %s' % (FLUX, cutoff))
            acc = None
        else:
            vt = classify(fi.expand(term, stop=(W, PATH, FLUX)), ['%s / _T' % FLUX], near=1)
            T = vt[1].get('_T') if vt[0] == 'match' else None
            ck.decide(vt, rule + '.limits', mod, acc, F, u(acc), 'explained fraction accumulates flux / total', 'expl_flux += flux / total_flux expected')
            init = [d for d in fi.rd.defs_at(acc, q.id) if d is not acc]
            vi = ('match', {}) if len(init) == 1 and isinstance(init[0], ast.Assign) and _is_zero(init[0].value) and not _inside(mod, init[0], loop) \
                else ('near', 1, '0.0') if len(init) == 1 and isinstance(init[0], ast.Assign) and const_value(init[0].value) is not None else ('far', 0, None)
            ck.decide(vi, rule + '.limits', mod, init[0] if vi[0] != 'far' else acc, F, u(init[0]) if vi[0] != 'far' else q.id,
                      'explained fraction starts at 0', 'the explained fraction must start at 0')
            ordered.append(acc)
            if vt[0] == 'match' and isinstance(q, ast.Name):
                T_acc, ACC = vt[1].get('_T'), q.id
            if vt[0] == 'match':
                # the divisor: total outflow of the sources (of the matrix as it is before any path is removed)
                tot_forms = []
                for X in sorted({W, nf}):
                    tot_forms += ['%s[%s, :].sum()' % (X, sources), '%s[%s].sum()' % (X, sources), '%s[%s, :].sum(axis=1).sum()' % (X, sources)]
                tdef, texpr = None, None
                if isinstance(T, ast.Name):
                    tds = list(fi.rd.defs_at(acc, T.id))     # (expansion keeps operands whose definitions are the same at the use)
                    if len(tds) == 1 and isinstance(tds[0], ast.Assign) and not _inside(mod, tds[0], loop) and \
                            (rm is None or rm not in fi.rd.defs_at(tds[0], W)) and fi.def_value(tds[0], T.id) is not None:
                        tdef = tds[0]
                        texpr = fi.expand(fi.def_value(tdef, T.id), stop=(sources, W, nf))
                elif rm is None or rm not in fi.rd.defs_at(acc, W):
                    tdef, texpr = acc, T          # the total is recomputed in place: W still is the initial copy there
                if texpr is None:
                    ck.missing(rule + '.total', 'definition of the total flux `%s` before the loop' % u(T)[:60])
                else:
                    v = classify(texpr, tot_forms, scope={W, nf, sources})
                    ck.decide(v, rule + '.total', mod, tdef, F, u(tdef), 'total = outflow of the sources (rows)', 'total_flux must be the sum of the source ROWS')
    if lc is not None and le is not None:
        ck.ok(rule + '.limits', mod, lc[0].node, u(lc[0].test), 'stop when the requested number of paths OR the explained fraction is reached')

    # ---- limits tested in the loop header: same quantities as in the guards after the recording, `<quantity> < <limit>`
    head_ok = {}
    for kind, a in header:
        mine = {'count': lc, 'expl': le}[kind]
        param = {'count': npaths, 'expl': cutoff}[kind]
        small, strict, big = a.as_less()
        if fi.xu(big) != param:
            ck.bad(rule + '.limits', mod, loop, F, 'loop test: %s' % a, 'the loop may only continue while <quantity> < %s; here it continues while `%s`' % (param, a))
        elif mine is None:
            ck.missing(rule + '.limits', 'the limit %s is tested in the loop header only (`%s`): no guard between the recording and the removal' % (param, a))
        elif u(small) != u(mine[1]):
            ck.missing(rule + '.limits', 'the loop header compares `%s` with %s, the guard after the recording `%s`' % (u(small), param, u(mine[1])))
        elif not strict:
            ck.bad(rule + '.limits', mod, loop, F, 'loop test: %s' % a, 'the loop must not be entered once <quantity> >= %s: `%s` lets one more path through' % (param, a))
        else:
            head_ok[kind] = a
            ck.ok(rule + '.limits', mod, loop, 'loop test: %s' % a, 'the limit is also tested before every search')

    # ---- the path-count limit also holds for the FIRST path (num_paths = 0 is a path count): some test of num_paths
    # must be passed on every way from the entry to the recording step.  The counter was shown to start at 0 and to
    # advance only after a recording, so a test that comes after the recording cannot stop the first path.
    if lc is not None:
        g0, q0 = lc
        pre = 'count' in head_ok or any(all(_after_guard(mod, cfg, g, s_) for s_ in rec) for g, _a in atoms['count'])
        if pre:
            ck.ok(rule + '.limits.first-path', mod, loop, 'num_paths tested before the first recording', 'a request for zero paths records nothing')
        else:
            ck.bad(rule + '.limits.first-path', mod, g0.node, F, 'num_paths is first tested after a path has been recorded',
                   'the requested number of paths must be respected for every count, 0 included: `%s` is evaluated only after `%s`, and no test of %s is '
                   'passed between the entry of paths() and the first recording, so paths(..., %s=0) returns one pathway' % (
                       u(g0.test)[:80], u(rec[0])[:60], npaths, npaths))

    # ---- the pathway fluxes never add up to more than the total outflow of the sources: the recorded paths must form a
    # feasible flow.  Either every built-in removal scheme deducts the path flux from EVERY edge of the path (then each
    # path uses up capacity on its own source edge), or the loop refuses a path that would lift the explained total above 1.
    if schemes is not None:
        srule = 'C17.D3.removal.sum-bound'
        bound_ok, bound_unknown = False, None
        for g, a in atoms['bound']:
            small, strict, big = a.as_less()
            vb = classify(fi.expand(small, stop=(W, PATH, FLUX)), bound_forms)
            K = _fold_const(big)
            placed = cfg.dominates(tps, g.node) and all(_after_guard(mod, cfg, g, s_) for s_ in rec)
            if vb[0] == 'match' and ACC is not None and u(vb[1]['_A']) == ACC and T_acc is not None and u(vb[1]['_T']) == u(T_acc) \
                    and K is not None and 1 <= K <= 1 + 1e-6 and placed:
                bound_ok = True
            else:
                bound_unknown = g
        for name in sorted(schemes):
            eff = schemes[name]
            if eff['effect'] == 'consumes':
                ck.ok(srule, mod, eff['node'], '%s: path flux deducted from every edge of the path' % name, 'the recorded paths form a feasible flow')
            elif eff['effect'] == 'single-edge' and bound_ok:
                ck.ok(srule, mod, eff['node'], '%s: single edge removed; paths() refuses a path that over-explains' % name, 'explained total bounded in the loop')
            elif eff['effect'] == 'single-edge' and bound_unknown is not None:
                ck.missing(srule, 'guard `%s` before the recording step not recognised as a bound of the explained total' % u(bound_unknown.test)[:80])
            elif eff['effect'] == 'single-edge':
                ck.bad(srule, mod, eff['node'], name, 'only the bottleneck edge of a recorded path is removed and paths() does not bound the explained total',
                       'the sum of the pathway fluxes must never exceed the total outflow of the sources, for both removal schemes: %s changes '
                       'one edge of the path and leaves the flux already attributed to the path on all its other edges, so later paths use that '
                       'flux again (e.g. two paths through the same source edge), and the loop of paths() adds every bottleneck to the explained '
                       'flux without an upper bound' % name)
            # (effect None: the scheme itself was reported by C17.D3.removal.*)

    # ---- order: record -> test -> remove
    lim_guards = [x[0] for x in (lc, le) if x is not None]
    if lim_guards:
        first_g = [g for g in lim_guards if all(g.node is h.node or cfg.dominates(g.node, h.node) for h in lim_guards)]
        before = rec + ordered
        ok_before = all(cfg.dominates(s, g.node) and not _inside(mod, s, g.node) for s in before for g in lim_guards) and all(cfg.dominates(tps, s) for s in before)
        ok_after = rm is None or all(cfg.dominates(g.node, rm) and not any(rm is x or _inside(mod, rm, x) for x in g.leave) for g in lim_guards)
        ck.check(ok_before and ok_after and bool(first_g), rule + '.order', mod, lim_guards[0].node, F, 'record -> test -> remove',
                 'path is recorded, then the limits are tested, then the path is removed',
                 'the loop must record the path (and update counter and explained flux), test the limits, and only then remove the path')

    # ---- result
    r = returns_of(fn)
    if len(r) != 1 or not isinstance(r[0].value, ast.Tuple) or len(r[0].value.elts) != 2 or _inside(mod, r[0], loop):
        ck.missing(rule + '.return', 'single `return <paths>, <fluxes>` after the loop')
        return
    e0, e1 = r[0].value.elts
    if isinstance(e1, ast.Name):
        ds = list(fi.defs_of_use(e1))
        if len(ds) == 1 and isinstance(ds[0], ast.Assign) and not _inside(mod, ds[0], loop) and u(ds[0].value) not in ('[]', 'list()'):
            e1 = ds[0].value
    v0 = classify(e0, [PATHS], scope={PATHS, FLUXES})
    v1 = classify(e1, ['np.array(%s)' % FLUXES, 'np.asarray(%s)' % FLUXES, 'np.array(%s, dtype=float)' % FLUXES, 'np.asarray(%s, dtype=float)' % FLUXES],
                  scope={PATHS, FLUXES})
    ck.decide(v0 if v0[0] != 'match' else v1, rule + '.return', mod, r[0], F, u(r[0]), 'returns (paths, fluxes)', 'must return (paths, np.array(fluxes))')

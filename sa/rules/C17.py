"""C17 Pathways: caller's flux matrix unchanged, widest-path search
structure, path-removal schemes, cut-off loop."""
import ast

from ..core import (AnalysisIncomplete, call_name, const_value, kwarg,
                    names_loaded, params, target_names, u, walk_expr,
                    walk_local)
from ..patterns import (Cmp, assigns_to, calls_in, check_no_arg_mutation,
                        conjuncts, finfo, returns_of, subscript_stores)
from ..match import C, CS, canon, classify

PA = 'enspara/tpt/path.py'

EXPLANATION = (
    'Static decision of the structural necessary conditions of the pathway '
    'contract: (D1) no store reaches the caller\'s flux matrix in top_path, '
    'paths or the two removal schemes (each rebinds the parameter to a copy '
    'before its first store; advanced-index reads are copies); (D2) the '
    'frontier node popped is argmax of min_fluxes over the queue, neighbours '
    'are the strictly positive entries of its row, the relaxation value is '
    'the edge flux clipped to the upstream bottleneck, a neighbour is updated '
    'only if unvisited and strictly improved, predecessor and bottleneck are '
    'written under the same index set, the reported flux is min_fluxes at the '
    'chosen (argmax) sink and the path is rebuilt by predecessor links; (D3) '
    'the subtract scheme writes the subtraction THROUGH to the working matrix '
    '(augmented store on the path edges of the copy) and zeroes the '
    'bottleneck; the bottleneck scheme zeroes the argmin edge; names map to '
    'schemes; (D4) paths() records path and flux, then tests counter >= '
    'num_paths or explained >= cutoff, then replaces the working copy by the '
    'removal result. Optimality among all paths is not decided.')


def check(ck):
    mod = ck.repo.mod(PA)
    d2_top_path(ck, mod)
    d3_removal(ck, mod)
    d4_paths(ck, mod)
    check_no_arg_mutation(ck, 'C17.D1.inputs-unmodified', [
        (PA, 'top_path'), (PA, 'paths'), (PA, '_remove_bottleneck'), (PA, '_subtract_path_flux')])
    return EXPLANATION


def d2_top_path(ck, mod):
    """Widest-path search.  The constructs are located by ROLE (which object
    is popped from, which array is indexed by the queue inside the pop
    argument, ...) and compared after expanding temporaries (fi.xu), so the
    rule is independent of local names and of which sub-expressions carry a
    name.  An unrecognised shape is reported as analysis-incomplete; a
    violation is reported only for a recognised construct with a semantically
    relevant position changed (match.classify: near)."""
    rule = 'C17.D2.search'
    fn = mod.func('top_path')
    ck.analysed(mod, fn)
    fi = finfo(mod, fn)
    sources, sinks, nf = params(fn)[:3]
    F = 'top_path'

    # --- the frontier: `<tn> = Q.pop(<pos>)` inside a while loop over Q
    pops = [(l, c) for l in walk_local(fn) if isinstance(l, ast.While)
            for c in calls_in(l) if isinstance(c.func, ast.Attribute) and c.func.attr == 'pop' and isinstance(c.func.value, ast.Name)]
    if not pops:
        ck.missing(rule + '.pop', 'no `<queue>.pop(...)` inside a while loop in top_path: search loop not recognised')
        return
    loop, pop = pops[0]
    Q = pop.func.value.id
    if not pop.args or isinstance(pop.args[0], ast.Constant):
        ck.bad(rule + '.pop', mod, pop, F, u(pop), 'the frontier is popped by position (%s): the node expanded next must be the one with the LARGEST '
               'bottleneck so far (widest-path Dijkstra), not the first/last queued' % u(pop))
        return
    v = classify(fi.expand(pop.args[0]), ['_MF[%s].argmax()' % Q, 'int(_MF[%s].argmax())' % Q])
    ck.decide(v, rule + '.pop', mod, pop, F, u(pop), 'frontier node with the LARGEST bottleneck is expanded next',
              'the node popped must be the queue position of argmax(<bottleneck array>[queue]) (widest-path Dijkstra); '
              'argmin / plain pop() expands a worse node first and finalises sub-optimal bottlenecks')
    if v[0] != 'match' or not isinstance(v[1]['_MF'], ast.Name):
        return
    MF = v[1]['_MF'].id
    pst = fi.stmt(pop)
    if not (isinstance(pst, ast.Assign) and isinstance(pst.targets[0], ast.Name)):
        ck.missing(rule + '.pop', 'popped node is not bound to a name')
        return
    TN = pst.targets[0].id
    v = classify(loop.test, ['0 < len(%s)' % Q, Q, 'len(%s) != 0' % Q, 'len(%s)' % Q, '1 <= len(%s)' % Q])
    ck.decide(v, rule + '.loop', mod, loop, F, u(loop.test), 'search runs until the frontier is empty', 'the search loop must run while the queue is non-empty')

    # --- initial state (statements before the loop)
    def init_of(name):
        ds = [s for s in assigns_to(fn, name) if isinstance(s, ast.Assign) and fi.cfg.dominates(s, loop) and not _inside(mod, s, loop)]
        return ds[-1] if ds else None
    mf0 = init_of(MF)
    if mf0 is None:
        ck.missing(rule + '.init', 'initialisation of %s' % MF)
    else:
        v = classify(fi.expand(mf0.value), ['np.ones(_N) * -1 * np.inf', '-np.inf * np.ones(_N)', 'np.full(_N, -np.inf)', 'np.ones(_N) * -np.inf',
                                            '-np.ones(_N) * np.inf', 'np.zeros(_N) - np.inf', 'np.full(_N, -np.inf, dtype=float)',
                                            'np.full(_N, float("-inf"))', 'np.full(shape=_N, fill_value=-np.inf)'], scope={nf, sources, sinks})
        ck.decide(v, rule + '.init', mod, mf0, F, u(mf0), 'bottleneck-so-far starts at -inf', 'the bottleneck array must start at -inf for every state')
    src = [(s, t) for s, t in subscript_stores(fn, MF) if not _inside(mod, s, loop) and fi.cfg.dominates(s, loop)]
    if not src:
        ck.missing(rule + '.init', 'store of the source bottleneck (%s[sources] = inf) before the loop' % MF)
    else:
        s0, t0 = src[0]
        ok = fi.xu(t0.slice) == sources and fi.xu(s0.value) in ('np.inf', "float('inf')", 'math.inf')
        ck.check(ok, rule + '.init', mod, s0, F, u(s0), 'sources start with infinite bottleneck', '%s[sources] must be +inf' % MF)
    q0 = init_of(Q)
    if q0 is None:
        ck.missing(rule + '.init', 'initialisation of the queue')
    else:
        v = classify(fi.expand(q0.value, stop=(sources,)), ['list(%s)' % sources, '[_X for _X in %s]' % sources, '%s.tolist()' % sources, 'list(%s.flatten())' % sources], scope={sources})
        ck.decide(v, rule + '.init', mod, q0, F, u(q0), 'frontier starts as the source set', 'the queue must start as list(sources)')

    # --- finalisation of the popped node
    vis = [(s, t) for s, t in subscript_stores(loop) if fi.xu(t.slice) == TN and const_value(s.value) is True]
    if len(vis) != 1 or not isinstance(vis[0][1].value, ast.Name):
        ck.missing(rule + '.visited', '`<visited>[%s] = True` in the search loop' % TN)
        return
    V = vis[0][1].value.id
    ck.ok(rule + '.visited', mod, vis[0][0], u(vis[0][0]), 'popped node is finalised')

    # --- the update: `MF[<idx>] = <val>` in the loop
    ups = [(s, t) for s, t in subscript_stores(loop, MF) if isinstance(s, ast.Assign)]
    if len(ups) != 1:
        ck.missing(rule + '.update', 'exactly one store into %s inside the search loop (found %d)' % (MF, len(ups)))
        return
    us, ut = ups[0]
    row = ['%s[%s, :]' % (nf, TN), '%s[%s]' % (nf, TN)]
    nb_forms = ['np.where(0 < %s)[0]' % r for r in row] + ['np.nonzero(0 < %s)[0]' % r for r in row]
    idx = canon(fi.expand(ut.slice, strict=False))
    if not isinstance(idx, ast.Subscript):
        ck.missing(rule + '.neighbors', 'index of the bottleneck update is not <neighbours>[<selection>]: %s' % u(idx)[:120])
        return
    v = classify(idx.value, nb_forms, scope={nf, TN})
    if v[0] == 'match':
        v = ('match', {'_SEL': idx.slice})
    ck.decide(v, rule + '.neighbors', mod, us, F, fi.xu(ut.slice, strict=False),
              'edges are exactly the strictly positive entries of the row of the expanded node',
              'the updated states must be (a selection of) the entries of net_flux[test_node, :] that are > 0: a tolerance test '
              '(isclose) hides small positive fluxes, >= 0 follows non-edges, a column slice walks edges backwards')
    if v[0] != 'match':
        return
    NBX = u(canon(idx.value))                       # canonical text of the neighbour index set
    sel = v[1]['_SEL']
    # the relaxed values: `<val>` = NF[<sel>] where NF is the clipped edge-flux array
    val = fi.expand(us.value, strict=False)
    if not (isinstance(val, ast.Subscript) and isinstance(val.value, ast.Name) and u(canon(val.slice)) == u(canon(sel))):
        ck.missing(rule + '.update', 'value stored into %s is not <relaxed fluxes>[<same selection>]: %s' % (MF, u(val)[:120]))
        return
    NF = val.value.id
    mask = sel.args[0] if isinstance(sel, ast.Call) and call_name(sel) in ('np.where', 'np.nonzero') and sel.args else sel
    atoms = _and_atoms(mask)
    strict = C('%s[%s] < %s' % (MF, NBX, NF))
    notvis = {C('1 - %s[%s]' % (V, NBX)), C('~%s[%s]' % (V, NBX)), C('%s[%s] == 0' % (V, NBX)), C('np.logical_not(%s[%s])' % (V, NBX)), C('%s[%s] == False' % (V, NBX))}
    texts = [u(a) for a in atoms]
    rest = [t for t in texts if t != strict and t not in notvis]
    if strict in texts and not rest:
        ck.ok(rule + '.improve', mod, us, u(mask), 'a neighbour is updated only if its bottleneck strictly improves (and it is not finalised)')
    else:
        v = classify(mask, ['1 - %s[%s] & (%s[%s] < %s)' % (V, NBX, MF, NBX, NF), '~%s[%s] & (%s[%s] < %s)' % (V, NBX, MF, NBX, NF), '%s[%s] < %s' % (MF, NBX, NF)], scope={V, MF, NF, nf, TN})
        if v[0] == 'match':
            v = ('far', 0, None)
        ck.decide(v, rule + '.improve', mod, us, F, u(mask)[:200], '',
                  'the update set must be the neighbours with new_fluxes > min_fluxes[neighbors] (strict): '
                  '< picks worse paths, >= re-queues nodes forever on ties')
    # relaxed fluxes: NF = net_flux[TN, NB] (copy), clipped to MF[TN]
    nfd = [s for s in assigns_to(loop, NF) if isinstance(s, ast.Assign)]
    edge = ['%s[%s, %s]%s' % (nf, TN, NBX, sfx) for sfx in ('.flatten()', '.copy()', '', '.ravel()')] + ['np.array(%s[%s, %s])' % (nf, TN, NBX)]
    clip_fun = ['np.minimum(%s, %s[%s])' % (e, MF, TN) for e in edge] + ['np.fmin(%s, %s[%s])' % (e, MF, TN) for e in edge] + \
               ['np.minimum(%s[%s], %s)' % (MF, TN, e) for e in edge]
    clip = [(s, t) for s, t in subscript_stores(loop, NF)]
    if len(nfd) == 1 and classify(fi.expand(nfd[0].value), clip_fun)[0] == 'match' and not clip:
        ck.ok(rule + '.relax', mod, nfd[0], u(nfd[0]), 'candidate = min(edge flux, upstream bottleneck)')
    elif len(nfd) >= 1:
        v = classify(fi.expand(nfd[0].value), edge, scope={nf, TN, MF})
        ck.decide(v, rule + '.relax', mod, nfd[0], F, u(nfd[0]), 'candidate value = flux of the edge test_node -> neighbour', 'new_fluxes must be net_flux[test_node, neighbors]')
        if len(clip) == 1:
            cs, ct = clip[0]
            m = ct.slice
            m = m.args[0] if isinstance(m, ast.Call) and call_name(m) in ('np.where', 'np.nonzero') and m.args else m
            v = classify(ast.Tuple(elts=[fi.expand(m), fi.expand(cs.value)], ctx=ast.Load()), ['(%s[%s] < %s, %s[%s])' % (MF, TN, NF, MF, TN)], scope={MF, TN, NF})
            ck.decide(v, rule + '.relax', mod, cs, F, u(cs), 'path bottleneck = min(edge flux, upstream bottleneck)',
                      'the candidate must be clipped to the bottleneck of the path so far: min(edge flux, min_fluxes[test_node])')
        else:
            alt = [s for s in nfd[1:] if classify(fi.expand(s.value), ['np.minimum(%s, %s[%s])' % (NF, MF, TN), 'np.fmin(%s, %s[%s])' % (NF, MF, TN),
                                                                       'np.minimum(%s[%s], %s)' % (MF, TN, NF)])[0] == 'match']
            if alt:
                ck.ok(rule + '.relax', mod, alt[0], u(alt[0]), 'candidate clipped to the upstream bottleneck')
            else:
                ck.missing(rule + '.relax', 'clip of %s to %s[%s] not recognised' % (NF, MF, TN))
    else:
        ck.missing(rule + '.relax', 'definition of the relaxed flux array %s' % NF)
    # predecessor written for the same index set; queue extended by it
    idx_t = fi.xu(ut.slice, strict=False)
    pn = [(s, t) for s, t in subscript_stores(loop) if t is not ut and fi.xu(t.slice, strict=False) == idx_t and fi.xu(s.value) == TN]
    if len(pn) == 1 and isinstance(pn[0][1].value, ast.Name):
        PN = pn[0][1].value.id
        ck.ok(rule + '.update', mod, pn[0][0], u(pn[0][0]), 'bottleneck and predecessor are written together for the same neighbours')
    else:
        PN = None
        other = [(s, t) for s, t in subscript_stores(loop) if t is not ut and fi.xu(s.value) == TN]
        if other:
            ck.bad(rule + '.update', mod, other[0][0], F, u(other[0][0]),
                   'the predecessor store `%s` uses a different index set than the bottleneck store `%s`: '
                   'the reported path then does not realise the reported flux' % (u(other[0][0]), u(us)))
        else:
            ck.missing(rule + '.update', 'predecessor store `<prev>[<same index set>] = %s` not found' % TN)
    ext = [c for c in calls_in(loop) if isinstance(c.func, ast.Attribute) and c.func.attr == 'extend' and u(c.func.value) == Q]
    if len(ext) == 1:
        ck.check(fi.xu(ext[0].args[0], strict=False) == idx_t, rule + '.update', mod, ext[0], F, u(ext[0]), 'improved neighbours join the frontier',
                 'the queue must be extended by exactly the updated neighbours (%s)' % idx_t[:80])
    else:
        ck.missing(rule + '.update', '`%s.extend(<updated neighbours>)` in the search loop' % Q)
    if PN is not None:
        pn0 = init_of(PN)
        if pn0 is None:
            ck.missing(rule + '.init', 'initialisation of %s' % PN)
        else:
            v = classify(fi.expand(pn0.value), ['np.ones(_N).astype(int) * -1', 'np.full(_N, -1, dtype=int)', 'np.full(_N, -1)', '-np.ones(_N, dtype=int)',
                                                '-1 * np.ones(_N, dtype=int)', 'np.ones(_N, dtype=int) * -1', 'np.zeros(_N, dtype=int) - 1', '-np.ones(_N).astype(int)'], scope={nf, sources, sinks})
            ck.decide(v, rule + '.init', mod, pn0, F, u(pn0), 'predecessor sentinel -1', 'the predecessor array must start at -1')

    # --- reconstruction and reported flux
    r = returns_of(fn)
    if len(r) != 1 or not isinstance(r[0].value, ast.Tuple) or len(r[0].value.elts) != 2:
        ck.missing(rule + '.report', 'single `return <path>, <flux>`')
        return
    rp, rf = r[0].value.elts
    best = ['int(%s[%s[%s].argmax()])' % (sinks, MF, sinks), '%s[%s[%s].argmax()]' % (sinks, MF, sinks)]
    # the path list P: reversed in the return value
    vb = classify(fi.expand(rp), ['np.array(_P[::-1])', 'np.asarray(_P[::-1])', 'np.array(list(reversed(_P)))', 'np.array(_P)[::-1]'], near=3)
    if vb[0] != 'match' or not isinstance(vb[1]['_P'], ast.Name):
        ck.decide(vb if vb[0] != 'match' else 'far', rule + '.report', mod, r[0], F, u(r[0]), '', 'the path collected sink->source must be returned reversed (source->sink)')
        return
    P = vb[1]['_P'].id
    first = [c for c in calls_in(fn) if isinstance(c.func, ast.Attribute) and c.func.attr == 'append' and u(c.func.value) == P and not _in_loop(mod, c, fn)]
    p0 = init_of_any(fn, P)
    first_expr = None
    if first:
        first_expr = first[0].args[0]
    elif p0 is not None and isinstance(p0.value, ast.List) and len(p0.value.elts) == 1:
        first_expr = p0.value.elts[0]
    if first_expr is None:
        ck.missing(rule + '.report', 'first element (chosen sink) of the path list %s' % P)
        return
    v = classify(fi.expand(first_expr, stop=(sinks,)), best, scope={sinks, MF})
    ck.decide(v, rule + '.report', mod, first[0] if first else p0, F, u(first_expr), 'the sink with the largest bottleneck ends the path',
              'the path must end at sinks[argmax(min_fluxes[sinks])]')
    flux_ok = classify(fi.expand(rf, stop=(sinks,)), ['%s[%s[0]]' % (MF, P)] + ['%s[%s]' % (MF, b) for b in best], scope={MF, P, sinks})
    ck.decide(flux_ok, rule + '.report', mod, r[0], F, u(rf), 'flux = bottleneck recorded at the chosen sink',
              'the reported flux must be min_fluxes at the chosen sink (the first element of the reversed path)')
    if PN is not None:
        back = [l for l in walk_local(fn) if isinstance(l, ast.While) and l is not loop]
        okb = False
        for b in back:
            t1 = classify(b.test, ['%s[%s[-1]] != -1' % (PN, P), '-1 != %s[%s[-1]]' % (PN, P), '0 <= %s[%s[-1]]' % (PN, P)])[0] == 'match'
            a1 = any(isinstance(c.func, ast.Attribute) and c.func.attr == 'append' and u(c.func.value) == P and fi.xu(c.args[0]) == '%s[%s[-1]]' % (PN, P) for c in calls_in(b))
            if t1 and a1:
                okb = True
                ck.ok(rule + '.report', mod, b, u(b.test), 'path rebuilt by following predecessor links to a source')
        if not okb:
            ck.missing(rule + '.report', 'back-trace loop `while %s[%s[-1]] != -1: %s.append(%s[%s[-1]])` not recognised' % (PN, P, P, PN, P))


def _inside(mod, node, outer):
    p = mod.parent.get(node)
    while p is not None:
        if p is outer:
            return True
        p = mod.parent.get(p)
    return False


def _in_loop(mod, node, fn):
    p = mod.parent.get(node)
    while p is not None and p is not fn:
        if isinstance(p, (ast.For, ast.While)):
            return True
        p = mod.parent.get(p)
    return False


def init_of_any(fn, name):
    ds = [s for s in fn.body if isinstance(s, ast.Assign) and len(s.targets) == 1 and u(s.targets[0]) == name]
    return ds[0] if ds else None


def _and_atoms(mask):
    """Conjuncts of an elementwise mask built with & / np.logical_and."""
    if isinstance(mask, ast.BinOp) and isinstance(mask.op, ast.BitAnd):
        return _and_atoms(mask.left) + _and_atoms(mask.right)
    if isinstance(mask, ast.Call) and call_name(mask) == 'np.logical_and' and len(mask.args) == 2:
        return _and_atoms(mask.args[0]) + _and_atoms(mask.args[1])
    return [mask]


def d3_removal(ck, mod):
    rule = 'C17.D3.removal'
    for name in ('_subtract_path_flux', '_remove_bottleneck'):
        fn = mod.func(name)
        ck.analysed(mod, fn)
        fi = finfo(mod, fn)
        nf, path = params(fn)[:2]
        cp = [s for s in assigns_to(fn, nf) if isinstance(s, ast.Assign)]
        ok = len(cp) == 1 and u(cp[0].value) in ('copy.copy(%s)' % nf, '%s.copy()' % nf, 'np.array(%s)' % nf, 'np.copy(%s)' % nf, 'copy.deepcopy(%s)' % nf)
        stores = [s for s, t in subscript_stores(fn, nf)]
        ok = ok and all(fi.cfg.dominates(cp[0], s) for s in stores)
        ck.check(ok, rule + '.copy', mod, cp[0] if cp else fn, name, u(cp[0]) if cp else 'copy', 'works on a copy made before the first store',
                 '%s must rebind net_flux to a copy before storing into it' % name)
        r = returns_of(fn)
        ck.check(len(r) == 1 and u(r[0].value) == nf, rule + '.copy', mod, r[0] if r else fn, name, u(r[0]) if r else 'return', 'returns the modified copy', 'must return the working matrix')
        edges = '%s[%s[:-1], %s[1:]]' % (nf, path, path)
        bn = [s for s in walk_local(fn) if isinstance(s, ast.Assign) and u(s.targets[0]) == 'bottleneck_ind']
        ok = len(bn) == 1 and u(bn[0].value) in ('%s.argmin()' % edges, 'np.argmin(%s)' % edges)
        ck.check(ok, rule + '.bottleneck', mod, bn[0] if bn else fn, name, u(bn[0]) if bn else 'bottleneck_ind',
                 'bottleneck = argmin over the CONSECUTIVE edges of the path', 'bottleneck_ind must be argmin of net_flux[path[:-1], path[1:]]')
        z = [s for s, t in subscript_stores(fn, nf) if u(t.slice) == '(%s[bottleneck_ind], %s[bottleneck_ind + 1])' % (path, path)
             or u(t.slice) == '%s[bottleneck_ind], %s[bottleneck_ind + 1]' % (path, path)]
        ok = len(z) == 1 and const_value(z[0].value) == 0
        ck.check(ok, rule + '.bottleneck', mod, z[0] if z else fn, name, u(z[0]) if z else 'zero the bottleneck edge',
                 'the bottleneck edge (path[k] -> path[k+1]) is removed', 'the edge path[bottleneck_ind] -> path[bottleneck_ind + 1] must be set to 0')
        if name == '_subtract_path_flux':
            sub = [s for s in walk_local(fn) if isinstance(s, ast.AugAssign) and isinstance(s.op, ast.Sub)]
            ok = len(sub) == 1 and u(sub[0].target) == edges and u(sub[0].value) in ('%s.min()' % edges, 'np.min(%s)' % edges)
            ck.check(ok, rule + '.subtract', mod, sub[0] if sub else fn, name, u(sub[0]) if sub else 'subtract',
                     'the path flux is subtracted THROUGH to the working matrix on every edge of the path',
                     'the subtract scheme must execute `net_flux[path[:-1], path[1:]] -= <min over the same edges>` on the '
                     'working copy itself: subtracting on a temporary (advanced indexing returns a copy) loses the '
                     'update, later paths re-use flux already explained')
            if sub and z:
                ck.check(fi.cfg.dominates(sub[0], z[0]), rule + '.subtract', mod, z[0], name, 'order', 'bottleneck zeroed after the subtraction', 'zeroing must follow the subtraction')


def d4_paths(ck, mod):
    rule = 'C17.D4.paths'
    fn = mod.func('paths')
    ck.analysed(mod, fn)
    fi = finfo(mod, fn)
    sources, sinks, nf, rp, npaths, cutoff = params(fn)[:6]
    # registry
    reg = {}
    for n in walk_local(fn):
        if isinstance(n, ast.If):
            cs = conjuncts(n.test, True)
            if cs and len(cs) == 1 and isinstance(cs[0], Cmp) and cs[0].op is ast.Eq and u(cs[0].lhs) == rp and isinstance(cs[0].rhs, ast.Constant):
                for s in n.body:
                    if isinstance(s, ast.Assign) and u(s.targets[0]) == rp:
                        reg[cs[0].rhs.value] = u(s.value)
    ck.check(reg == {'subtract': '_subtract_path_flux', 'bottleneck': '_remove_bottleneck'}, rule + '.registry', mod, fn, 'paths', str(reg),
             "scheme names map to their functions", "'subtract' must map to _subtract_path_flux and 'bottleneck' to _remove_bottleneck")
    cp = [s for s in assigns_to(fn, nf) if isinstance(s, ast.Assign) and 'copy' in u(s.value)]
    ck.check(len(cp) == 1 and u(cp[0].value) in ('copy.copy(%s)' % nf, '%s.copy()' % nf, 'np.array(%s)' % nf, 'copy.deepcopy(%s)' % nf), rule + '.copy', mod,
             cp[0] if cp else fn, 'paths', u(cp[0]) if cp else 'copy', 'paths works on its own copy of the flux matrix', 'paths must copy net_flux before the loop')
    tf = [s for s in walk_local(fn) if isinstance(s, ast.Assign) and u(s.targets[0]) == 'total_flux']
    ok = len(tf) == 1 and u(tf[0].value) in ('%s[%s, :].sum()' % (nf, sources), '%s[%s].sum()' % (nf, sources), 'np.sum(%s[%s, :])' % (nf, sources))
    ck.check(ok, rule + '.total', mod, tf[0] if tf else fn, 'paths', u(tf[0]) if tf else 'total_flux', 'total = outflow of the sources (rows)', 'total_flux must be the sum of the source ROWS')
    loops = [l for l in fn.body if isinstance(l, ast.While)]
    if not loops:
        ck.missing(rule, 'main loop of paths')
        return
    loop = loops[0]
    body = loop.body
    tp = [s for s in body if isinstance(s, ast.Assign) and isinstance(s.value, ast.Call) and call_name(s.value) == 'top_path']
    ok = len(tp) == 1 and [u(a) for a in tp[0].value.args] == [sources, sinks, nf] and u(tp[0].targets[0]) == '(path, flux)'
    ck.check(ok, rule + '.search', mod, tp[0] if tp else loop, 'paths', u(tp[0]) if tp else 'top_path', 'next path found on the CURRENT working matrix',
             'path, flux = top_path(sources, sinks, net_flux) expected on the working copy')
    rec = [s for s in body if isinstance(s, ast.Expr) and isinstance(s.value, ast.Call) and u(s.value.func) in ('paths.append', 'fluxes.append')]
    acc = [s for s in body if isinstance(s, ast.AugAssign) and u(s.target) == 'expl_flux']
    cnt = [s for s in body if isinstance(s, ast.AugAssign) and u(s.target) == 'counter']
    test = [s for s in body if isinstance(s, ast.If) and any(isinstance(x, ast.Break) for x in s.body) and ('counter' in u(s.test) or 'expl_flux' in u(s.test))]
    rem = [s for s in body if isinstance(s, ast.Assign) and isinstance(s.value, ast.Call) and u(s.value.func) == rp]
    ok = len(rec) == 2 and len(acc) == 1 and len(cnt) == 1 and len(test) == 1 and len(rem) == 1
    if ok:
        idx = {id(s): i for i, s in enumerate(body)}
        order = max(idx[id(s)] for s in rec + acc + cnt) < idx[id(test[0])] < idx[id(rem[0])]
        ck.check(order, rule + '.order', mod, test[0], 'paths', 'record -> test -> remove', 'path is recorded, then the limits are tested, then the path is removed',
                 'the loop must record the path, test the limits, and only then remove the path')
        t = test[0].test
        okt = isinstance(t, ast.BoolOp) and isinstance(t.op, ast.Or) and sorted(u(v) for v in t.values) == sorted(
            [C('counter >= %s' % npaths), C('expl_flux >= %s' % cutoff)])
        ck.check(okt, rule + '.limits', mod, test[0], 'paths', u(t), 'stop when the requested number of paths OR the explained fraction is reached',
                 'the stop test must be `counter >= num_paths or expl_flux >= flux_cutoff` (>: one path too many; and: ignores one limit)')
        ck.check(u(acc[0].value) == 'flux / total_flux' and isinstance(acc[0].op, ast.Add), rule + '.limits', mod, acc[0], 'paths', u(acc[0]),
                 'explained fraction accumulates flux / total', 'expl_flux += flux / total_flux expected')
        ck.check(u(rem[0].targets[0]) == nf and [u(a) for a in rem[0].value.args] == [nf, 'path'], rule + '.replace', mod, rem[0], 'paths', u(rem[0]),
                 'the removal result replaces the working matrix', 'net_flux = remove_path(net_flux, path) expected: otherwise the same path is found again')
    else:
        ck.bad(rule + '.order', mod, loop, 'paths', 'loop body', 'expected record(2 appends)/accumulate/count/test/remove statements in the loop; found %d/%d/%d/%d/%d' % (
            len(rec), len(acc), len(cnt), len(test), len(rem)))
    inf = [s for s in body if isinstance(s, ast.If) and 'np.isinf(flux)' in u(s.test) and any(isinstance(x, ast.Break) for x in s.body)]
    ck.check(len(inf) == 1 and body.index(inf[0]) < body.index(rec[0]) if rec and inf else False, rule + '.no-path', mod, inf[0] if inf else loop, 'paths',
             u(inf[0].test) if inf else 'isinf', 'stop (without recording) when no source->sink path is left', 'an infinite flux (no path) must end the loop before anything is recorded')
    r = returns_of(fn)
    ck.check(len(r) == 1 and u(r[0].value) == '(paths, fluxes)', rule + '.return', mod, r[0] if r else fn, 'paths', u(r[0]) if r else '?', 'returns (paths, fluxes)', 'must return (paths, fluxes)')

"""C09 K-medoids refinement: accept test, atomic commit, proposals, seed flow.

The constructs are located by ROLE, not by the local names of the pinned tree:

* the four state variables of the PAM update are the elements of the returned
  tuple (indices, distances, labels, coordinates); the first three are the
  rebound parameters 3, 5 and 4;
* the commit is "the subscript store into the returned index container inside
  a for loop"; that loop is the per-centre loop and its target the centre id;
* the accept condition is the conjunction of the branch conditions (CFG Assume
  nodes) of that loop which dominate the commit: if/else in either order and
  the guard-clause form (`if not better: continue`) look the same;
* the candidate distances are "the per-trip array whose cost is compared with
  the cost of the current distances"; the candidate labels / coordinates are
  what the accept region binds to the label / coordinate state variable;
* contents are compared after expansion of temporaries against a list of
  accepted forms (match.classify): an unfamiliar shape is ANALYSIS-INCOMPLETE,
  a different function of the same operands in a located role is a VIOLATION.
"""
import ast

from ..cfg import ENTRY, EXIT, Assume, header_uses, stmt_defs
from ..core import (AnalysisIncomplete, call_name, const_value, kwarg,
                    names_loaded, param_default, params, u, walk_expr,
                    walk_local)
from ..match import C, canon, classify, match
from ..patterns import (Cmp, assigns_to, calls_in, conjuncts, finfo,
                        returns_of, subscript_stores)
from .cluster_common import KC, KM, HY, CU

OPS = 'enspara/mpi/ops.py'
PAM = '_kmedoids_pam_update'
PROPOSER = '_propose_new_center_amongst'
SWEEPS = '_kmedoids_iterations'
INPUTS = '_kmedoids_inputs_tree'

EXPLANATION = (
    'Static decision of the structural necessary conditions of C09: (D1) the '
    'commit of the PAM update is controlled by cost(candidate) < cost(current) '
    'with both costs from the same callable, operand provenance checked, and '
    'that callable is by default the (striped) mean of the squared distances; '
    '(D2) inside the per-centre loop the four state variables are written only '
    'under the accept condition and all four there, they take the candidate '
    'whose cost was compared, and the candidate state lives in fresh storage; '
    'the outputs of one sweep are the inputs of the next; (D3) the proposal is '
    'drawn from where(assignments == cid), the proposed coordinate is the '
    'frame of X at the proposed index (serial, MPI and explicit proposals); '
    '(D4) k-hybrid hands the k-centers result fields to the sweeps unchanged; '
    '(D5) random_state and proposals are threaded through every call level and '
    'no module-level RNG is used; (D6) definite assignment of the returned '
    'result; (D7) the supplied start state is not written; (D8) centres '
    'supplied as (trajectory, frame) pairs are converted to the index in the '
    'concatenated data, missing labels/distances are computed from the centre '
    'frames; (D5.per-run) an estimator hands the seed it was constructed '
    'with - not a generator object built once in the constructor - to '
    'every run; (D9) no sanity assertion bounds the start distances of the '
    'centres by a bare numeric literal (unit / precision of the metric). '
    'The cost values themselves are not decided.')


# ---------------------------------------------------------------------------
# small helpers (candidates for a shared module)

def _last(cn):
    return (cn or '').split('.')[-1]


def _inside(mod, node, outer):
    p = mod.parent.get(node)
    while p is not None:
        if p is outer:
            return True
        p = mod.parent.get(p)
    return False


def _loop_of(mod, node):
    p = mod.parent.get(node)
    while p is not None and not isinstance(p, (ast.For, ast.While, ast.FunctionDef)):
        p = mod.parent.get(p)
    return p if isinstance(p, (ast.For, ast.While)) else None


_raw_cache = {}


def _raw_params(cmod, callee):
    """Parameter names of `callee` as spelled in the CURRENT source text.  The
    front end may analyse a private helper in its reference spelling (normal
    form equal to the reference, parameters alpha-renamed) while the call
    sites in other functions still use the current keyword names."""
    if cmod is None:
        return None
    key = id(cmod)
    if key not in _raw_cache:
        table = {}
        try:
            for n in ast.walk(ast.parse(cmod.src)):
                if isinstance(n, (ast.FunctionDef, ast.AsyncFunctionDef)):
                    table.setdefault(n.name, []).append(params(n))
        except SyntaxError:
            pass
        _raw_cache[key] = table
    cands = _raw_cache[key].get(getattr(callee, 'name', None), [])
    return cands[0] if len(cands) == 1 else None


def _bind(call, callee, cmod=None):
    """Arguments of `call` by parameter name of `callee` (positional and
    keyword); None if the call uses * / **, too many positionals or a keyword
    the callee does not have."""
    ps = params(callee)
    if any(isinstance(a, ast.Starred) for a in call.args) or any(k.arg is None for k in call.keywords):
        return None
    if len(call.args) > len(ps):
        return None
    raw = _raw_params(cmod, callee)
    alias = dict(zip(raw, ps)) if raw is not None and len(raw) == len(ps) else {}
    b = {}
    for p, a in zip(ps, call.args):
        b[p] = a
    for k in call.keywords:
        name = alias.get(k.arg, k.arg) if k.arg not in ps or k.arg in alias else k.arg
        if name not in ps:
            if callee.args.kwarg is None:
                return None
            continue
        b[name] = k.value
    return b


def _stable_value(fi, n):
    """Defining expression of a Name use with exactly one reaching definition
    `n = <expr>` none of whose operands is rebound between the definition and
    the use.  Unlike FuncInfo.temp_value the expression need not be pure (a
    call result bound to a name): the value of the name IS the value the
    expression had at the definition."""
    if not isinstance(n, ast.Name):
        return None
    try:
        defs = fi.defs_of_use(n)
    except Exception:
        return None
    if len(defs) != 1:
        return None
    site = next(iter(defs))
    if site in ('PARAM', 'UNBOUND') or not isinstance(site, (ast.Assign, ast.AnnAssign)):
        return None
    v = fi.def_value(site, n.id)
    if v is None:
        return None
    use = fi.stmt(n)
    for m in walk_expr(v):
        if isinstance(m, ast.Name) and isinstance(m.ctx, ast.Load):
            if fi.rd.defs_at(site, m.id) != fi.rd.defs_at(use, m.id):
                return None
    return v


def _orig_name(fi, e):
    """Follow pure aliases `t = name` back to the ORIGINAL Name node (original
    nodes keep their place in the reaching-definitions tables)."""
    seen = 0
    while isinstance(e, ast.Name) and seen < 6:
        v = fi.temp_value(e)
        if not isinstance(v, ast.Name):
            break
        e = v
        seen += 1
    return e


def _conj(fi, test, polarity):
    """patterns.conjuncts over ORIGINAL nodes, looking through boolean
    temporaries (`better = a < b; if better:`)."""
    cs = conjuncts(test, polarity)
    if cs is None:
        return None
    out = []
    for c in cs:
        if isinstance(c, tuple) and isinstance(c[1], ast.Name):
            v = fi.temp_value(c[1])
            if isinstance(v, (ast.Compare, ast.BoolOp, ast.UnaryOp)):
                sub = _conj(fi, v, c[2])
                if sub is None:
                    return None
                out += sub
                continue
        out.append(c)
    return out


def _controlling(fi, mod, stmt, within=None):
    """Branch conditions (Assume nodes) every path to `stmt` passes through,
    restricted to conditions whose `if` lies inside `within`."""
    out = []
    for a in fi.cfg.nodes:
        if isinstance(a, Assume) and fi.cfg.dominates(a, stmt):
            if within is None or _inside(mod, a.owner, within):
                out.append(a)
    return out


def _param_root(fi, e, through=('check_random_state',), depth=4):
    """Name of the PARAMETER whose value `e` denotes - directly, through pure
    aliases, or through the calls in `through` (check_random_state(p) is the
    generator for seed p) - else None."""
    if isinstance(e, ast.Call) and _last(call_name(e)) in through and len(e.args) == 1 and not e.keywords:
        return _param_root(fi, e.args[0], through, depth)
    if not isinstance(e, ast.Name) or depth <= 0:
        return None
    try:
        defs = fi.defs_of_use(e)
    except Exception:
        return None
    roots = set()
    for site in defs:
        if site == 'PARAM':
            roots.add(e.id)
            continue
        if site == 'UNBOUND' or not isinstance(site, (ast.Assign, ast.AnnAssign)):
            return None
        v = fi.def_value(site, e.id)
        r = _param_root(fi, v, through, depth - 1) if v is not None else None
        if r is None:
            return None
        roots.add(r)
    return roots.pop() if len(roots) == 1 else None


def _seed_expr(fi, e, pname):
    """`e` denotes the random_state parameter `pname`, possibly passed through
    check_random_state()."""
    return pname is not None and _param_root(fi, e) == pname


def _no_redef_between(fi, name, a, b, loop):
    """No (re)definition of `name` can execute after `a` and before `b`
    within one trip of `loop`."""
    avoid = [loop] if loop is not None else []
    for d in assigns_to(fi.fn, name):
        if d is a or d is b:
            continue
        if fi.cfg.reachable(a, d, avoiding=avoid + [b]) and fi.cfg.reachable(d, b, avoiding=avoid + [a]):
            return False
    return True


class _Subst(ast.NodeTransformer):
    """Replace sub-expressions by canonical text."""

    def __init__(self, table):
        self.table = table

    def visit(self, node):
        if isinstance(node, ast.expr):
            t = u(node)
            if t in self.table:
                return ast.copy_location(ast.Name(id=self.table[t], ctx=ast.Load()), node)
        return self.generic_visit(node)


def _subst(node, table):
    import copy
    n = _Subst(table).visit(copy.deepcopy(node))
    ast.fix_missing_locations(n)
    return n


def _static_truth(test):
    """Truth value of a condition that is decided by the SYNTACTIC shape of its
    operands, else None: `hasattr(<tuple/list display>, '__len__')` is True,
    `hasattr(<number>, '__len__')` is False; not / and / or over those."""
    if isinstance(test, ast.UnaryOp) and isinstance(test.op, ast.Not):
        t = _static_truth(test.operand)
        return None if t is None else not t
    if isinstance(test, ast.BoolOp):
        ts = [_static_truth(v) for v in test.values]
        if isinstance(test.op, ast.And):
            return False if any(t is False for t in ts) else (True if all(t is True for t in ts) else None)
        return True if any(t is True for t in ts) else (False if all(t is False for t in ts) else None)
    if isinstance(test, ast.Call) and isinstance(test.func, ast.Name) and test.func.id == 'hasattr' \
            and len(test.args) == 2 and not test.keywords and const_value(test.args[1]) == '__len__':
        o = test.args[0]
        if isinstance(o, (ast.Tuple, ast.List)):
            return True
        if isinstance(o, ast.Constant) and isinstance(o.value, (int, float)) and not isinstance(o.value, bool):
            return False
    return None


def _specialise_call(mod, fi, call, depth=2):
    """Value of a call `h(args)` of a small module-level helper `h` of the same
    module for THESE arguments, as an expression over the caller's own nodes,
    or None.  Purely symbolic: the helper's body must be a decision tree of
    `if` / `return <expr>` (guard-clause form included) without any other
    statement; its parameters are replaced by the argument expressions (only
    side-effect free arguments: names, constants, displays, subscripts and
    attributes of those); a branch condition must be decided by the shape of
    the arguments (_static_truth), so that exactly one `return` remains;
    `(a, b)[<const>]` is folded to the selected element.  The argument nodes of
    the caller are reused (not copied), so def-use queries on them still work."""
    if not isinstance(call, ast.Call) or not isinstance(call.func, ast.Name) or depth <= 0:
        return None
    h = mod.functions.get(call.func.id)
    if h is None or not isinstance(h, ast.FunctionDef) or h.decorator_list or h is fi.fn:
        return None
    if h.args.vararg or h.args.kwarg or h.args.kwonlyargs or h.args.defaults or getattr(h.args, 'posonlyargs', None):
        return None
    b = _bind(call, h, mod)
    ps = params(h)
    if b is None or set(b) != set(ps):
        return None

    def simple(e):
        if isinstance(e, (ast.Name, ast.Constant)):
            return True
        if isinstance(e, (ast.Tuple, ast.List)):
            return all(simple(x) for x in e.elts)
        if isinstance(e, ast.Subscript):
            return simple(e.value) and simple(e.slice)
        if isinstance(e, ast.Attribute):
            return simple(e.value)
        return False
    if not all(simple(v) for v in b.values()):
        return None

    def subst(e):
        if isinstance(e, ast.Name):
            if e.id in b:
                return b[e.id] if isinstance(e.ctx, ast.Load) else None
            if e.id in fi.rd.locals or e.id in ps:
                return None                  # a free name of the helper that is a local of the caller
            return ast.copy_location(ast.Name(id=e.id, ctx=e.ctx), e)
        if isinstance(e, (ast.Lambda, ast.ListComp, ast.SetComp, ast.DictComp, ast.GeneratorExp, ast.NamedExpr,
                          ast.Yield, ast.YieldFrom, ast.Await, ast.Starred)):
            return None
        if not isinstance(e, ast.AST) or isinstance(e, (ast.expr_context, ast.operator, ast.unaryop, ast.boolop, ast.cmpop)):
            return e
        new = type(e)()
        for f in e._fields:
            val = getattr(e, f, None)
            if isinstance(val, list):
                xs = [subst(x) for x in val]
                if any(x is None for x in xs):
                    return None
                setattr(new, f, xs)
            elif isinstance(val, ast.AST):
                x = subst(val)
                if x is None:
                    return None
                setattr(new, f, x)
            else:
                setattr(new, f, val)
        ast.copy_location(new, e)
        if isinstance(new, ast.Subscript) and isinstance(new.value, (ast.Tuple, ast.List)):
            k = const_value(new.slice)
            if isinstance(k, int) and not isinstance(k, bool) and -len(new.value.elts) <= k < len(new.value.elts) \
                    and not any(isinstance(x, ast.Starred) for x in new.value.elts):
                return new.value.elts[k]
        return new

    def tree(stmts):
        """The returned expression of the statement list under the static truth of the conditions:
        an expr, 'fall' (falls through without returning) or None (not decidable)."""
        for s in stmts:
            if isinstance(s, ast.Expr) and isinstance(s.value, ast.Constant):
                continue                     # docstring
            if isinstance(s, ast.Pass):
                continue
            if isinstance(s, ast.Return):
                return subst(s.value) if s.value is not None else None
            if isinstance(s, ast.If):
                t = subst(s.test)
                tv = _static_truth(t) if t is not None else None
                if tv is None:
                    return None
                r = tree(s.body if tv else s.orelse)
                if r != 'fall':
                    return r
                continue
            return None
        return 'fall'
    r = tree(h.body)
    if r is None or r == 'fall':
        return None
    if isinstance(r, ast.Call):
        deeper = _specialise_call(mod, fi, r, depth - 1)
        if deeper is not None:
            return deeper
    return r


# ---------------------------------------------------------------------------
# roles of the PAM update

class _Roles(object):
    pass


def _pam(ck):
    mod = ck.repo.mod(KM)
    fn = mod.func(PAM)
    ck.analysed(mod, fn)
    return mod, fn, finfo(mod, fn)


def _roles(ck):
    """Locate state variables, commit store, per-centre loop.  Returns None
    (after ck.missing) when the function is not recognisable."""
    rule = 'C09.D2.atomic'
    mod, fn, fi = _pam(ck)
    R = _Roles()
    R.mod, R.fn, R.fi = mod, fn, fi
    ps = params(fn)
    if len(ps) < 5:
        ck.missing(rule, '%s: parameters (X, metric, medoid_inds, assignments, distances, ...)' % PAM)
        return None
    R.X, R.metric, R.pMI, R.pA, R.pD = ps[:5]
    # keyword parameters: located by their role (what is indexed by the centre id / what reaches the
    # proposer's generator); the pinned names are only the fallback for the "never used" diagnosis
    R.proposals = None
    R.seed = None
    R.ps = ps
    rets = returns_of(fn)
    rv = canon(fi.expand(rets[0].value)) if len(rets) == 1 and rets[0].value is not None else None
    if rv is None or not isinstance(rv, ast.Tuple) or len(rv.elts) != 4 or not all(isinstance(e, ast.Name) for e in rv.elts):
        ck.missing(rule, 'single `return (indices, distances, assignments, coordinates)` of the PAM update')
        return None
    R.ret = rets[0]
    R.state = [e.id for e in rv.elts]
    R.MI, R.D, R.A, R.MC = R.state
    stores = [(s, t) for s, t in subscript_stores(fn, R.MI) if isinstance(_loop_of(mod, s), ast.For)]
    if len(stores) != 1 or not isinstance(stores[0][0], ast.Assign):
        ck.missing(rule, 'exactly one store `%s[<centre>] = <proposal index>` inside a for loop (found %d)' % (R.MI, len(stores)))
        return None
    R.commit, R.commit_target = stores[0]
    R.loop = _loop_of(mod, R.commit)
    tg = R.loop.target
    if isinstance(tg, ast.Tuple) and len(tg.elts) == 2 and isinstance(R.loop.iter, ast.Call) and call_name(R.loop.iter) == 'enumerate':
        tg = tg.elts[0]
    if not isinstance(tg, ast.Name):
        ck.missing(rule, 'per-centre loop with a plain loop variable')
        return None
    R.cid = tg.id
    R.guards = _controlling(fi, mod, R.commit, R.loop)
    # innermost branch condition controlling the commit: the commit region
    R.region = None
    for g in R.guards:
        if all(o is g or fi.cfg.dominates(o, g) for o in R.guards):
            R.region = g
    R.accept = None
    R.cand_dist = None
    R.cost = None
    return R


# ---------------------------------------------------------------------------
# D1 accept test

def d1_accept(ck, R):
    rule = 'C09.D1.accept'
    if R is None:
        return
    mod, fn, fi = R.mod, R.fn, R.fi

    def carried_cost(e):
        """A cost kept in a variable ACROSS trips (several reaching definitions, or one whose operands are
        rebound before the use): {'f', 'fn': [Name nodes], 'carried': [(definition, cost_of its value)], 'name'}
        when every reaching definition assigns a cost computed by the same callable."""
        try:
            defs = fi.defs_of_use(e)
        except Exception:
            return None
        out = []
        for d in defs:
            if d in ('PARAM', 'UNBOUND') or not isinstance(d, (ast.Assign, ast.AnnAssign)):
                return None
            v = fi.def_value(d, e.id)
            info = cost_of(v, carried=False) if v is not None else None
            if info is None:
                return None
            out.append((d, info))
        if not out or len({i['f'] for _, i in out}) != 1:
            return None
        out.sort(key=lambda di: getattr(di[0], 'lineno', 0))
        return {'f': out[0][1]['f'], 'fn': None, 'fns': [i['fn'] for _, i in out], 'arg': None, 'st': None,
                'carried': out, 'name': e}

    def cost_of(e, carried=True):
        """{'f': text of the callable, 'fn': its Name node or None, 'arg': the argument expression,
        'st': the statement evaluating it} for `f(x)`, `mod.f(x)` or `x.m()`."""
        v, st = e, fi.stmt(e)
        if isinstance(e, ast.Name):
            v = _stable_value(fi, e)
            if v is None:
                return carried_cost(e) if carried else None
            st = next(iter(fi.defs_of_use(e)))
        if not isinstance(v, ast.Call) or v.keywords:
            return None
        if isinstance(v.func, ast.Name) and len(v.args) == 1:
            return {'f': v.func.id, 'fn': v.func, 'arg': v.args[0], 'st': st}
        if isinstance(v.func, ast.Attribute) and call_name(v) and len(v.args) == 1 and call_name(v).split('.')[0] in ('np', 'numpy', 'math', 'mpi'):
            return {'f': call_name(v), 'fn': None, 'arg': v.args[0], 'st': st}
        if isinstance(v.func, ast.Attribute) and not v.args and isinstance(v.func.value, ast.Name):
            return {'f': '<array>.%s' % v.func.attr, 'fn': None, 'arg': v.func.value, 'st': st}
        return None

    if not R.guards:
        if isinstance(R.commit.value, ast.Name):
            ck.bad(rule, mod, R.commit, PAM, u(R.commit),
                   'the proposal is committed unconditionally: no branch condition of the per-centre loop controls '
                   'the store of the new centre index, so a proposal that raises the cost is kept')
        else:
            ck.missing(rule, 'accept condition: the commit `%s` is not controlled by a branch of the per-centre loop' % u(R.commit)[:100])
        return
    found = []       # (assume, Cmp, provenance small, provenance big)
    extra = []
    disjunction = []
    for a in R.guards:
        cs = _conj(fi, a.test, a.polarity)
        if cs is None:
            disjunction.append(a)
            continue
        for c in cs:
            if isinstance(c, Cmp):
                pl, pr = cost_of(c.lhs), cost_of(c.rhs)
                if pl is not None and pr is not None:
                    found.append((a, c, pl, pr))
                    continue
            extra.append((a, c))
    for a in disjunction:
        costly = [n for n in walk_expr(a.test) if isinstance(n, ast.Compare) and len(n.ops) == 1
                  and cost_of(n.left) is not None and cost_of(n.comparators[0]) is not None]
        if costly:
            ck.bad(rule, mod, a.owner, PAM, u(a.test),
                   'the accept test must be a single cost comparison: here the commit is also reached when '
                   '`%s` does not hold' % u(costly[0]))
        else:
            ck.missing(rule, 'accept condition `%s` (polarity %s) is a disjunction the rule does not model' % (u(a.test)[:100], a.polarity))
        return
    if len(found) != 1:
        ck.missing(rule, 'accept condition: exactly one comparison of two costs `<cost>(<candidate>) < <cost>(<current>)` '
                   'controlling the commit (found %d among: %s)' % (len(found), '; '.join(u(a.test)[:60] for a in R.guards)))
        return
    a, cmp_, pl, pr = found[0]
    R.accept = a
    less = cmp_.as_less()
    if less is None:
        ck.bad(rule, mod, a.owner, PAM, str(cmp_),
               'the accept test must be an ordering of two costs (commit only if the cost goes down), found `%s`' % cmp_.rel)
        return
    small, strict, big = less
    ps_, pb_ = (pl, pr) if small is cmp_.lhs else (pr, pl)
    if 'carried' in ps_:
        ck.missing(rule, 'accept test `%s`: the cost on the small side (`%s`) is carried across trips of the loop, '
                   'not computed from a candidate of this trip' % (cmp_, u(small)))
        return
    base = pb_ if 'carried' in pb_ else None
    f1, a1, st1 = ps_['f'], ps_['arg'], ps_['st']
    f2, a2, st2 = pb_['f'], pb_['arg'], pb_['st']
    x1 = fi.xu(a1)
    x2 = fi.xu(a2) if base is None else ' | '.join(fi.xu(i['arg']) for _, i in base['carried'])
    desc = '%s  [%s = %s(%s), %s = %s(%s)]' % (cmp_, u(small), f1, x1, u(big), f2, x2)
    why = ('the branch that commits the candidate must be taken only when cost(<candidate distances>) < '
           'cost(<current distances>) with both costs from the same callable; found small side %s(%s), big side '
           '%s(%s): a reversed or mismatched comparison lets a sweep increase the cost' % (f1, x1, f2, x2))
    if f1 != f2:
        ck.bad(rule, mod, a.owner, PAM, desc, why)
        return
    # the callable: a parameter that is never rebound, or a module-level function
    fns = [ps_['fn']] + (pb_['fns'] if base is not None else [pb_['fn']])
    fdefs = set().union(*[fi.defs_of_use(n) for n in fns]) if all(n is not None for n in fns) else None
    if fdefs == {'PARAM'}:
        R.cost = ('param', f1)
    elif fdefs is not None and not fdefs and f1 in mod.functions:
        R.cost = ('function', f1)
    else:
        ck.missing(rule, 'provenance of the cost callable `%s`' % f1)
        return
    # operands: one side is the CURRENT distances (state variable), the other a per-trip candidate

    def loop_local(arg, st):
        n = _orig_name(fi, arg)
        if not isinstance(n, ast.Name):
            return None
        ds = fi.rd.defs_at(st, n.id)
        return bool(ds) and all(d not in ('PARAM', 'UNBOUND') and _inside(mod, d, R.loop) for d in ds)

    if base is not None:
        # the cost of the current distances is kept in a variable across trips: it must equal cost(<current
        # distances>) whenever the comparison is evaluated
        if x1 != R.D and loop_local(a1, st1):
            R.cand_dist = _orig_name(fi, a1).id
        if not _baseline(ck, R, rule, a, base, str(cmp_)):
            return
        x2 = R.D
    if x2 == R.D and x1 != R.D:
        ll = loop_local(a1, st1)
        if ll is None:
            ck.missing(rule, 'candidate operand `%s` of the accept test is not a named array' % x1)
            return
        if not ll:
            ck.bad(rule, mod, a.owner, PAM, desc,
                   'the cost on the small side is not the cost of a candidate built in this trip of the loop '
                   '(`%s` is defined outside the per-centre loop): %s' % (x1, why))
            return
        ck.ok(rule, mod, a.owner, desc, 'commit only if cost(candidate distances) %s cost(current distances)' % ('<' if strict else '<='))
        R.cand_dist = _orig_name(fi, a1).id
    elif x1 == R.D and x2 != R.D:
        ck.bad(rule, mod, a.owner, PAM, desc, why)
        return
    elif x1 == x2:
        ck.bad(rule, mod, a.owner, PAM, desc, 'both sides of the accept test are the cost of the same array: ' + why)
        return
    else:
        ck.missing(rule, 'accept test `%s`: neither operand is the cost of the current distances `%s`' % (desc[:120], R.D))
        return
    for a2_, c in extra:
        ck.missing(rule, 'additional accept condition `%s` not modelled' % (str(c) if isinstance(c, Cmp) else u(c[1]))[:100])
    # the candidate must be complete when its cost is taken: no store into it afterwards in the same trip
    cand = R.cand_dist
    late = [s for s in fi._mutated_in_place(cand) + assigns_to(R.loop, cand)
            if _inside(mod, s, R.loop) and s is not st1 and fi.cfg.reachable(st1, s, avoiding=[R.loop])]
    ck.check(not late, rule + '.complete', mod, late[0] if late else st1, PAM, u(late[0] if late else st1)[:160],
             'candidate cost is computed after the last store into the candidate distances',
             'a store into the candidate distances `%s` follows the cost computation within the same trip' % cand)


def _control_equivalent(fi, x, y):
    """x and y execute together: one dominates the other and is post-dominated by it."""
    c = fi.cfg
    return (c.dominates(x, y) and c.postdominates(y, x)) or (c.dominates(y, x) and c.postdominates(x, y))


def _baseline(ck, R, rule, acc, base, desc):
    """The big side of the accept test is a variable `oc` that carries a cost across trips of the per-centre
    loop (the cost of the current distances is not recomputed for every proposal).  Decide the invariant
    oc == cost(<current distances D>) at the comparison:
      * a definition `oc = cost(D)` is valid where it stands;
      * a definition `oc = cost(N)` with N a candidate array is valid iff it executes together with the commit
        `D = N` of the same N (control equivalent, nothing in between);  if it can execute without the accept
        condition (not dominated by it) the baseline becomes the cost of a REJECTED candidate -> violation;
      * a write to D from which the comparison is reachable without passing a definition of oc leaves a
        stale baseline -> violation (unless it is the commit paired with a refresh as above).
    Returns True when the invariant is established; otherwise a bad/missing has been reported."""
    mod, fn, fi, loop = R.mod, R.fn, R.fi, R.loop
    oc = base['name']
    use = fi.stmt(oc)
    D = R.D
    ocdefs = [d for d, _ in base['carried']]
    dwrites = []
    for w in list(assigns_to(fn, D)) + list(fi._mutated_in_place(D)):
        if w not in dwrites:
            dwrites.append(w)
    paired = {}
    for d, info in base['carried']:
        st = info['st']
        x = fi.xu(info['arg'])
        if x == D:
            if st is not d and (fi.rd.defs_at(st, D) != fi.rd.defs_at(d, D) or any(
                    fi.cfg.reachable(st, w, avoiding=[d]) and fi.cfg.reachable(w, d, avoiding=[st]) for w in dwrites)):
                ck.missing(rule, 'baseline `%s`: `%s` may change between `%s` and this assignment' % (u(d)[:80], D, u(st)[:60]))
                return False
            continue
        n = _orig_name(fi, info['arg'])
        if not isinstance(n, ast.Name):
            ck.missing(rule, 'baseline `%s`: cost of `%s`, which is neither the current distances nor a named candidate' % (u(d)[:80], x))
            return False
        cands = fi.rd.defs_at(st, n.id)
        local = bool(cands) and all(c not in ('PARAM', 'UNBOUND') and _inside(mod, c, loop) for c in cands)
        pair = None
        for w in dwrites:
            if not isinstance(w, ast.Assign) or w in paired:
                continue
            wv = fi.def_value(w, D)
            wn = _orig_name(fi, wv) if wv is not None else None
            if not (isinstance(wn, ast.Name) and wn.id == n.id and fi.rd.defs_at(w, n.id) == cands
                    and _control_equivalent(fi, d, w)):
                continue
            first, second = (d, w) if fi.cfg.dominates(d, w) else (w, d)
            between = [m for m in fi._mutated_in_place(n.id) + fi._mutated_in_place(D)
                       if m is not first and m is not second and fi.cfg.reachable(first, m, avoiding=[loop, second])
                       and fi.cfg.reachable(m, second, avoiding=[loop, first])]
            if not between and _no_redef_between(fi, D, first, second, loop) and _no_redef_between(fi, oc.id, first, second, loop):
                pair = w
                break
        if pair is not None:
            paired[pair] = d
            continue
        # the refresh certainly executes after a REJECTION, in the same trip, and then reaches the next comparison
        rej = [x for x in fi.cfg.nodes if isinstance(x, Assume) and x.owner is acc.owner and x.polarity != acc.polarity]
        after_reject = (len(rej) == 1 and fi.cfg.reachable(rej[0], d, avoiding=[loop])
                        and not fi.cfg.reachable(rej[0], loop, avoiding=[d])
                        and not any(fi.cfg.reachable(rej[0], w, avoiding=[loop, d]) for w in dwrites)
                        and fi.cfg.reachable(d, use, avoiding=[x for x in ocdefs if x is not d]))
        if _inside(mod, d, loop) and local and not fi.cfg.dominates(acc, d) and after_reject:
            ck.bad(rule, mod, d, PAM, u(d)[:160],
                   'the cost `%s` on the big side of the accept test `%s` is kept across trips of the per-centre loop, '
                   'and this refresh sets it to the cost of the candidate `%s` WITHOUT the accept condition (it is not '
                   'controlled by `%s`): after a rejected proposal the baseline is the cost of the rejected candidate, '
                   'not cost(%s) of the current clustering, so a later proposal that is worse than the current '
                   'clustering can be accepted and a sweep can raise the cost' % (
                       oc.id, desc[:80], n.id, u(acc.test)[:60], D))
            return False
        ck.missing(rule, 'baseline `%s`: not recognised as a refresh that executes together with the commit `%s = %s`' % (u(d)[:80], D, n.id))
        return False
    for w in dwrites:
        if w in paired:
            continue
        if fi.cfg.reachable(w, use, avoiding=ocdefs):
            ck.bad(rule, mod, w, PAM, u(w)[:160],
                   'the cost `%s` on the big side of the accept test `%s` is kept across trips of the per-centre loop '
                   'but is not refreshed after this write to the current distances `%s`: the next proposal is compared '
                   'with the cost of distances that are no longer current' % (oc.id, desc[:80], D))
            return False
    ck.ok(rule, mod, use, 'baseline %s' % '; '.join(u(d)[:60] for d in ocdefs),
          'the carried cost equals cost(%s) at every evaluation of the accept test' % D)
    return True


def d1_cost(ck, R):
    """The callable that orders the candidates is, by default, the mean of the
    SQUARED distances (the cost the property speaks about)."""
    rule = 'C09.D1.cost'
    if R is None or R.cost is None:
        return
    mod, fn = R.mod, R.fn
    kind, name = R.cost
    g = None
    if kind == 'param':
        d = param_default(fn, name)
        if isinstance(d, ast.Name) and d.id in mod.functions:
            g = mod.functions[d.id]
        elif isinstance(d, ast.Lambda):
            g = d
        else:
            ck.missing(rule, 'default of the cost parameter `%s` (%s) is not a function of this module' % (name, u(d)))
            return
        # nobody overrides it
        for rel in (KM, HY):
            m = ck.repo.mod(rel)
            for q, f in m.functions.items():
                for c in calls_in(f):
                    if _last(call_name(c)) != PAM:
                        continue
                    b = _bind(c, fn, mod)
                    if b is None:
                        ck.missing(rule, 'arguments of `%s` in %s' % (u(c)[:80], q))
                    elif name in b and not (isinstance(b[name], ast.Name) and isinstance(d, ast.Name) and b[name].id == d.id):
                        ck.missing(rule, '%s passes its own cost callable `%s`: not modelled' % (q, u(b[name])[:60]))
    else:
        g = mod.functions[name]
    if isinstance(g, ast.Lambda):
        gps = [a.arg for a in g.args.args]
        body, gname, node = g.body, '%s (default of %s)' % (u(g)[:40], name), g
        expanded = body
    else:
        ck.analysed(mod, g)
        gps = params(g)
        gname = g.name
        rets = returns_of(g)
        if len(rets) != 1 or rets[0].value is None:
            ck.missing(rule, 'single return of the cost function %s' % gname)
            return
        node = rets[0]
        expanded = finfo(mod, g).expand(rets[0].value)
    if len(gps) != 1:
        ck.missing(rule, 'cost function %s with a single parameter' % gname)
        return
    x = gps[0]

    # model: the striped mean IS the mean of the distributed array
    class M(ast.NodeTransformer):
        def visit_Call(self, n):
            self.generic_visit(n)
            if _last(call_name(n)) == 'striped_array_mean' and len(n.args) == 1 and not n.keywords:
                return ast.copy_location(ast.Call(func=ast.Attribute(value=n.args[0], attr='mean', ctx=ast.Load()), args=[], keywords=[]), n)
            return n
    import copy
    modelled = M().visit(copy.deepcopy(expanded))
    ast.fix_missing_locations(modelled)
    sq = ['np.square(%s)' % x, '(%s ** 2)' % x, '(%s * %s)' % (x, x), 'np.power(%s, 2)' % x, 'np.multiply(%s, %s)' % (x, x),
          '(%s ** 2.0)' % x, '(np.abs(%s) ** 2)' % x, '(abs(%s) ** 2)' % x, '(np.abs(%s) * np.abs(%s))' % (x, x),
          '(abs(%s) * abs(%s))' % (x, x), 'np.power(%s, 2.0)' % x, 'np.float_power(%s, 2)' % x]
    forms = []
    for s in sq:
        forms += ['%s.mean()' % s, 'np.average(%s)' % s, 'float(%s.mean())' % s, '%s.mean(axis=0)' % s,
                  '%s.sum() / len(%s)' % (s, x), '%s.sum() / %s.size' % (s, x), '%s.sum() / %s.shape[0]' % (s, x),
                  'sum(%s) / len(%s)' % (s, x)]
    for n in ('len(%s)' % x, 'float(len(%s))' % x, '%s.size' % x, '%s.shape[0]' % x):
        forms += ['np.dot(%s, %s) / %s' % (x, x, n), '%s.dot(%s) / %s' % (x, x, n), '(%s @ %s) / %s' % (x, x, n),
                  'np.inner(%s, %s) / %s' % (x, x, n), 'np.vdot(%s, %s) / %s' % (x, x, n), 'np.linalg.norm(%s) ** 2 / %s' % (x, n)]
        forms += ['%s.sum() / %s' % (sq_, n) for sq_ in sq]
    v = classify(modelled, forms, scope={x})
    ck.decide(v, rule, mod, node, gname if not isinstance(g, ast.Lambda) else PAM, u(node)[:200],
              'candidates are ordered by the mean SQUARED distance',
              'the cost that decides acceptance must be the mean of the squared frame-to-centre distances '
              '(mean(square(d))): with another function of the distances a proposal can be accepted although the '
              'mean squared distance goes up')


# ---------------------------------------------------------------------------
# D2 atomic commit

_FRESH_CALLS = {'zeros_like', 'full_like', 'empty_like', 'ones_like', 'full', 'zeros', 'ones', 'empty', 'copy', 'deepcopy',
                'astype', 'where', 'arange', 'repeat', 'tile', 'array', 'choose', 'select', 'minimum', 'maximum', 'concatenate'}
_ALIAS_CALLS = {'asarray', 'asanyarray', 'atleast_1d', 'view', 'reshape', 'ravel', 'squeeze', 'transpose', 'ascontiguousarray',
                'swapaxes', 'asfortranarray'}


def _array_freshness(v):
    """'fresh' (a new ndarray), 'alias' (may share storage with an operand), or None."""
    if isinstance(v, (ast.BinOp, ast.UnaryOp, ast.Compare)):
        return 'fresh'
    if isinstance(v, ast.Call):
        f = _last(call_name(v)) if call_name(v) else (v.func.attr if isinstance(v.func, ast.Attribute) else None)
        if f == 'array' and kwarg(v, 'copy') is not None and const_value(kwarg(v, 'copy')) is not True:
            return 'alias'
        if f in _FRESH_CALLS:
            return 'fresh'
        if f in _ALIAS_CALLS:
            return 'alias'
        return None
    if isinstance(v, ast.Name):
        return 'alias'
    if isinstance(v, ast.Attribute) and v.attr in ('T', 'real', 'flat'):
        return 'alias'
    if isinstance(v, ast.Subscript):
        sl = v.slice
        parts = sl.elts if isinstance(sl, ast.Tuple) else [sl]
        if all(isinstance(p, ast.Slice) or (isinstance(p, ast.Constant) and p.value in (None, Ellipsis)) for p in parts):
            return 'alias'
        return None
    return None


def _copy_forms(name):
    """Accepted spellings of "a fresh (shallow) copy of the list `name`"."""
    return ['%s.copy()' % name, 'list(%s)' % name, 'copy.copy(%s)' % name, '%s[:]' % name, '[_C for _C in %s]' % name,
            'copy.deepcopy(%s)' % name, '[*%s]' % name, '%s + []' % name, 'list(%s.copy())' % name, '%s[0:]' % name,
            'list(%s[:])' % name]


def _writes_in(fi, mod, loop, var):
    out = list(assigns_to(loop, var))
    for s in fi._mutated_in_place(var):
        if _inside(mod, s, loop) and s not in out:
            out.append(s)
    return out


def _index_sets(fi, loop, name):
    return sorted({fi.xu(t.slice, strict=False) for s, t in subscript_stores(loop, name)})


def d2_atomic(ck, R):
    rule = 'C09.D2.atomic'
    if R is None:
        return
    mod, fn, fi, loop = R.mod, R.fn, R.fi, R.loop
    # --- return order = (indices, distances, labels, coordinates): the rebound parameters 3, 5, 4
    ok = (R.MI, R.D, R.A) == (R.pMI, R.pD, R.pA) and R.MC not in (R.pMI, R.pD, R.pA, R.X)
    ck.check(ok, rule + '.return', mod, R.ret, PAM, u(R.ret),
             'returns (indices, distances, assignments, coordinates)',
             'return order must be (%s, %s, %s, <centre coordinates>); callers unpack it positionally' % (R.pMI, R.pD, R.pA))
    acc = R.accept if R.accept is not None else R.region
    if acc is None:
        ck.missing(rule, 'no branch condition controls the commit (see C09.D1.accept): the commit region is unknown')
        return
    node = acc.owner
    # --- every write to a state variable inside the loop is controlled by the accept condition; all four are written
    for var in R.state:
        writes = _writes_in(fi, mod, loop, var)
        inside = [w for w in writes if fi.cfg.dominates(acc, w)]
        for w in writes:
            if w not in inside:
                ck.bad(rule + '.only-in-accept', mod, w, PAM, u(w)[:160],
                       'current state variable `%s` is written outside the accept branch: '
                       'part of the candidate is committed before/without the decision' % var)
        ck.check(bool(inside), rule + '.all-four', mod, node, PAM,
                 'accept branch writes %s' % var,
                 '`%s` is replaced in the accept branch' % var,
                 'the accept branch does not update `%s`: the accepted candidate is '
                 'committed only partially (labels/distances/coordinates/indices go out of step)' % var)

    # --- the values committed are the candidate ones
    def committed(var):
        out = []
        for s in assigns_to(loop, var):
            if fi.cfg.dominates(acc, s) and isinstance(s, ast.Assign):
                v = fi.def_value(s, var)
                out.append((s, _orig_name(fi, v) if v is not None else None))
        return out

    cands = {}
    P_inplace = None
    for var in (R.D, R.A, R.MC):
        cs = committed(var)
        if var == R.MC:
            # commit of the centre list IN PLACE: the accept region stores the proposed coordinate at the position
            # of the centre being updated into the current list itself - either directly (the list is a local of
            # this function, built from the indices) or after rebinding it to a fresh copy of itself.  There is no
            # named candidate list then; the proposed coordinate is the value of that store.
            selfcopy = (len(cs) == 1 and not isinstance(cs[0][1], ast.Name) and fi.def_value(cs[0][0], var) is not None and classify(
                fi.expand(fi.def_value(cs[0][0], var), stop=(var,)), _copy_forms(var), scope={var})[0] == 'match')
            if not cs or selfcopy:
                inpl = [(m, t) for m, t in subscript_stores(loop, var) if fi.cfg.dominates(acc, m)]
                other = [m for m in _writes_in(fi, mod, loop, var) if fi.cfg.dominates(acc, m)
                         and not any(m is x for x, _ in inpl) and not (selfcopy and m is cs[0][0])]
                if len(inpl) == 1 and not other and isinstance(inpl[0][0], ast.Assign) and len(inpl[0][0].targets) == 1 \
                        and (not selfcopy or fi.cfg.dominates(cs[0][0], inpl[0][0])):
                    m, t = inpl[0]
                    v = classify(fi.expand(t.slice), [R.cid], scope={R.cid})
                    ck.decide(v, rule + '.values', mod, m, PAM, u(m), 'the accept branch stores the proposed coordinate at the '
                              'position of the centre being updated%s' % (' (into a fresh copy of the list)' if selfcopy else ''),
                              'the proposed coordinate must be stored at position %s (the centre whose index is replaced)' % R.cid)
                    pn = _orig_name(fi, m.value)
                    if v[0] == 'match' and isinstance(pn, ast.Name):
                        P_inplace = pn
                    elif v[0] == 'match':
                        ck.missing('C09.D3.frame', 'value stored into the centre list is not a named coordinate: %s' % u(m)[:100])
                    continue
        if len(cs) != 1 or not isinstance(cs[0][1], ast.Name):
            if cs:
                ck.missing(rule + '.values', 'value committed to `%s` is not a single named candidate: %s' % (var, '; '.join(u(s)[:60] for s, _ in cs)))
            continue
        cands[var] = cs[0]
    others = set(R.state) | {R.X}
    if R.D in cands:
        s, v = cands[R.D]
        if R.cand_dist is None:
            ck.missing(rule + '.values', 'candidate distances unknown (accept test not established)')
        else:
            ck.check(v.id == R.cand_dist, rule + '.values', mod, s, PAM, '%s = %s' % (R.D, v.id),
                     'current distances take the candidate whose cost was compared',
                     '`%s` must be replaced by the candidate `%s` whose cost decided the acceptance, found `%s`' % (R.D, R.cand_dist, v.id))
    NA = NM = None
    if R.A in cands:
        s, v = cands[R.A]
        NA = v.id
        lab = [st for st, t in subscript_stores(loop, NA) if fi.xu(st.value) == R.cid]
        if NA in others or NA == R.cand_dist:
            ck.bad(rule + '.values', mod, s, PAM, '%s = %s' % (R.A, NA),
                   '`%s` must be replaced by the candidate labels, found `%s` (%s)' % (
                       R.A, NA, 'the candidate distances' if NA == R.cand_dist else 'a current state variable'))
        elif R.cand_dist is not None and lab and _index_sets(fi, loop, NA) == _index_sets(fi, loop, R.cand_dist):
            ck.ok(rule + '.values', mod, s, '%s = %s' % (R.A, NA),
                  'current labels take the candidate built under the same index sets as the candidate distances')
        else:
            ck.missing(rule + '.values', 'candidate labels `%s`: not recognised as the array filled together with the '
                       'candidate distances (stores of `%s` under the same index sets)' % (NA, R.cid))
    if R.MC in cands:
        s, v = cands[R.MC]
        NM = v.id
        if NM in others or NM in (R.cand_dist, NA):
            ck.bad(rule + '.values', mod, s, PAM, '%s = %s' % (R.MC, NM),
                   '`%s` must be replaced by the candidate centre list, found `%s`' % (R.MC, NM))
            NM = None
    # --- index of the replaced centre takes the proposal index
    PI = _orig_name(fi, R.commit.value)
    kx = fi.xu(R.commit_target.slice)
    if kx != R.cid:
        v = classify(fi.expand(R.commit_target.slice), [R.cid], scope={R.cid})
        ck.decide(v, rule + '.values', mod, R.commit, PAM, u(R.commit), '',
                  '%s[<loop centre %s>] must take the proposal index' % (R.MI, R.cid))
        PI = PI if isinstance(PI, ast.Name) else None
    elif not isinstance(PI, ast.Name):
        ck.missing(rule + '.values', 'value stored by `%s` is not a named proposal index' % u(R.commit)[:100])
        PI = None
    else:
        ck.ok(rule + '.values', mod, R.commit, u(R.commit), 'index of the replaced centre takes the proposal index')

    # --- candidate storage is fresh each trip
    for var, cname in ((R.D, R.cand_dist), (R.A, NA)):
        if cname is None or var not in cands:
            continue
        ds = fi.rd.defs_at(cands[var][0], cname)
        for d in ds:
            if d in ('PARAM', 'UNBOUND') or not _inside(mod, d, loop):
                ck.bad(rule + '.fresh', mod, cands[var][0], PAM, '%s = %s' % (var, cname),
                       'candidate array `%s` must be fresh storage built in this trip, not an object from outside the loop' % cname)
                continue
            val = fi.def_value(d, cname) if isinstance(d, (ast.Assign, ast.AnnAssign)) else None
            fr = _array_freshness(fi.expand(val)) if val is not None else None
            if fr is None:
                ck.missing(rule + '.fresh', 'allocation of the candidate array `%s`: %s' % (cname, u(d)[:100]))
            else:
                ck.check(fr == 'fresh', rule + '.fresh', mod, d, PAM, u(d),
                         'candidate array is freshly allocated each trip',
                         'candidate array `%s` must be fresh storage, not an alias of the current state' % cname)
    P = None
    if NM is not None:
        s = cands[R.MC][0]
        ds = fi.rd.defs_at(s, NM)
        copies = _copy_forms(R.MC)
        for d in ds:
            if d in ('PARAM', 'UNBOUND') or not _inside(mod, d, loop) or not isinstance(d, (ast.Assign, ast.AnnAssign)):
                ck.missing(rule + '.fresh', 'definition of the candidate centre list `%s` inside the per-centre loop' % NM)
                continue
            val = fi.def_value(d, NM)
            if val is None:
                ck.missing(rule + '.fresh', 'definition of the candidate centre list: %s' % u(d)[:100])
                continue
            v = classify(fi.expand(val, stop=(R.MC,)), copies, scope={R.MC})
            ck.decide(v, rule + '.fresh', mod, d, PAM, u(d), 'candidate centre list is a fresh copy of the current one',
                      'the candidate centre list must be a COPY of %s: if it aliases the current '
                      'list, `%s[%s] = <proposed centre>` commits the proposal before the '
                      'accept/reject decision and a rejected proposal stays behind' % (R.MC, NM, R.cid))
        # the proposal is swapped in at the position of the centre being updated
        muts = [m for m in fi._mutated_in_place(NM) if _inside(mod, m, loop)]
        sw = [(m, t) for m, t in subscript_stores(loop, NM) if isinstance(m, ast.Assign)]
        if len(muts) == 1 and len(sw) == 1 and sw[0][0] is muts[0]:
            m, t = sw[0]
            v = classify(fi.expand(t.slice), [R.cid], scope={R.cid})
            ck.decide(v, rule + '.values', mod, m, PAM, u(m), 'the proposed coordinate replaces the centre being updated',
                      'the proposed coordinate must be stored at position %s (the centre whose index is replaced)' % R.cid)
            P = _orig_name(fi, m.value)
            if not isinstance(P, ast.Name):
                ck.missing('C09.D3.frame', 'value swapped into the candidate centre list is not a named coordinate: %s' % u(m)[:100])
                P = None
        else:
            ck.missing(rule + '.values', 'exactly one in-place change `%s[%s] = <proposed centre>` of the candidate centre list (found %d)' % (NM, R.cid, len(muts)))
    if P is None and NM is None:
        P = P_inplace
    R.PI, R.P, R.NM, R.NA = PI, P, NM, NA
    _candidate_centres(ck, R)
    _guarded(ck, 'C09.D2.atomic.partition', _candidate_partition, ck, R)


def _candidate_centres(ck, R):
    """The candidate distances / labels whose cost decides the acceptance must be
    those of the CANDIDATE configuration (the current centres with the proposed
    coordinate at the position of the centre being updated).  Whatever call
    feeds the candidate arrays and takes a list of centres - the re-assignment
    of the frames that lose their centre - must therefore receive a list that
    holds the proposed coordinate at that position when the call executes: a
    store `<list>[<centre id>] = <proposed coordinate>` dominates the call and
    the list is not rebound in between.  Handing over the CURRENT centre list
    (a state variable no store of this trip has touched) evaluates the
    candidate as if the replaced centre were still available: its cost is
    min(old, new) per frame, a lower bound that passes the accept test for
    proposals that raise the true cost."""
    rule = 'C09.D2.atomic.candidate-centres'
    mod, fn, fi, loop = R.mod, R.fn, R.fi, R.loop
    NM, NA, P = R.NM, R.NA, R.P
    arrays = [x for x in (R.cand_dist, NA) if x]
    if not arrays:
        ck.missing(rule, 'candidate distances / labels not located (see C09.D1.accept, C09.D2.atomic.values)')
        return
    # --- calls whose result is stored into a candidate array
    feed = []

    def add(c):
        if isinstance(c, ast.Call) and not any(c is x for x in feed):
            feed.append(c)
    for arr in arrays:
        for s, t in subscript_stores(loop, arr):
            val = getattr(s, 'value', None)
            if val is None:
                continue
            for n in walk_expr(val):
                if isinstance(n, ast.Call):
                    add(n)
                elif isinstance(n, ast.Name) and isinstance(n.ctx, ast.Load):
                    n0 = _orig_name(fi, n)
                    if not isinstance(n0, ast.Name):
                        continue
                    try:
                        ds = fi.defs_of_use(n0)
                    except Exception:
                        continue
                    for d in ds:
                        if d not in ('PARAM', 'UNBOUND') and isinstance(d, (ast.Assign, ast.AnnAssign)) and _inside(mod, d, loop):
                            add(d.value)
                    # an element of a call result that travels through names / literal positions
                    ce = _call_element(fi, n0)
                    if ce is not None and fi.stmt(ce[0]) is not None and _inside(mod, fi.stmt(ce[0]), loop):
                        add(ce[0])
    try:
        cu_mod = ck.repo.mod(CU)
        atn = cu_mod.func('assign_to_nearest_center')
    except AnalysisIncomplete:
        cu_mod = atn = None
    lists = {R.MC} | ({NM} if NM else set())
    sites = []          # (call, centre-list argument)
    for c in feed:
        if _last(call_name(c)) == 'assign_to_nearest_center':
            b = _bind(c, atn, cu_mod) if atn is not None else None
            ps = params(atn) if atn is not None else []
            if b is None or len(ps) < 2 or ps[1] not in b:
                ck.missing(rule, 'arguments of `%s`' % u(c)[:100])
                continue
            sites.append((c, b[ps[1]]))
            continue
        for a in list(c.args) + [k.value for k in c.keywords]:
            n0 = _orig_name(fi, a)
            if isinstance(n0, ast.Name) and n0.id in lists:
                sites.append((c, a))
    if not sites:
        ck.missing(rule, 'no call that takes a list of centres feeds the candidate arrays %s: the re-assignment of the frames '
                   'that lose their centre was not located' % ', '.join(arrays))
        return
    for c, a in sites:
        st = fi.stmt(c)
        n0 = _orig_name(fi, a)
        ax = None
        try:
            ax = canon(fi.expand(a, strict=False, stop=tuple(lists) + (R.cid,)))
        except Exception:
            ax = None
        if ax is not None and not isinstance(ax, ast.Name) and _label_positions(ck, R, c, a, ax, lists, st):
            continue
        if not isinstance(n0, ast.Name):
            ck.missing(rule, 'centre list `%s` handed to `%s` is not a named list' % (u(a)[:60], u(c)[:80]))
            continue
        L = n0.id
        construct = '%s  [centres = %s]' % (u(c)[:160], L)
        stores = [(m, t) for m, t in subscript_stores(loop, L)]
        swaps = [(m, t) for m, t in stores if classify(fi.expand(t.slice), [R.cid], scope={R.cid})[0] == 'match']
        before = [(m, t) for m, t in swaps if m is not st and fi.cfg.dominates(m, st) and _no_redef_between(fi, L, m, st, loop)
                  and fi.rd.defs_at(m, L) == fi.rd.defs_at(st, L)]
        if before:
            m, t = before[-1]
            pn = _orig_name(fi, m.value) if isinstance(m, ast.Assign) and len(m.targets) == 1 and t is m.targets[0] else None
            later = [x for x, _ in stores if x is not m and fi.cfg.reachable(m, x, avoiding=[loop, st])
                     and fi.cfg.reachable(x, st, avoiding=[loop, m])]
            if later:
                ck.missing(rule, 'centre list `%s`: further stores (%s) between the swap and the re-assignment' % (L, u(later[0])[:60]))
            elif P is not None and isinstance(pn, ast.Name) and pn.id == P.id and fi.defs_of_use(pn) == fi.defs_of_use(P):
                ck.ok(rule, mod, c, construct, 'the candidate is evaluated against the centre list that holds the proposed '
                      'coordinate at position %s (`%s` precedes the call)' % (R.cid, u(m)[:60]))
            elif P is None and isinstance(pn, ast.Name):
                ck.missing(rule, 'proposed coordinate not located (see C09.D2.atomic.values): cannot tell whether `%s` stores it' % u(m)[:80])
            else:
                ck.missing(rule, 'value stored by `%s` is not recognised as the proposed coordinate%s' % (
                    u(m)[:80], ' `%s`' % P.id if P is not None else ''))
            continue
        # no store of this trip puts a proposal into the list before the call
        defs = fi.rd.defs_at(st, L)
        plain_copy = bool(defs) and all(
            d not in ('PARAM', 'UNBOUND') and isinstance(d, (ast.Assign, ast.AnnAssign)) and _inside(mod, d, loop)
            and fi.def_value(d, L) is not None
            and classify(fi.expand(fi.def_value(d, L), stop=(R.MC,)), _copy_forms(R.MC) + [R.MC], scope={R.MC})[0] == 'match'
            for d in defs)
        touched = [x for x in fi._mutated_in_place(L) if _inside(mod, x, loop) and x is not st
                   and fi.cfg.reachable(x, st, avoiding=[loop])]
        if L == R.MC and not touched:
            ck.bad(rule, mod, c, PAM, construct,
                   'the frames that lose their centre are re-assigned against `%s`, the CURRENT centre list: no store of this '
                   'trip has put the proposed coordinate at position %s when the call executes, so the list still holds the '
                   'centre that is being replaced. The candidate distances stored into %s are then min(old, new) per frame - '
                   'the cost of a configuration with BOTH the old and the proposed centre - which is below the current cost '
                   'for any proposal that improves a single frame: proposals that raise the mean squared distance are '
                   'accepted, and the committed distances/labels refer to a frame that is no longer a centre. The call must '
                   'receive the candidate list (a copy of `%s` with `[%s] = <proposed coordinate>` stored before the call)'
                   % (L, R.cid, ' / '.join(arrays), R.MC, R.cid))
        elif L != R.MC and plain_copy and not touched:
            late = [m for m, _ in swaps if fi.cfg.reachable(st, m, avoiding=[loop])]
            ck.bad(rule, mod, c, PAM, construct,
                   'the frames that lose their centre are re-assigned against `%s`, which at this point is an unmodified copy of '
                   'the current centre list `%s`%s: the candidate distances stored into %s are computed as if the centre being '
                   'replaced were still available (min(old, new) per frame), so proposals that raise the mean squared distance '
                   'pass the accept test' % (L, R.MC, ' (the proposal is stored into it only afterwards: `%s`)' % u(late[0])[:60]
                                             if late else '', ' / '.join(arrays)))
        else:
            ck.missing(rule, 'centre list `%s` handed to `%s`: no store `%s[%s] = <proposed coordinate>` recognised before the call'
                       % (L, u(c)[:80], L, R.cid))


def _lin_add(a, b, sign=1):
    out = dict(a)
    for k, v in b.items():
        out[k] = out.get(k, 0) + sign * v
    return {k: v for k, v in out.items() if v != 0}


def _lin(e, cid, L):
    """Linear form {'1': c, 'cid': a, 'len': b} of an integer expression over the centre id, literals and
    len(<list L>); None for anything else."""
    if isinstance(e, ast.Constant) and isinstance(e.value, int) and not isinstance(e.value, bool):
        return {'1': e.value} if e.value else {}
    if isinstance(e, ast.Name) and e.id == cid:
        return {'cid': 1}
    if isinstance(e, ast.UnaryOp) and isinstance(e.op, ast.USub):
        x = _lin(e.operand, cid, L)
        return None if x is None else _lin_add({}, x, -1)
    if isinstance(e, ast.BinOp) and isinstance(e.op, (ast.Add, ast.Sub)):
        x, y = _lin(e.left, cid, L), _lin(e.right, cid, L)
        return None if x is None or y is None else _lin_add(x, y, 1 if isinstance(e.op, ast.Add) else -1)
    if isinstance(e, ast.Call) and call_name(e) == 'len' and len(e.args) == 1 and not e.keywords \
            and isinstance(e.args[0], ast.Name) and e.args[0].id == L:
        return {'len': 1}
    return None


def _slice_bound(e, cid, L, default):
    """Linear form of a slice bound that is known to lie inside the list for every centre id of the per-centre
    loop (0 <= cid < len): a literal (a negative one counts from the end), `cid`, `cid + 1`, len(L)."""
    if e is None:
        return default
    x = _lin(e, cid, L)
    if x is None:
        return None
    if set(x) <= {'1'}:
        c = x.get('1', 0)
        return x if c >= 0 else _lin_add({'len': 1}, x)
    if x in ({'cid': 1}, {'cid': 1, '1': 1}, {'len': 1}):
        return x
    return None


def _concat_pieces(e):
    if isinstance(e, ast.BinOp) and isinstance(e.op, ast.Add):
        a, b = _concat_pieces(e.left), _concat_pieces(e.right)
        return None if a is None or b is None else a + b
    return [e]


def _label_positions(ck, R, call, arg, ax, lists, st):
    """The labels a re-assignment call returns are POSITIONS in the list of centres it was handed; stored into
    the candidate labels they are read as positions in the state's centre lists (indices, coordinates - the
    centre id of the per-centre loop).  The list handed over must therefore have the entries of the candidate
    centre list at the same positions.  Decided here for an argument that is a concatenation of slices of a centre
    list and list displays: by counting entries.  Returns True when a verdict was issued."""
    rule = 'C09.D2.atomic.label-positions'
    mod, fi, loop, cid = R.mod, R.fi, R.loop, R.cid
    pieces = _concat_pieces(ax)
    if pieces is None:
        return False
    base = None
    total = {}
    shape = []
    for p_ in pieces:
        if isinstance(p_, ast.Subscript) and isinstance(p_.value, ast.Name) and p_.value.id in lists and isinstance(p_.slice, ast.Slice) \
                and p_.slice.step is None:
            L = p_.value.id
            if base is not None and base != L:
                return False
            base = L
            lo = _slice_bound(p_.slice.lower, cid, L, {})
            hi = _slice_bound(p_.slice.upper, cid, L, {'len': 1})
            if lo is None or hi is None:
                return False
            total = _lin_add(total, _lin_add(hi, lo, -1))
            shape.append(('slice', lo, hi))
        elif isinstance(p_, ast.List) and not any(isinstance(x, ast.Starred) for x in p_.elts):
            total = _lin_add(total, {'1': len(p_.elts)} if p_.elts else {})
            shape.append(('items', p_.elts))
        else:
            return False
    if base is None:
        return False
    construct = '%s  [centres = %s]' % (u(call)[:120], u(ax)[:80])
    diff = _lin_add(total, {'len': 1}, -1)
    if not diff:
        # same number of entries: the spelled-out candidate list  L[:cid] + [<proposed coordinate>] + L[cid + 1:]
        if len(shape) == 3 and shape[0] == ('slice', {}, {'cid': 1}) and shape[1][0] == 'items' and len(shape[1][1]) == 1 \
                and shape[2] == ('slice', {'cid': 1, '1': 1}, {'len': 1}) and base == R.MC \
                and not [x for x in fi._mutated_in_place(base) if _inside(mod, x, loop) and fi.cfg.reachable(x, st, avoiding=[loop])]:
            pn = shape[1][1][0]         # a node of the expanded copy: compare the definitions that reach the call
            if R.P is not None and isinstance(pn, ast.Name) and pn.id == R.P.id and fi.rd.defs_at(st, pn.id) == fi.defs_of_use(R.P):
                ck.ok(rule, mod, call, construct, 'the re-assignment receives the current centres with the proposed coordinate '
                      'at position %s' % cid)
                return True
        return False
    if set(diff) != {'1'}:
        return False
    # a list with a different number of entries than the centre list.  Are the returned labels stored as they are?
    NA = R.NA
    if not NA:
        return False
    direct, other = [], []
    for s_, t in subscript_stores(loop, NA):
        val = getattr(s_, 'value', None)
        ce = _call_element(fi, _orig_name(fi, val)) if val is not None else None
        if ce is not None and ce[0] is call:
            (direct if ce[1] == 0 else other).append((s_, ce[2]))
    if not direct:
        ck.missing(rule, 'centre list `%s` handed to `%s` has %+d entries relative to `%s`; how the returned labels reach the '
                   'candidate labels `%s` was not recognised' % (u(ax)[:60], u(call)[:60], diff['1'], base, NA))
        return True
    s_, binders = direct[0]
    for m in _changed_between(fi, mod, loop, binders, st, s_):
        plain = isinstance(m, ast.Assign) and len(m.targets) == 1 and isinstance(m.targets[0], ast.Subscript)
        if plain:
            try:
                reads = names_loaded(fi.expand(m.targets[0].slice, strict=False)) | names_loaded(fi.expand(m.value, strict=False))
            except Exception:
                reads = set(binders)
            plain = not (reads & set(binders))
        if not plain:
            ck.missing(rule, 'centre list `%s` handed to `%s` has %+d entries relative to `%s`; the returned labels are changed by '
                       '`%s` before they are stored into `%s`: whether that maps them back to positions in `%s` is not decided'
                       % (u(ax)[:60], u(call)[:60], diff['1'], base, u(m)[:60], NA, base))
            return True
    ck.bad(rule, mod, call, PAM, construct,
           'the frames that lose their centre are re-assigned against `%s`, a list with %d %s than the centre list `%s`; the '
           'labels the call returns are positions in THAT list and `%s` stores them into the candidate labels unchanged (no '
           'statement in between computes new labels from the returned ones). Every position at or after the first dropped '
           'entry names a different centre in `%s` / `%s`: frames that move to such a centre get the label of its neighbour '
           'while their candidate distance is the one to the real nearest centre, so labels and distances of the committed '
           'state go out of step and later trips treat those frames as members of the wrong cluster. The call must receive '
           'the whole candidate list (one entry per centre, the proposed coordinate at position %s), or the returned labels '
           'must be mapped back to positions in it'
           % (u(ax)[:80], abs(diff['1']), 'entry fewer' if diff['1'] == -1 else ('entries fewer' if diff['1'] < 0 else 'entries more'),
              base, u(s_)[:80], R.MI, R.MC, cid))
    return True


# ---------------------------------------------------------------------------
# D2 (cont.): the candidate arrays are filled cell by cell

_ALLOC_CALLS = {'zeros_like', 'empty_like', 'full_like', 'ones_like', 'zeros', 'empty', 'full', 'ones'}


def _strip_sub(e):
    while isinstance(e, ast.Subscript):
        e = e.value
    return e


def _call_element(fi, e, depth=4):
    """(call, k, binders) when the expression `e` denotes element k (a non-negative literal position) of the
    tuple returned by ONE call: `a, d = f(...)` and a use of `a`; `r = f(...)` and `r[0]`; `f(...)[0]`;
    `a = r[0]` and a use of `a`.  `binders` are the local names through which the element travels (the rule
    that consumes the element has to look at in-place changes of those objects).  None when `e` is anything
    else (several reaching definitions, a computed position, a starred target ...)."""
    binders = []
    while depth > 0:
        depth -= 1
        if isinstance(e, ast.Subscript):
            k = const_value(e.slice)
            if not isinstance(k, int) or isinstance(k, bool) or k < 0:
                return None
            base = e.value
            if isinstance(base, ast.Call):
                return base, k, binders
            if not isinstance(base, ast.Name):
                return None
            try:
                ds = fi.defs_of_use(base)
            except Exception:
                return None
            if len(ds) != 1:
                return None
            d = next(iter(ds))
            if d in ('PARAM', 'UNBOUND') or not (isinstance(d, ast.Assign) and len(d.targets) == 1 and isinstance(d.targets[0], ast.Name)
                                                 and isinstance(d.value, ast.Call)):
                return None
            binders.append(base.id)
            return d.value, k, binders
        if not isinstance(e, ast.Name):
            return None
        try:
            ds = fi.defs_of_use(e)
        except Exception:
            return None
        if len(ds) != 1:
            return None
        d = next(iter(ds))
        if d in ('PARAM', 'UNBOUND') or not isinstance(d, ast.Assign) or len(d.targets) != 1:
            return None
        t = d.targets[0]
        binders.append(e.id)
        if isinstance(t, (ast.Tuple, ast.List)) and isinstance(d.value, ast.Call):
            if any(isinstance(x, ast.Starred) for x in t.elts):
                return None
            for k, x in enumerate(t.elts):
                if isinstance(x, ast.Name) and x.id == e.id:
                    return d.value, k, binders
            return None
        if isinstance(t, ast.Name) and isinstance(d.value, (ast.Subscript, ast.Name)):
            e = d.value
            continue
        return None
    return None


def _changed_between(fi, mod, loop, names, a, b):
    """Statements that change one of the objects `names` in place on a path from statement `a` to statement
    `b` within one trip of `loop`."""
    out = []
    for nm in names:
        for m in fi._mutated_in_place(nm):
            if m is a or m is b or not _inside(mod, m, loop) or any(m is x for x in out):
                continue
            if fi.cfg.reachable(a, m, avoiding=[loop, b]) and fi.cfg.reachable(m, b, avoiding=[loop, a]):
                out.append(m)
    return out


def _candidate_partition(ck, R):
    """The candidate distances / labels are built by masked stores.  Relative to the proposed centre every
    frame falls into one of six cells: (its current distance D is <, == or > its distance N to the proposed
    centre) x (it currently belongs to the centre being replaced, or to another one).  The masks are boolean
    formulas over exactly these atoms, so the value each cell finally receives (the LAST store whose mask covers
    it) is decided by a truth table:
      * a cell no store covers keeps the sentinel of the allocation: the candidate has unset entries;
      * D > N: the frame moves to the proposed centre (N, <centre id>);
      * D <= N and another centre: it keeps (D, current label);
      * D <= N and the replaced centre: its centre is gone, it is re-assigned against the candidate centres
        (keeping D there records the distance to a frame that is no longer a centre);
      * distance and label of one cell come from the same source (N with the centre id, D with the current
        label, both results of one re-assignment call).
    On ties (D == N) either source is the same number."""
    rule = 'C09.D2.atomic.partition'
    mod, fn, fi, loop = R.mod, R.fn, R.fi, R.loop
    CD, CA = R.cand_dist, getattr(R, 'NA', None)
    if not CD or not CA:
        ck.missing(rule, 'candidate distances / labels not located (see C09.D1.accept, C09.D2.atomic.values)')
        return
    D, A, cid = R.D, R.A, R.cid
    mcalls = [c for c in calls_in(loop) if isinstance(c.func, ast.Name) and c.func.id == R.metric
              and fi.defs_of_use(c.func) == {'PARAM'}]
    nst = [fi.stmt(c) for c in mcalls]
    if len(mcalls) != 1 or not (isinstance(nst[0], ast.Assign) and nst[0].value is mcalls[0] and len(nst[0].targets) == 1
                                and isinstance(nst[0].targets[0], ast.Name)):
        ck.missing(rule, 'exactly one `<N> = %s(<data>, <proposed coordinate>)` in the per-centre loop (found %d calls)' % (R.metric, len(mcalls)))
        return
    N = nst[0].targets[0].id
    stop = (D, A, N, cid, R.X)

    def cell_eval(tree, rel, own):
        k = tree[0]
        if k == 'and':
            a, b = cell_eval(tree[1], rel, own), cell_eval(tree[2], rel, own)
            return None if a is None or b is None else (a and b)
        if k == 'or':
            a, b = cell_eval(tree[1], rel, own), cell_eval(tree[2], rel, own)
            return None if a is None or b is None else (a or b)
        if k == 'not':
            a = cell_eval(tree[1], rel, own)
            return None if a is None else not a
        if k == 'atom':
            c = tree[1]
            tl, tr = u(c.lhs), u(c.rhs)
            op = c.op
            if {tl, tr} == {D, N} and tl != tr:
                x = {'lt': -1, 'eq': 0, 'gt': 1}[rel] * (1 if tl == D else -1)
                table = {ast.Lt: x < 0, ast.LtE: x <= 0, ast.Gt: x > 0, ast.GtE: x >= 0, ast.Eq: x == 0, ast.NotEq: x != 0}
                return table.get(op)
            if {tl, tr} == {A, cid} and tl != tr and op in (ast.Eq, ast.NotEq):
                return own if op is ast.Eq else not own
        return None

    try:
        cu_mod = ck.repo.mod(CU)
        atn = cu_mod.func('assign_to_nearest_center')
    except AnalysisIncomplete:
        cu_mod = atn = None

    def reassigned(e, store):
        """(call, k, data argument, changed) when the value `e` stored by `store` is element k of the result of
        a call of assign_to_nearest_center (unpacked, indexed, or through a named result); `changed` lists the
        statements that modify the result object in place between the call and the store."""
        ce = _call_element(fi, e)
        if ce is None or _last(call_name(ce[0])) != 'assign_to_nearest_center':
            return None
        call, k, binders = ce
        data = None
        if atn is not None:
            b = _bind(call, atn, cu_mod)
            ps_ = params(atn)
            if b is not None and ps_ and ps_[0] in b:
                data = b[ps_[0]]
        elif call.args:
            data = call.args[0]
        cst = fi.stmt(call)
        changed = _changed_between(fi, mod, loop, binders, cst, store) if cst is not None else []
        return call, k, data, changed

    from ..patterns import mask_atoms
    cells = [(rel, own) for rel in ('lt', 'eq', 'gt') for own in (True, False)]
    final = {}
    edited = []
    order = {}
    for arr, kind in ((CD, 'dist'), (CA, 'label')):
        stores = [(s_, t) for s_, t in subscript_stores(loop, arr)]
        if not stores:
            ck.missing(rule, 'candidate array `%s` is not filled by subscript stores' % arr)
            return
        stores.sort(key=lambda st: (getattr(st[0], 'lineno', 0), getattr(st[0], 'col_offset', 0)))
        for (a, _), (b, _) in zip(stores, stores[1:]):
            if not (fi.cfg.dominates(a, b) and fi.cfg.postdominates(b, a)):
                ck.missing(rule, 'stores into `%s` are not one straight-line sequence (`%s` / `%s`)' % (arr, u(a)[:50], u(b)[:50]))
                return
        # the allocation
        ds = fi.rd.defs_at(stores[0][0], arr)
        init = 'U'
        if len(ds) == 1:
            d0 = next(iter(ds))
            v0 = fi.def_value(d0, arr) if isinstance(d0, (ast.Assign, ast.AnnAssign)) and _inside(mod, d0, loop) else None
            if v0 is not None:
                e0 = fi.expand(v0, stop=stop)
                names = names_loaded(e0) - {'np', 'numpy'}
                if any(isinstance(x, ast.Call) and _last(call_name(x)) in _ALLOC_CALLS for x in walk_expr(e0)) and names <= {D, A}:
                    init = 'S'
                elif classify(e0, _same_value_forms(D if kind == 'dist' else A), scope={D, A})[0] == 'match':
                    init = 'D' if kind == 'dist' else 'A'
        table = {c: (init, None) for c in cells}
        for s_, t in stores:
            if not (isinstance(s_, ast.Assign) and len(s_.targets) == 1 and s_.targets[0] is t):
                ck.missing(rule, 'store `%s`' % u(s_)[:80])
                return
            mk = fi.expand(t.slice, strict=False, stop=stop)
            mtxt = u(canon(mk))
            everywhere = isinstance(mk, ast.Slice) and mk.lower is None and mk.upper is None and mk.step is None
            tree = None if everywhere else mask_atoms(canon(mk))
            ve = canon(fi.expand(s_.value, strict=False, stop=stop))
            src = 'U'

            def same_mask(e):
                return isinstance(e, ast.Subscript) and isinstance(e.value, ast.Name) and u(canon(e.slice)) == mtxt
            if isinstance(ve, ast.Constant) or (isinstance(ve, ast.UnaryOp) and isinstance(ve.operand, ast.Constant)):
                src = 'S'
            elif kind == 'label' and isinstance(ve, ast.Name) and ve.id == cid:
                src = 'C'
            elif same_mask(ve) and ve.value.id == N and kind == 'dist':
                src = 'N'
            elif same_mask(ve) and ve.value.id == (D if kind == 'dist' else A):
                src = 'D' if kind == 'dist' else 'A'
            else:
                ra = reassigned(_orig_name(fi, s_.value), s_)
                if ra is not None and ra[3]:
                    # the result of the re-assignment is edited in place before it is stored: what the cell
                    # receives is no longer the plain result of the call (src stays unknown)
                    edited.append((s_, ra[3][0]))
                elif ra is not None:
                    call, k, a0, _ = ra
                    a0x = canon(fi.expand(a0, strict=False, stop=stop)) if a0 is not None else None
                    if a0x is not None and same_mask(a0x) and a0x.value.id == R.X and k == (1 if kind == 'dist' else 0):
                        src = ('R', id(call))
                    elif a0x is not None and same_mask(a0x) and a0x.value.id == R.X:
                        ck.bad(rule, mod, s_, PAM, u(s_)[:160],
                               'assign_to_nearest_center returns (labels, distances): the candidate %s `%s` take element %d'
                               % ('distances' if kind == 'dist' else 'labels', arr, k))
                        return
            for c in cells:
                hit = True if everywhere else cell_eval(tree, *c)
                if hit is None:
                    ck.missing(rule, 'index `%s` of the store `%s` is not a formula over (%s vs %s) and (%s == %s)' % (
                        mtxt[:80], u(s_)[:60], D, N, A, cid))
                    return
                if hit:
                    table[c] = (src, s_)
        final[kind] = table
        order[kind] = stores

    def describe(c):
        rel, own = c
        return '%s %s %s and %s %s %s' % (D, {'lt': '<', 'eq': '==', 'gt': '>'}[rel], N, A, '==' if own else '!=', cid)
    problems, unknown = [], []
    for c in cells:
        rel, own = c
        (vd, sd), (va, sa) = final['dist'][c], final['label'][c]
        if vd == 'S' or va == 'S':
            which = CD if vd == 'S' else CA
            problems.append((sd or sa or loop, 'frames with %s' % describe(c),
                             'no store into the candidate %s covers the frames with %s: their entries keep the value of the allocation '
                             '(an unset sentinel), so the candidate whose cost is compared - and committed on acceptance - is not a '
                             'clustering of all frames' % (which, describe(c))))
            continue
        if 'U' in (vd, va):
            unknown.append('%s: (%s, %s)' % (describe(c), 'R' if isinstance(vd, tuple) else vd, 'R' if isinstance(va, tuple) else va))
            continue
        isR = isinstance(vd, tuple) and isinstance(va, tuple)
        if isR and vd[1] == va[1]:
            continue
        if isinstance(vd, tuple) or isinstance(va, tuple):
            unknown.append('%s: distance and label from different sources' % describe(c))
            continue
        lab = 'C' if (va == 'A' and own) else va           # on the frames of the replaced centre the current label IS the centre id
        if rel == 'eq':
            if lab in ('C', 'A'):
                continue
        if vd == 'D' and own and rel != 'eq':
            problems.append((sd, 'frames with %s keep %s' % (describe(c), D),
                             'the frames of the centre being replaced (%s) keep their current distance `%s`: that is the distance to a '
                             'frame which is no longer a centre in the candidate; they have to be re-assigned against the candidate '
                             'centres (or take `%s` where the proposed centre is closer)' % (describe(c), D, N)))
            continue
        if (vd, lab) in (('N', 'A'), ('D', 'C')) and not own:
            problems.append((sd, 'frames with %s: distance from %s, label from %s' % (describe(c), vd, va),
                             'for the frames with %s the candidate distance is %s but the candidate label is %s: labels and distances '
                             'of the candidate go out of step' % (describe(c), 'the distance to the proposed centre' if vd == 'N' else
                                                                  'the current distance', 'the current label' if lab == 'A' else 'the centre being replaced')))
            continue
        want = ('N', 'C') if rel == 'gt' else (('D', 'A') if not own else None)
        if want is not None and (vd, lab) == want:
            continue
        unknown.append('%s: (%s, %s)' % (describe(c), vd, va))
    if problems:
        node, construct, why = problems[0]
        ck.bad(rule, mod, node, PAM, construct, why)
        return
    if unknown:
        why = ''
        if edited:
            why = ' (the result of the re-assignment stored by `%s` is modified in place first: `%s`)' % (
                u(edited[0][0])[:60], u(edited[0][1])[:60])
        ck.missing(rule, 'filling of the candidate arrays not recognised for the frames with ' + '; '.join(unknown)[:300] + why)
        return
    ck.ok(rule, mod, loop, 'candidate arrays %s / %s: six cells of (%s vs %s) x (%s == %s)' % (CD, CA, D, N, A, cid),
          'every frame receives (N, centre id), (D, current label) or the result of the re-assignment, as its cell requires')


# ---------------------------------------------------------------------------
# D3 (cont.): the data and the metric keep their places through every call level

def d3_data_metric(ck, R):
    """A metric is called as metric(<frames>, <one frame>); every function of the chain takes (data, metric)
    as its first two parameters.  At each call the argument that arrives in a callee's METRIC place must not
    be the caller's DATA and vice versa.  The places of a helper outside the chain are taken from direct
    evidence in its body: the parameter that is called, and the parameter its call is applied to."""
    rule = 'C09.D3.data-metric'
    mod = ck.repo.mod(KM)
    chain = [q for q in ('kmedoids', INPUTS, INPUTS + '_mpi', SWEEPS, PAM) if q in mod.functions]
    through = ('check_random_state', '_get_distance_method')

    def evidence(h):
        ps = params(h)
        called = {c.func.id for c in calls_in(h) if isinstance(c.func, ast.Name) and c.func.id in ps}
        if len(called) != 1:
            return None
        m = next(iter(called))
        data = set()
        for c in calls_in(h):
            if isinstance(c.func, ast.Name) and c.func.id == m:
                for a in c.args:
                    b = _strip_sub(a)
                    if isinstance(b, ast.Name) and b.id in ps and b.id != m:
                        data.add(b.id)
        return (next(iter(data)) if len(data) == 1 else None, m)

    def places(name, call):
        """(module of the callee, callee, data parameter, metric parameter) or None."""
        cn = call_name(call) or ''
        if cn == name and name in chain:
            h = mod.functions[name]
            ps = params(h)
            return (mod, h, ps[0], ps[1]) if len(ps) >= 2 else None
        if cn == name and name in mod.functions and isinstance(mod.functions[name], ast.FunctionDef):
            ev = evidence(mod.functions[name])
            return (mod, mod.functions[name]) + ev if ev else None
        if cn.startswith('util.'):
            try:
                cu = ck.repo.mod(CU)
            except AnalysisIncomplete:
                return None
            h = cu.functions.get(name)
            ev = evidence(h) if isinstance(h, ast.FunctionDef) else None
            return (cu, h) + ev if ev else None
        return None

    n = 0
    for q in chain:
        fn = mod.functions[q]
        ps = params(fn)
        if len(ps) < 2:
            continue
        X, M = ps[0], ps[1]
        fi = finfo(mod, fn)
        for c in calls_in(fn):
            # a direct call of the metric
            if isinstance(c.func, ast.Name) and c.func.id == M and fi.defs_of_use(c.func) == {'PARAM'} and len(c.args) == 2 and not c.keywords:
                r0 = _param_root(fi, _strip_sub(c.args[0]), through)
                r1 = _param_root(fi, _strip_sub(c.args[1]), through)
                n += 1
                if r0 == X:
                    ck.ok(rule, mod, c, '%s: %s' % (q, u(c)[:100]), 'metric(<frames of the data>, <one frame>)')
                elif r1 == X and r0 != X and isinstance(c.args[1], ast.Name):
                    ck.bad(rule, mod, c, q, u(c)[:120],
                           'the metric takes (frames, one frame) and returns one distance per frame of its FIRST argument: here the '
                           'whole data `%s` is the second argument and `%s` the first, so the result is not the distance of every '
                           'frame to the proposed centre' % (X, u(c.args[0])[:40]))
                continue
            pl = places(_last(call_name(c)), c)
            if pl is None:
                continue
            cmod, h, dp, mp = pl
            b = _bind(c, h, cmod)
            if b is None or mp not in b:
                continue
            if dp is None or dp not in b:
                # only the metric place of the helper is known
                rm = _param_root(fi, _strip_sub(b[mp]), through)
                n += 1
                if rm == M:
                    ck.ok(rule, mod, c, '%s -> %s: %s=%s' % (q, h.name, mp, u(b[mp])[:30]), 'the metric arrives in the metric place')
                elif rm == X:
                    ck.bad(rule, mod, c, q, '%s(%s=%s)' % (h.name, mp, u(b[mp])[:40]),
                           '%s hands its data `%s` to the metric place `%s` of %s' % (q, X, mp, h.name))
                continue
            rd = _param_root(fi, _strip_sub(b[dp]), through)
            rm = _param_root(fi, _strip_sub(b[mp]), through)
            n += 1
            if rd == X and rm == M:
                ck.ok(rule, mod, c, '%s -> %s: %s=%s, %s=%s' % (q, h.name, dp, u(b[dp])[:30], mp, u(b[mp])[:30]), 'data and metric keep their places')
            elif rd == M or rm == X:
                ck.bad(rule, mod, c, q, '%s(%s=%s, %s=%s)' % (h.name, dp, u(b[dp])[:40], mp, u(b[mp])[:40]),
                       '%s hands its %s to the %s place of %s: the data `%s` and the metric `%s` are exchanged on the way to the sweeps, '
                       'so no sweep can run on the caller\'s data' % (q, 'metric `%s`' % M if rd == M else 'data `%s`' % X,
                                                                      'data (`%s`)' % dp if rd == M else 'metric (`%s`)' % mp, h.name, X, M))
    ck.floor(rule, n, 3, 'calls that pass the data and the metric on')


# ---------------------------------------------------------------------------
# D9 (cont.): sanity assertions inside the sweep hold for every valid candidate

def d9_sweep_asserts(ck, R):
    """Distances are >= 0 and the distance of a centre to itself is 0; labels are 0 .. k-1 and label 0 is in
    use.  An assertion inside the PAM update that compares a located array (current / candidate distances or
    labels) with a numeric literal must admit these values, else every sweep stops with an AssertionError."""
    rule = 'C09.D9.sweep-asserts'
    if R is None:
        return
    mod, fn, fi = R.mod, R.fn, R.fi
    kinds = {R.D: 'dist', R.A: 'label'}
    if R.cand_dist:
        kinds[R.cand_dist] = 'dist'
    if getattr(R, 'NA', None):
        kinds[R.NA] = 'label'
    n = 0
    for s in walk_local(fn):
        if not isinstance(s, ast.Assert):
            continue
        cs = conjuncts(_unwrap_truth(canon(fi.expand(s.test, strict=False, stop=tuple(kinds)))), True)
        for c in (cs or []):
            if not isinstance(c, Cmp) or c.as_less() is None:
                continue
            small, strict, big = c.as_less()
            for arr, lit, side in ((big, small, 'lower'), (small, big, 'upper')):
                k = const_value(lit)
                if not (isinstance(arr, ast.Name) and arr.id in kinds and isinstance(k, (int, float)) and not isinstance(k, bool)):
                    continue
                n += 1
                kind = kinds[arr.id]
                if side == 'lower':
                    okv = k < 0 or (k == 0 and not strict)
                    wit = ('a centre is at distance 0 from itself' if kind == 'dist' else 'the frames of centre 0 carry label 0')
                else:
                    okv = k > 0
                    wit = ('a frame that is not a centre has a positive distance' if kind == 'dist' else 'with two clusters some frame carries label 1')
                ck.check(okv, rule, mod, s, PAM, 'assert on %s `%s`: %s' % ('distances' if kind == 'dist' else 'labels', arr.id, c),
                         'the assertion admits every valid value',
                         '`%s` does not hold for a valid state (%s): every sweep stops with an AssertionError' % (u(s)[:100], wit))
    if n == 0:
        ck.ok(rule, mod, fn, '%s: no assertion bounds a state array by a literal' % PAM, 'nothing to decide')


# ---------------------------------------------------------------------------
# D3 proposals: members of the cluster, frames of X, index and coordinate in step

def _distribute_args(ck, c):
    """(data, world_index, owner_rank) of a distribute_frame call."""
    try:
        callee = ck.repo.mod(OPS).func('distribute_frame')
        b = _bind(c, callee, ck.repo.mod(OPS))
        names = params(callee)[:3]
    except AnalysisIncomplete:
        b, names = None, None
    if b is None or names != ['data', 'world_index', 'owner_rank']:
        return None
    return b.get('data'), b.get('world_index'), b.get('owner_rank')


def d3_members(ck, R):
    rule = 'C09.D3.members'
    if R is None:
        mod = ck.repo.mod(KM)
        _proposer(ck, mod, mod.func(PROPOSER))
        return
    mod, fn, fi, loop = R.mod, R.fn, R.fi, R.loop
    fnp = mod.func(PROPOSER)
    calls = [c for c in calls_in(loop) if _last(call_name(c)) == PROPOSER]
    if not calls:
        ck.missing(rule, 'call of %s in the per-centre loop' % PROPOSER)
    pps = params(fnp)
    for c in calls:
        b = _bind(c, fnp, mod)
        if b is None or len(pps) < 4 or pps[0] not in b or pps[1] not in b:
            ck.missing(rule, 'arguments of `%s`' % u(c)[:100])
            continue
        Xa, si = b[pps[0]], b[pps[1]]
        A, k = R.A, R.cid
        forms = []
        for m in ('%s == %s' % (A, k), '%s == %s' % (k, A)):
            forms += ['np.where(%s)[0]' % m, 'np.nonzero(%s)[0]' % m, '(%s).nonzero()[0]' % m, 'np.arange(len(%s))[%s]' % (A, m),
                      'np.argwhere(%s).ravel()' % m, 'np.argwhere(%s).flatten()' % m, 'np.argwhere(%s)[:, 0]' % m,
                      'np.arange(%s.shape[0])[%s]' % (A, m), 'np.arange(%s.size)[%s]' % (A, m)]
        scope = {A, k, R.D} | {x for x in (R.cand_dist, getattr(R, 'NA', None)) if x}
        v = classify(fi.expand(si), forms, scope=scope)
        vx = classify(fi.expand(Xa, stop=(R.X,)), [R.X], scope={R.X})
        both = v if v[0] != 'match' else vx
        ck.decide(both, rule, mod, c, PAM, '%s with %s = %s' % (u(c)[:100], u(si), fi.xu(si)),
                  'proposal drawn among the frames currently assigned to the centre being updated',
                  'the proposal pool must be np.where(%s == %s)[0] over the data %s' % (A, k, R.X))
        rs = b.get(pps[3])
        root = _param_root(fi, rs) if rs is not None else None
        ck.check(root is not None, 'C09.D5.seed', mod, c,
                 PAM, u(c)[:120], 'random_state forwarded to the proposer',
                 'random_state is not forwarded to %s' % PROPOSER)
        R.seed = root if R.seed in (None, root) else R.seed
    _proposer(ck, mod, fnp)
    _pairing(ck, R, fnp)


def _proposer(ck, mod, fnp):
    rule = 'C09.D3.members'
    fip = finfo(mod, fnp)
    ck.analysed(mod, fnp)
    pps = params(fnp)
    if len(pps) < 4:
        ck.missing(rule, 'parameters (X, state_inds, mpi_mode, random_state) of %s' % PROPOSER)
        return
    X, SI, MPI, RS = pps[:4]
    # --- serial draw
    ch = [c for c in calls_in(fnp) if isinstance(c.func, ast.Attribute) and c.func.attr == 'choice']
    if len(ch) != 1:
        ck.missing(rule, 'exactly one `<random_state>.choice(<pool>)` in %s (found %d)' % (PROPOSER, len(ch)))
    else:
        c = ch[0]
        pool = c.args[0] if c.args else kwarg(c, 'a')
        okr = _seed_expr(fip, c.func.value, RS)
        if not okr:
            ck.bad(rule, mod, c, PROPOSER, u(c), 'the serial draw must use the generator handed in as `%s`' % RS)
        elif pool is None:
            ck.missing(rule, 'pool argument of `%s`' % u(c))
        else:
            v = classify(fip.expand(pool, stop=(SI,)), [SI], scope={SI, X})
            extra = [k.arg for k in c.keywords if k.arg not in ('a',)] or c.args[1:]
            if v[0] == 'match' and extra:
                v = ('far', 0, None)
            ck.decide(v, rule, mod, c, PROPOSER, u(c), 'serial proposal = random_state.choice(state_inds)',
                      'serial proposal must be random_state.choice(%s): one member frame of the cluster' % SI)
    # --- MPI draw
    ri = [c for c in calls_in(fnp) if _last(call_name(c)) == 'randind']
    Rn = IDX = None
    if len(ri) != 1:
        ck.missing(rule, 'exactly one randind(...) call in %s (found %d)' % (PROPOSER, len(ri)))
    else:
        c = ri[0]
        pool = c.args[0] if c.args else kwarg(c, 'local_array')
        rs = c.args[1] if len(c.args) > 1 else kwarg(c, 'random_state')
        if pool is None:
            ck.missing(rule, 'pool argument of `%s`' % u(c))
        else:
            v = classify(fip.expand(pool, stop=(SI,)), [SI], scope={SI, X})
            if v[0] == 'match' and not (rs is not None and _seed_expr(fip, rs, RS)):
                ck.bad(rule, mod, c, PROPOSER, u(c), 'MPI proposal must be mpi.ops.randind(%s, %s): the generator is not forwarded' % (SI, RS))
            else:
                ck.decide(v, rule, mod, c, PROPOSER, u(c), 'MPI proposal = randind(state_inds, random_state)',
                          'MPI proposal must be mpi.ops.randind(%s, %s)' % (SI, RS))
        st = fip.stmt(c)
        if isinstance(st, ast.Assign) and st.value is c and len(st.targets) == 1 and isinstance(st.targets[0], ast.Tuple) \
                and len(st.targets[0].elts) == 2 and all(isinstance(e, ast.Name) for e in st.targets[0].elts):
            Rn, IDX = [e.id for e in st.targets[0].elts]
        else:
            ck.missing(rule, '`<owner>, <position> = randind(...)`')
    # --- the owner broadcasts the member FRAME INDEX state_inds[position]
    WI = None
    if Rn is not None:
        def owner_test(test, pol):
            cs = _conj(fip, test, pol)
            if cs is None or len(cs) != 1 or not isinstance(cs[0], Cmp) or cs[0].op not in (ast.Eq, ast.NotEq):
                return None
            a, b = cs[0].lhs, cs[0].rhs
            for x, y in ((a, b), (b, a)):
                if isinstance(x, ast.Call) and _last(call_name(x)) in ('rank', 'Get_rank') and not x.args and fip.xu(y) == Rn:
                    return cs[0].op is ast.Eq
            return None
        bc = [c for c in calls_in(fnp) if _last(call_name(c)) == 'bcast']
        sends = []
        for c in bc:
            st = fip.stmt(c)
            root = kwarg(c, 'root') if kwarg(c, 'root') is not None else (c.args[1] if len(c.args) > 1 else None)
            if root is None or fip.xu(root) != Rn:
                v = classify(fip.expand(root), [Rn], scope={Rn, IDX}) if root is not None else ('near', 1, Rn)
                ck.decide(v, rule, mod, c, PROPOSER, u(c), '', 'the frame index must be broadcast from the owner rank `%s`' % Rn)
                continue
            if isinstance(st, ast.Assign) and st.value is c and len(st.targets) == 1 and isinstance(st.targets[0], ast.Name):
                WI = st.targets[0].id if WI in (None, st.targets[0].id) else '?'
            pol = None
            for a in _controlling(fip, mod, st):
                t = owner_test(a.test, a.polarity)
                if t is not None:
                    pol = t
            if pol is False:
                continue            # receiving side: the argument is ignored
            e = c.args[0] if c.args else kwarg(c, 'obj')
            if isinstance(e, ast.Name):
                sv = _stable_value(fip, e)
                e = sv if sv is not None else e
            if e is None or (isinstance(e, ast.Constant) and e.value is None):
                continue            # nothing to send: a receiving side whose guard was not recognised
            if isinstance(e, ast.IfExp):
                t = owner_test(e.test, True)
                if t is None:
                    ck.missing(rule, 'payload `%s` of the broadcast: condition not recognised' % u(e)[:100])
                    continue
                e = e.body if t else e.orelse
            sends.append((c, e))
        if not sends:
            ck.missing(rule, 'broadcast of the drawn frame index from the owner rank in %s' % PROPOSER)
        for c, e in sends:
            v = classify(fip.expand(e, stop=(SI,)), ['%s[%s]' % (SI, IDX), 'int(%s[%s])' % (SI, IDX)], scope={SI, IDX, Rn})
            ck.decide(v, rule, mod, c, PROPOSER, '%s  [owner sends %s]' % (u(c), u(e)),
                      'owner broadcasts the member frame index state_inds[idx]',
                      'the owner must broadcast %s[%s] (a member frame), not the position %s' % (SI, IDX, IDX))
    # --- returned (coordinate, index): the coordinate is the frame of X at the returned index
    rule = 'C09.D3.frame'
    rets = returns_of(fnp)
    if not rets or not all(isinstance(r.value, ast.Tuple) and len(r.value.elts) == 2 and all(isinstance(e, ast.Name) for e in r.value.elts) for r in rets):
        ck.missing(rule, '`return <coordinate>, <index>` of %s' % PROPOSER)
        return
    n = 0
    pairs = []
    for r in rets:
        Pn, In = r.value.elts
        for d in fip.defs_of_use(Pn):
            if not any(d is d0 and In.id == i0.id for d0, _, i0, _ in pairs):
                pairs.append((d, Pn, In, fip.defs_of_use(In)))
    for d, Pn, In, idefs in pairs:
        if d in ('PARAM', 'UNBOUND') or not isinstance(d, ast.Assign):
            ck.missing(rule, 'definition of the proposed coordinate `%s` in %s' % (Pn.id, PROPOSER))
            continue
        val = fip.def_value(d, Pn.id)
        # the index definitions on the same path
        ids = [i for i in idefs if i not in ('PARAM', 'UNBOUND') and (i is d or fip.cfg.reachable(i, d) or fip.cfg.reachable(d, i))]
        if val is None or len(ids) != 1 or not isinstance(ids[0], ast.Assign):
            ck.missing(rule, 'pairing of `%s` with the definition of the index `%s`' % (u(d)[:80], In.id))
            continue
        ival = fip.def_value(ids[0], In.id)
        if isinstance(val, ast.Call) and _last(call_name(val)) == 'distribute_frame':
            da = _distribute_args(ck, val)
            if da is None or any(x is None for x in da) or not (isinstance(ival, ast.Tuple) and len(ival.elts) == 2):
                ck.missing(rule, 'MPI proposal `%s` / `%s`' % (u(d)[:80], u(ids[0])[:60]))
                continue
            data, wi, ow = da
            i0, i1 = fip.xu(ival.elts[0]), fip.xu(ival.elts[1])
            ok = fip.xu(data, stop=(X,)) == X and fip.xu(ow) == i0 and fip.xu(wi) == i1 and (Rn is None or i0 == Rn) and (WI in (None, '?') or i1 == WI)
            n += 1
            ck.check(ok, rule, mod, d, PROPOSER, '%s; %s' % (u(d), u(ids[0])),
                     'MPI proposal: coordinate = frame <world index> of X on <owner>, index = (owner, world index)',
                     'the proposed coordinate must be distribute_frame(data=%s, owner_rank=r, world_index=i) for the '
                     'returned index (r, i) with r the drawn owner and i the broadcast member frame' % X)
        else:
            ix = In.id
            ok_i = isinstance(ival, ast.Call) and isinstance(ival.func, ast.Attribute) and ival.func.attr == 'choice'
            v = classify(fip.expand(val, stop=(X, ix)), ['%s[%s]' % (X, ix)], scope={X, ix, SI})
            if v[0] == 'match' and not (ok_i and fip.cfg.reachable(ids[0], d) and _no_redef_between(fip, ix, ids[0], d, None)):
                v = ('far', 0, None)
            n += 1
            ck.decide(v, rule, mod, d, PROPOSER, '%s; %s' % (u(ids[0]), u(d)),
                      'serial proposal: coordinate = X[drawn index]',
                      'the proposed coordinate must be %s[%s], the frame at the drawn index' % (X, ix))
    if n == 0:
        ck.missing(rule, 'no definition of the proposed coordinate recognised in %s' % PROPOSER)


def _pairing(ck, R, fnp):
    """In the PAM update: the coordinate swapped into the candidate list and
    the index committed come from the same proposal (same proposer call, or
    proposals[cid] and the frame of X at that index)."""
    rule = 'C09.D3.frame'
    mod, fn, fi, loop = R.mod, R.fn, R.fi, R.loop
    PI, P = getattr(R, 'PI', None), getattr(R, 'P', None)
    if PI is None or P is None:
        ck.missing(rule, 'proposal index / coordinate of the PAM update not located (see C09.D2.atomic.values)')
        return
    pi_defs, p_defs = fi.defs_of_use(PI), fi.defs_of_use(P)
    commit = R.commit
    from_props = 0
    for d in p_defs:
        if d in ('PARAM', 'UNBOUND') or not isinstance(d, ast.Assign) or not _inside(mod, d, loop):
            ck.missing(rule, 'definition of the proposed coordinate `%s` inside the per-centre loop' % P.id)
            continue
        t = d.targets[0]
        dv = d.value
        if isinstance(dv, ast.Name) and isinstance(_stable_value(fi, dv), ast.Call):
            dv = _stable_value(fi, dv)
        if isinstance(dv, ast.Call) and _last(call_name(dv)) == PROPOSER:
            if isinstance(t, ast.Tuple) and len(t.elts) == 2 and all(isinstance(e, ast.Name) for e in t.elts):
                names = [e.id for e in t.elts]
                if names == [P.id, PI.id] and d in pi_defs:
                    ck.ok(rule, mod, d, u(d)[:160], 'index and coordinate come from the same draw')
                elif names == [PI.id, P.id]:
                    ck.bad(rule, mod, d, PAM, u(d)[:160], '%s returns (coordinate, index): unpacked in the wrong order' % PROPOSER)
                else:
                    ck.missing(rule, 'unpacking of the proposer result `%s`' % u(d)[:100])
            else:
                ck.missing(rule, 'unpacking of the proposer result `%s`' % u(d)[:100])
            continue
        val = fi.def_value(d, P.id)
        if val is None:
            ck.missing(rule, 'definition `%s` of the proposed coordinate' % u(d)[:100])
            continue
        if isinstance(val, ast.Call) and _last(call_name(val)) != 'distribute_frame':
            sp = _specialise_call(mod, fi, val)
            val = sp if sp is not None else val
        ixs =[n for n in walk_expr(val) if isinstance(n, ast.Name) and n.id == PI.id]
        tied = bool(ixs) and all(fi.defs_of_use(n) <= pi_defs for n in ixs) and _no_redef_between(fi, PI.id, d, commit, loop)
        if isinstance(val, ast.Call) and _last(call_name(val)) == 'distribute_frame':
            da = _distribute_args(ck, val)
            if da is None or any(x is None for x in da) or not tied:
                ck.missing(rule, 'explicit MPI proposal `%s`' % u(d)[:100])
                continue
            data, wi, ow = da
            got = (fi.xu(data, stop=(R.X,)), fi.xu(ow, stop=(PI.id,)), fi.xu(wi, stop=(PI.id,)))
            want = (R.X, '%s[0]' % PI.id, '%s[1]' % PI.id)
            if got == want:
                ck.ok(rule, mod, d, u(d)[:160], 'explicit MPI proposal: frame PI[1] of X on rank PI[0]')
            elif got[0] == want[0] and set(got[1:]) <= {'%s[0]' % PI.id, '%s[1]' % PI.id, PI.id}:
                ck.bad(rule, mod, d, PAM, u(d)[:160], 'an explicit proposal (rank, frame) must be fetched as '
                       'distribute_frame(data=%s, owner_rank=%s[0], world_index=%s[1])' % (R.X, PI.id, PI.id))
            else:
                ck.missing(rule, 'explicit MPI proposal `%s`' % u(d)[:100])
            continue
        v = classify(fi.expand(val, stop=(R.X, PI.id)), ['%s[%s]' % (R.X, PI.id)], scope={R.X, PI.id, R.cid} | set(R.ps[5:]))
        if v[0] == 'match' and not tied:
            v = ('far', 0, None)
        ck.decide(v, rule, mod, d, PAM, u(d)[:160], 'explicit proposal: coordinate = X[proposal index]',
                  'the coordinate of an explicit proposal must be %s[%s], the frame named by the proposal' % (R.X, PI.id))
    # the index: the proposer's, or proposals[cid]
    for d in pi_defs:
        if d in ('PARAM', 'UNBOUND') or not isinstance(d, ast.Assign):
            ck.missing(rule, 'definition of the proposal index `%s`' % PI.id)
            continue
        dv = d.value
        if isinstance(dv, ast.Name) and isinstance(_stable_value(fi, dv), ast.Call):
            dv = _stable_value(fi, dv)
        if isinstance(dv, ast.Call) and _last(call_name(dv)) == PROPOSER:
            continue
        val = fi.def_value(d, PI.id)
        # the explicit proposals: "the parameter that is indexed to give the proposal index"
        bm = match('_P[_K]', fi.expand(val, stop=tuple(R.ps))) if val is not None else None
        P_ = bm['_P'].id if bm is not None and isinstance(bm['_P'], ast.Name) else None
        if P_ is None or P_ not in R.ps[5:] or fi.rd.defs_at(d, P_) != {'PARAM'}:
            ck.missing('C09.D5.seed.proposals', 'definition `%s` of the proposal index' % u(d)[:100])
            continue
        R.proposals = P_
        v = classify(fi.expand(val, stop=(P_,)), ['%s[%s]' % (P_, R.cid)], scope={P_, R.cid})
        if v[0] == 'match':
            from_props += 1
        ck.decide(v, 'C09.D5.seed.proposals', mod, d, PAM, u(d), 'supplied proposals are used positionally per centre',
                  'the proposal for centre %s must be %s[%s]' % (R.cid, P_, R.cid))
    if 'proposals' in R.ps and from_props == 0 and R.proposals is None:
        used = any(isinstance(n, ast.Name) and n.id == 'proposals' for n in walk_local(loop))
        if not used:
            ck.bad('C09.D5.seed.proposals', mod, loop, PAM, 'per-centre loop', 'supplied proposals are never read')
    # initial coordinates: the frames of X at the supplied indices
    _initial_coords(ck, R)


def _initial_coords(ck, R):
    rule = 'C09.D3.frame'
    mod, fn, fi, loop = R.mod, R.fn, R.fi, R.loop
    ds = [d for d in fi.rd.defs_at(loop, R.MC) if not (d not in ('PARAM', 'UNBOUND') and _inside(mod, d, loop))]
    n = 0
    for d in ds:
        if d in ('PARAM', 'UNBOUND') or not isinstance(d, ast.Assign):
            ck.missing(rule, 'initial centre coordinates `%s`' % R.MC)
            continue
        val = fi.def_value(d, R.MC)
        if isinstance(val, ast.List) and not val.elts or (isinstance(val, ast.Call) and u(val) == 'list()'):
            # filled by append in a loop over the (rank, frame) pairs
            apps = [c for c in calls_in(fn) if isinstance(c.func, ast.Attribute) and c.func.attr == 'append'
                    and u(c.func.value) == R.MC and not _inside(mod, c, loop)]
            if not apps:
                ck.missing(rule, 'filling of the initial centre coordinates `%s`' % R.MC)
            loops = []
            for c in apps:
                l = _loop_of(mod, c)
                if l is not None and not any(l is x for x in loops):
                    loops.append(l)
            if any(a is not b and fi.cfg.reachable(a, b) for a in loops for b in loops):
                ck.missing(rule, 'several loops append to the initial centre coordinates `%s` on one path' % R.MC)
            for c in apps:
                l = _loop_of(mod, c)
                e = c.args[0] if len(c.args) == 1 and not c.keywords else None
                if isinstance(e, ast.Name):
                    sv = _stable_value(fi, e)
                    e = sv if sv is not None else e
                if isinstance(e, ast.Call) and _last(call_name(e)) != 'distribute_frame':
                    # a small helper of this module called with a (rank, frame) display: its value for these arguments
                    sp = _specialise_call(mod, fi, e)
                    e = sp if sp is not None else e
                if not isinstance(l, ast.For) or l.orelse or e is None or not (
                        fi.stmt(c) is l.body[0] or _control_equivalent(fi, l.body[0], fi.stmt(c))):
                    ck.missing(rule, 'initial centre coordinates `%s`' % u(c)[:100])
                    continue
                it, tg = l.iter, l.target
                counter = None          # position of the centre in the index list (enumerate), not a frame
                if isinstance(it, ast.Call) and call_name(it) == 'enumerate' and len(it.args) == 1 and isinstance(tg, ast.Tuple) and len(tg.elts) == 2:
                    counter = tg.elts[0].id if isinstance(tg.elts[0], ast.Name) else None
                    it, tg = it.args[0], tg.elts[1]
                itx = fi.xu(it, stop=(R.MI,))
                if not (isinstance(e, ast.Call) and _last(call_name(e)) == 'distribute_frame'):
                    # serial form: one frame of X per supplied index, in the order of the indices -
                    # `for i in MI: append(X[i])` or `for k in range(len(MI)): append(X[MI[k]])`
                    if not isinstance(tg, ast.Name):
                        ck.missing(rule, 'initial centre coordinates `%s`' % u(l)[:100])
                        continue
                    k = tg.id
                    if itx == R.MI:
                        forms = ['%s[%s]' % (R.X, k), '%s[int(%s)]' % (R.X, k)]
                    elif itx in (C('range(len(%s))' % R.MI), C('range(0, len(%s))' % R.MI),
                                 C('np.arange(len(%s))' % R.MI)):
                        forms = ['%s[%s[%s]]' % (R.X, R.MI, k), '%s[int(%s[%s])]' % (R.X, R.MI, k)]
                    else:
                        ck.missing(rule, 'initial centre coordinates: loop `%s` is not over the supplied indices `%s`' % (u(l)[:80], R.MI))
                        continue
                    n += 1
                    v = classify(fi.expand(e, stop=(R.X, R.MI, k)), forms, scope={R.X, R.MI, k})
                    ck.decide(v, rule, mod, c, PAM, '%s  [for %s in %s]' % (u(c)[:120], k, itx),
                              'initial coordinates = the frames of X at the supplied centre indices (append loop)',
                              'the centre coordinates must start as [%s[i] for i in %s]' % (R.X, R.MI))
                    continue
                da = _distribute_args(ck, e)
                if da is None or any(x is None for x in da) or itx != R.MI or not (
                        isinstance(tg, ast.Tuple) and len(tg.elts) == 2 and all(isinstance(x, ast.Name) for x in tg.elts)):
                    ck.missing(rule, 'initial MPI centre coordinates `%s`' % u(l)[:100])
                    continue
                data, wi, ow = da
                rk, fr = [x.id for x in tg.elts]
                got = (fi.xu(data, stop=(R.X,)), fi.xu(ow), fi.xu(wi))
                n += 1
                if got == (R.X, rk, fr):
                    ck.ok(rule, mod, c, u(e)[:160], 'initial MPI coordinates: frame <frame> of X on <rank> for each (rank, frame) in the indices')
                elif got[0] == R.X:
                    # the role is located (the frame fetched for one entry of the index list); which frame of which
                    # rank is requested is a function of the variables this loop binds: the pair (rank, frame) and,
                    # with enumerate, the POSITION of the centre in the list.  Any pure function of those other than
                    # (owner=rank, index=frame) fetches another frame than the centre: swapped roles, the position
                    # instead of the frame, an offset ...; anything involving other names is not decided.
                    bound = {rk, fr} | ({counter} if counter else set())
                    pair = ast.Tuple(elts=[fi.expand(ow), fi.expand(wi)], ctx=ast.Load())
                    v = classify(pair, ['(%s, %s)' % (rk, fr)], scope=bound)
                    what = ''
                    if counter and got[2] == counter:
                        what = (': `%s` is the position of the centre in `%s` (the enumerate counter), not its frame index `%s` - '
                                'the coordinate list then holds frames 0..k-1 of the data instead of the medoids, the frames '
                                'that lose their centre are re-assigned against non-centres and the returned centres are not '
                                'the frames named by the returned indices' % (counter, R.MI, fr))
                    ck.decide(v, rule, mod, c, PAM, u(e)[:160], '',
                              'for a centre index (rank, frame) the coordinate must be distribute_frame(data=%s, owner_rank=%s, '
                              'world_index=%s); found owner_rank=%s, world_index=%s%s' % (R.X, rk, fr, got[1], got[2], what))
                else:
                    ck.missing(rule, 'initial MPI centre coordinates `%s`' % u(e)[:100])
            continue
        if val is None:
            ck.missing(rule, 'initial centre coordinates `%s`' % u(d)[:100])
            continue
        n += 1
        v = classify(fi.expand(val, stop=(R.X, R.MI)), ['[%s[_I] for _I in %s]' % (R.X, R.MI), 'list(%s[%s])' % (R.X, R.MI),
                                                        '[%s[int(_I)] for _I in %s]' % (R.X, R.MI)], scope={R.X, R.MI})
        ck.decide(v, rule, mod, d, PAM, u(d)[:160], 'initial coordinates = the frames of X at the supplied centre indices',
                  'the centre coordinates must start as [%s[i] for i in %s]' % (R.X, R.MI))
    if n == 0:
        ck.missing(rule, 'no initialisation of the centre coordinates `%s` recognised' % R.MC)


# ---------------------------------------------------------------------------
# D2 (cont.): the outputs of one sweep are the inputs of the next

def d2_wiring(ck, R):
    rule = 'C09.D2.atomic.wiring'
    if R is None:
        return
    mod = R.mod
    fn = mod.func(SWEEPS)
    fi = finfo(mod, fn)
    ck.analysed(mod, fn)
    calls = [c for c in calls_in(fn) if _last(call_name(c)) == PAM]
    if len(calls) != 1:
        ck.missing(rule, 'exactly one call of %s in %s' % (PAM, SWEEPS))
        return
    c = calls[0]
    b = _bind(c, R.fn, mod)
    st = fi.stmt(c)
    tgt = None
    if isinstance(st, ast.Assign) and st.value is c and len(st.targets) == 1:
        t = st.targets[0]
        if isinstance(t, ast.Name):
            for s2 in walk_local(fn):
                if isinstance(s2, ast.Assign) and isinstance(s2.value, ast.Name) and s2.value.id == t.id \
                        and fi.defs_of_use(s2.value) == {st} and len(s2.targets) == 1 and isinstance(s2.targets[0], ast.Tuple):
                    t, st = s2.targets[0], s2
                    break
        if isinstance(t, ast.Tuple) and len(t.elts) == 4 and all(isinstance(e, ast.Name) for e in t.elts):
            tgt = [e.id for e in t.elts]
    if b is None or tgt is None:
        ck.missing(rule, '`<indices>, <distances>, <assignments>, <centers> = %s(...)` in %s' % (PAM, SWEEPS))
        return
    for k, p, what in ((0, R.pMI, 'centre indices'), (1, R.pD, 'distances'), (2, R.pA, 'assignments')):
        a = b.get(p)
        if a is None:
            ck.missing(rule, 'argument `%s` of the sweep call' % p)
            continue
        ax = fi.xu(a)
        if ax == tgt[k]:
            ck.ok(rule, mod, c, '%s=%s <- output %d' % (p, ax, k), 'the %s returned by one sweep start the next' % what)
        elif ax in tgt:
            ck.bad(rule, mod, c, SWEEPS, '%s=%s; %s' % (p, ax, u(st)[:120]),
                   'the %s returned by a sweep (output %d, `%s`) must be handed to the next sweep as `%s`; found `%s`, '
                   'another output of the sweep: labels, distances and centres go out of step' % (what, k, tgt[k], p, ax))
        else:
            ck.missing(rule, 'argument `%s=%s` of the sweep call is not an output of the previous sweep' % (p, ax))
    res = [x for x in calls_in(fn) if _last(call_name(x)) == 'ClusterResult' and _inside(mod, x, _loop_of(mod, c) or fn)]
    fields = {'center_indices': 0, 'distances': 1, 'assignments': 2, 'centers': 3}
    for x in res:
        if x.args:
            ck.missing(rule, 'positional ClusterResult(...) in %s' % SWEEPS)
            continue
        for kw in x.keywords:
            if kw.arg not in fields:
                continue
            ax = fi.xu(kw.value)
            k = fields[kw.arg]
            if ax == tgt[k]:
                ck.ok(rule, mod, x, '%s=%s' % (kw.arg, ax), 'result field takes the matching sweep output')
            elif ax in tgt:
                ck.bad(rule, mod, x, SWEEPS, '%s=%s' % (kw.arg, ax), 'result field `%s` must take sweep output `%s`' % (kw.arg, tgt[k]))
            else:
                ck.missing(rule, 'result field `%s=%s`' % (kw.arg, ax))
    if not res:
        ck.missing(rule, 'ClusterResult(...) built from the sweep outputs')


# ---------------------------------------------------------------------------
# D4 hybrid handover

_PH = 'kcres__'          # placeholder prefix: kcres__<field> stands for <k-centers result>.<field>


def _same_value_forms(x):
    """Spellings that hand over the SAME sequence of values as `x` (an equal copy or a view of all of it)."""
    return [x, 'list(%s)' % x, '%s.copy()' % x, 'np.asarray(%s)' % x, 'np.asanyarray(%s)' % x, 'np.ascontiguousarray(%s)' % x,
            'copy.copy(%s)' % x, 'copy.deepcopy(%s)' % x, '%s[:]' % x, '%s[0:]' % x, '[_C for _C in %s]' % x, '[*%s]' % x,
            'np.asarray(list(%s))' % x, 'list(%s.copy())' % x, 'list(%s[:])' % x, 'np.asarray(%s).copy()' % x,
            'np.copy(%s)' % x]


def _value_over_roots(fi, e, root_of, use, depth=8, ignore_mutation=False):
    """The value of the expression `e` (original nodes of `fi`) as an expression over ROOTS: every local name
    with a single reaching definition `n = <expr>` is replaced by that expression, recursively, each operand
    being resolved AT ITS OWN definition site (so a chain of rebindings of one name `n = f(n)` is followed, which
    FuncInfo.expand refuses because the operand is rebound between definition and use).  `root_of(node)` gives
    the placeholder name of a node that denotes a root (a value that does not change: the caller checks that);
    a name that cannot be resolved (several definitions, a parameter, a loop variable) stays as it is, so that a
    closed-over-the-roots test fails for it.  None if a name on the chain is mutated in place on a path to `use`
    (the defining expression is then not its value) - unless `ignore_mutation`: then the result is the value the
    object had when it was bound."""
    fail = []

    def sub(x, d):
        r = root_of(x)
        if r is not None:
            return ast.copy_location(ast.Name(id=r, ctx=ast.Load()), x)
        if isinstance(x, ast.Name):
            if isinstance(x.ctx, ast.Load) and x.id in fi.rd.locals and d > 0:
                try:
                    defs = fi.defs_of_use(x)
                except Exception:
                    defs = ()
                if len(defs) == 1:
                    site = next(iter(defs))
                    v = fi.def_value(site, x.id) if isinstance(site, (ast.Assign, ast.AnnAssign)) else None
                    if v is not None:
                        if not ignore_mutation and any(fi.cfg.reachable(m, use) or m is use for m in fi._mutated_in_place(x.id)):
                            fail.append(x.id)
                            return ast.copy_location(ast.Name(id=x.id, ctx=ast.Load()), x)
                        return sub(v, d - 1)
            return ast.copy_location(ast.Name(id=x.id, ctx=x.ctx), x)
        if not isinstance(x, ast.AST) or isinstance(x, (ast.expr_context, ast.operator, ast.unaryop, ast.boolop, ast.cmpop)):
            return x
        new = type(x)()
        for f in x._fields:
            val = getattr(x, f, None)
            if isinstance(val, list):
                setattr(new, f, [sub(y, d) for y in val])
            elif isinstance(val, ast.AST):
                setattr(new, f, sub(val, d))
            else:
                setattr(new, f, val)
        return ast.copy_location(new, x)
    out = sub(e, depth)
    if fail:
        return None
    ast.fix_missing_locations(out)
    return out

def d4_hybrid(ck, seed=None):
    rule = 'C09.D4.handover'
    mod = ck.repo.mod(HY)
    fn = mod.func('hybrid')
    fi = finfo(mod, fn)
    ck.analysed(mod, fn)
    calls = [c for c in calls_in(fn) if _last(call_name(c)) == SWEEPS]
    if len(calls) != 1:
        ck.missing(rule, '%s call in hybrid' % SWEEPS)
        return
    c = calls[0]
    modk = ck.repo.mod(KM)
    callee = modk.func(SWEEPS)
    ps = params(callee)
    bind = _bind(c, callee, modk)
    if bind is None or len(ps) < 6:
        ck.missing(rule, 'arguments of `%s`' % u(c)[:100])
        return
    pX, pDM, pN, pCI, pA, pD = ps[:6]
    want = {pCI: 'center_indices', pA: 'assignments', pD: 'distances'}
    kc = [x for x in calls_in(fn) if (call_name(x) or '').endswith('kcenters.kcenters') or call_name(x) == 'kcenters']
    if len(kc) != 1:
        ck.missing(rule, 'kcenters.kcenters call in hybrid')
        return
    res_assign = fi.stmt(kc[0])
    tgt0 = res_assign.targets[0] if isinstance(res_assign, ast.Assign) and res_assign.value is kc[0] and len(res_assign.targets) == 1 else None
    # field order of the ClusterResult named tuple (for positional access / direct unpacking)
    order = []
    try:
        cls = ck.repo.mod(CU).classes.get('ClusterResult')
        for bse in (cls.bases if cls is not None else []):
            if isinstance(bse, ast.Call) and _last(call_name(bse)) == 'namedtuple' and len(bse.args) == 2 and isinstance(bse.args[1], (ast.List, ast.Tuple)):
                order = [const_value(e) for e in bse.args[1].elts]
    except AnalysisIncomplete:
        pass
    resname, unpacked = None, {}
    if isinstance(tgt0, ast.Name):
        resname = tgt0.id
    elif isinstance(tgt0, ast.Tuple) and len(tgt0.elts) == len(order) and all(isinstance(e, ast.Name) for e in tgt0.elts):
        unpacked = {e.id: f for e, f in zip(tgt0.elts, order)}
    else:
        ck.missing(rule, '`<result> = kcenters.kcenters(...)` in hybrid')
        return
    stc = fi.stmt(c)

    def field_of(ex, orig):
        """Which field of the k-centers result the expression denotes (None: not a plain field)."""
        if resname is not None and isinstance(ex, ast.Attribute) and isinstance(ex.value, ast.Name) and ex.value.id == resname:
            return ex.attr
        if resname is not None and isinstance(ex, ast.Subscript) and isinstance(ex.value, ast.Name) and ex.value.id == resname:
            k = const_value(ex.slice)
            if isinstance(k, int) and not isinstance(k, bool) and -len(order) <= k < len(order):
                return order[k]
        if isinstance(ex, ast.Name) and ex.id in unpacked and isinstance(orig, ast.Name) and fi.defs_of_use(orig) == {res_assign}:
            return unpacked[ex.id]
        return None

    def root_of(e):
        """Placeholder name for an ORIGINAL node that denotes a field of the k-centers result."""
        if resname is not None and isinstance(e, (ast.Attribute, ast.Subscript)) and isinstance(e.value, ast.Name) \
                and e.value.id == resname and isinstance(e.ctx, ast.Load):
            try:
                if fi.defs_of_use(e.value) != {res_assign}:
                    return None
            except Exception:
                return None
            f = field_of(e, None)
            return _PH + f if isinstance(f, str) and (not order or f in order) else None
        if isinstance(e, ast.Name) and e.id in unpacked:
            f = field_of(e, e)
            return _PH + f if isinstance(f, str) else None
        return None

    for p, field in want.items():
        a = bind.get(p)
        if a is None:
            ck.missing(rule, 'argument `%s` of the sweeps' % p)
            continue
        ex = fi.expand(a)
        n = _orig_name(fi, a)
        construct = '%s=%s (= %s)' % (p, u(a), u(canon(ex)))
        why = ('the `%s` handed to the sweeps must be the k-centers result field `%s` '
               'with no intervening redefinition' % (p, field))
        got = field_of(ex, n)
        if got is None and isinstance(ex, ast.Name) and isinstance(n, ast.Name):
            # not expandable: stored into between the k-centers stage and the hand-over?
            stores = [s for s in fi._mutated_in_place(n.id) if fi.cfg.reachable(s, stc) or s is stc]
            sv = _stable_value(fi, n)
            E0 = _value_over_roots(fi, a, root_of, stc, ignore_mutation=True) if stores else None
            bound_to_field = E0 is not None and classify(E0, _same_value_forms(_PH + field), scope={_PH + field})[0] == 'match'
            if stores and ((sv is not None and field_of(fi.expand(sv), None) == field) or bound_to_field):
                ck.bad(rule, mod, stores[0], 'hybrid', construct,
                       why + ': `%s` stores into it before the hand-over' % u(stores[0])[:80])
                continue
        if got is None and resname is not None and isinstance(n, ast.Name) and n.id == resname and fi.defs_of_use(n) == {res_assign}:
            got = '<the whole result>'
        if got is None:
            # the value handed over as a function of the FIELDS of the k-centers result: definitions are followed back
            # through rebindings of the same name (`ci = f(ci)`), which the expansion of temporaries does not do
            E = _value_over_roots(fi, a, root_of, stc)
            if E is not None:
                ph = {_PH + f for f in order if isinstance(f, str)} | {_PH + field}
                v2 = classify(E, _same_value_forms(_PH + field), scope=ph)
                shown = u(canon(E)).replace(_PH, '<k-centers result>.')
                if v2[0] == 'match':
                    got = field
                elif isinstance(E, ast.Name) and E.id in ph:
                    got = E.id[len(_PH):]
                elif v2[0] == 'near' and not any(isinstance(x, ast.keyword) for x in ast.walk(E)):
                    site = next(iter(fi.defs_of_use(n))) if isinstance(n, ast.Name) and len(fi.defs_of_use(n)) == 1 else c
                    site = site if isinstance(site, ast.AST) else c
                    ck.bad(rule, mod, site, 'hybrid', '%s=%s (= %s)' % (p, u(a), shown),
                           why + ': what the sweeps receive is `%s`, another function of the k-centers result. The sweeps take '
                           'centre j of `%s` to be the centre of the frames labelled j whose distances are the supplied ones; a '
                           're-ordered / filtered / shifted copy of one of the three arrays breaks that correspondence: '
                           'frames are re-assigned against the wrong coordinates, an accepted proposal overwrites the index of '
                           'another cluster, and the result is no longer bounded by the k-centers cost' % (shown, pCI))
                    continue
        v = ('match', {}) if got == field else ('near', 1, field) if got is not None else ('far', 0, None)
        ck.decide(v, rule, mod, c, 'hybrid', construct, 'k-medoids starts from the k-centers %s unchanged' % field, why)
    # the result object itself is not changed in between
    for nm_ in ([resname] if resname is not None else list(unpacked)):
        for s in fi._mutated_in_place(nm_):
            if fi.cfg.reachable(res_assign, s) and fi.cfg.reachable(s, stc):
                ck.bad(rule, mod, s, 'hybrid', u(s)[:120], 'the k-centers result is modified before it is handed to the sweeps')
    X, DM = params(fn)[0], params(fn)[1]
    ok = True
    for p, own in ((pX, X), (pDM, DM), (pN, pN)):
        a = bind.get(p)
        if a is None or fi.xu(a, stop=(own,)) != own:
            ok = False
    a0 = kc[0].args
    same_metric = len(a0) >= 2 and isinstance(bind.get(pDM), ast.Name) and isinstance(a0[1], ast.Name) and fi.same_value(a0[1], bind[pDM])
    ck.check(ok, rule, mod, c, 'hybrid', u(c)[:160], 'same data, metric and sweep count',
             'data/metric/n_iters handed to the sweeps differ from hybrid\'s own')
    sp = (seed or {}).get(SWEEPS) or 'random_state'
    rs = bind.get(sp)
    ck.check(rs is not None and _param_root(fi, rs) is not None, 'C09.D5.seed', mod, c, 'hybrid', u(c)[:160],
             'random_state forwarded to the sweeps', 'random_state is dropped between hybrid and the sweeps')
    # same metric is used for both stages
    ck.check(len(a0) >= 2 and fi.xu(a0[0], stop=(X,)) == X and fi.xu(a0[1], stop=(DM,)) == DM and same_metric,
             rule, mod, kc[0], 'hybrid', u(kc[0])[:160], 'k-centers stage uses the same data and metric',
             'k-centers stage must run on (X, distance_method), the same metric object as the sweeps')
    # n_iters == 0 path: the sweeps are only entered with n_iters > 0
    N = fi.xu(bind[pN]) if bind.get(pN) is not None else pN
    positive, mention, weak = False, False, None
    for a in _controlling(fi, mod, stc):
        cs = _conj(fi, a.test, a.polarity)
        if N in names_loaded(a.test):
            mention = True
        for cc in (cs or []):
            if isinstance(cc, Cmp) and cc.as_less() is not None:
                small, strict, big = cc.as_less()
                k = const_value(small)
                if fi.xu(big) == N and isinstance(k, (int, float)) and not isinstance(k, bool):
                    if k >= 0 if strict else k >= 1:
                        positive = True
                    else:
                        weak = (a, cc)
    if positive:
        ck.ok('C09.D6.zero-sweeps', mod, stc, 'sweeps entered only if %s > 0' % N, 'hybrid guards the zero-sweep case')
    elif weak is not None:
        ck.bad('C09.D6.zero-sweeps', mod, weak[0].owner, 'hybrid', str(weak[1]),
               'the guard `%s` still admits %s == 0: hybrid calls the sweeps with n_iters == 0' % (weak[1], N))
    elif mention:
        ck.missing('C09.D6.zero-sweeps', 'guard on `%s` before the sweeps not recognised as `%s > 0`' % (N, N))
    else:
        ck.bad('C09.D6.zero-sweeps', mod, fn, 'hybrid', 'if n_iters > 0', 'hybrid calls the sweeps with n_iters == 0')


# ---------------------------------------------------------------------------
# D5 seed / proposals flow

def d5_seed(ck, R):
    """The seed and the explicit proposals are threaded by ROLE: the parameter
    of a callee that carries the seed is the one that (transitively) reaches
    the proposer's generator; each caller must pass one of its own parameters
    (possibly through check_random_state) to it."""
    rule = 'C09.D5.seed'
    mod = ck.repo.mod(KM)
    seeds = {PAM: R.seed if R is not None else None}
    props = {PAM: R.proposals if R is not None else None}
    if seeds[PAM] is None and 'random_state' in params(mod.func(PAM)):
        seeds[PAM] = 'random_state'
    if props[PAM] is None and 'proposals' in params(mod.func(PAM)):
        props[PAM] = 'proposals'
    # _kmedoids_iterations -> _kmedoids_pam_update, then kmedoids -> _kmedoids_iterations
    for caller, callee in [(SWEEPS, PAM), ('kmedoids', SWEEPS)]:
        fn = mod.func(caller)
        cfn = mod.func(callee)
        fi = finfo(mod, fn)
        ck.analysed(mod, fn)
        cs = [c for c in calls_in(fn) if _last(call_name(c)) == callee]
        if not cs:
            ck.missing(rule, 'call %s -> %s' % (caller, callee))
            continue
        for c in cs:
            b = _bind(c, cfn, mod)
            if b is None:
                ck.missing(rule, 'arguments of `%s`' % u(c)[:100])
                continue
            sp = seeds.get(callee)
            if sp is None:
                ck.missing(rule, 'seed parameter of %s unknown' % callee)
            else:
                rs = b.get(sp)
                root = _param_root(fi, rs) if rs is not None else None
                ck.check(root is not None, rule, mod, c, caller, u(c)[:140],
                         'random_state forwarded %s -> %s' % (caller, callee),
                         'random_state is not forwarded from %s to %s: seeded runs are not reproducible' % (caller, callee))
                if root is not None:
                    seeds[caller] = root
            pp = props.get(callee)
            if pp is not None:
                pr = b.get(pp)
                root = _param_root(fi, pr, through=()) if pr is not None else None
                ck.check(root is not None, rule + '.proposals', mod, c, caller, u(c)[:140],
                         'explicit proposals forwarded', 'explicit proposals are dropped on the way to the update')
                if root is not None:
                    props[caller] = root
    for public in ('kmedoids',):
        if seeds.get(public) not in (None, 'random_state'):
            ck.missing(rule, '%s: the seed arrives through parameter `%s`, not `random_state`' % (public, seeds[public]))
    # no module-level RNG use in enspara/cluster
    for rel in (KC, KM, HY, CU):
        m = ck.repo.mod(rel)
        for q, fn in m.functions.items():
            for c in calls_in(fn):
                cn = call_name(c) or ''
                if cn.startswith('numpy.random.'):
                    cn = 'np.' + cn[len('numpy.'):]
                if cn.startswith('np.random.') and cn not in ('np.random.default_rng', 'np.random.RandomState', 'np.random.seed',
                                                              'np.random.Generator'):
                    ck.bad(rule + '.global-rng', m, c, q, u(c)[:120],
                           'module-level numpy RNG bypasses the random_state argument')
                if cn in ('np.random.default_rng',):
                    seed = kwarg(c, 'seed') or (c.args[0] if c.args else None)
                    ck.check(seed is not None and _param_root(finfo(m, fn), seed) is not None,
                             rule + '.global-rng', m, c, q, u(c),
                             'generator seeded from random_state', 'default_rng is not seeded from random_state')
    return seeds


# ---------------------------------------------------------------------------
# D6 definite assignment

def _only_zero_trip(fi, mod, s, name):
    """Three-valued: `name` is possibly unbound at `s`, but all its definitions
    lie in ONE loop L that `s` follows, and once a trip of L has started the
    name is bound before L can be left - so it is unbound only if L runs zero
    times.
      ('ok', why)   L iterates over a container M (M / enumerate(M) /
                    range(len(M))) and M[0] is read on every path before L;
      ('bad',)      L iterates over a parameter / range(<parameter>) and nothing
                    excludes the empty case: zero trips are admissible;
      ('unknown', why)  the trip count of L is not modelled;
      None          not this structure at all (ordinary possibly-unbound read)."""
    defs = [d for d in fi.cfg.nodes if d not in (ENTRY, EXIT) and not isinstance(d, Assume) and name in stmt_defs(d)]
    loops = {_loop_of(mod, d) for d in defs}
    if len(loops) != 1 or None in loops:
        return None
    L = next(iter(loops))
    if _inside(mod, s, L) or not L.body or L.orelse:
        return None
    # once a trip has started the name is bound before the loop can be left
    first = L.body[0]
    if first not in defs and fi.cfg.path(first, s, avoiding=defs) is not None:
        return None
    if not isinstance(L, ast.For):
        return ('unknown', 'trip count of `while %s` is not modelled' % u(L.test)[:60])
    it = fi.expand(L.iter, strict=False)
    b = None
    for pat in ('range(len(_M))', 'range(0, len(_M))', 'enumerate(_M)', 'enumerate(list(_M))', 'list(_M)', '_M', 'range(_M.shape[0])'):
        b = match(pat, it)
        if b is not None and isinstance(b['_M'], ast.Name):
            break
        b = None
    if b is None:
        bp = match('range(_N)', it)
        if bp is not None and isinstance(bp['_N'], ast.Name) and fi.rd.defs_at(L, bp['_N'].id) == {'PARAM'}:
            return ('bad',)
        return ('unknown', 'trip count of `for ... in %s` is not modelled' % u(L.iter)[:60])
    M = b['_M'].id
    for d in fi.cfg.nodes:
        if d in (ENTRY, EXIT) or isinstance(d, Assume) or not fi.cfg.dominates(d, L) or d is L:
            continue
        if fi.rd.defs_at(d, M) != fi.rd.defs_at(L, M):
            continue
        for n in header_uses(d):
            par = mod.parent.get(n)
            if n.id == M and isinstance(par, ast.Subscript) and par.value is n and isinstance(par.ctx, ast.Load) \
                    and const_value(par.slice) == 0 and not isinstance(const_value(par.slice), bool):
                return ('ok', 'loop over %s cannot be zero-trip: %s[0] is read on every path before it' % (u(L.iter), M))
    if fi.rd.defs_at(L, M) == {'PARAM'}:
        return ('bad',)
    return ('unknown', 'nothing shows that `%s` is non-empty before `for ... in %s`' % (M, u(L.iter)[:60]))


def d6_definite(ck):
    rule = 'C09.D6.definite-assignment'
    mod = ck.repo.mod(KM)
    for q in (SWEEPS, PAM, 'kmedoids', INPUTS):
        fn = mod.func(q)
        fi = finfo(mod, fn)
        ck.analysed(mod, fn)
        n = 0
        for s in fi.cfg.nodes:
            if s in (ENTRY, EXIT) or isinstance(s, Assume):
                continue
            for nm in header_uses(s):
                if nm.id not in fi.rd.locals:
                    continue
                n += 1
                if fi.rd.possibly_unbound(s, nm.id):
                    z = _only_zero_trip(fi, mod, s, nm.id)
                    if z is not None and z[0] == 'ok':
                        ck.ok(rule, mod, s, 'read of %s' % nm.id, z[1])
                        continue
                    if z is not None and z[0] == 'unknown' and q == PAM:
                        ck.missing(rule, '%s: `%s` (read in `%s`) is bound only inside a loop; %s' % (q, nm.id, u(s)[:60], z[1]))
                        continue
                    defs = [d for d in fi.cfg.nodes if d not in (ENTRY, EXIT)
                            and not isinstance(d, Assume) and nm.id in stmt_defs(d)]
                    path = fi.cfg.path(ENTRY, s, avoiding=defs)
                    wit = ' -> '.join(fi.cfg.describe(x) for x in (path or [])[:14])
                    ck.bad(rule, mod, s, q, 'read of `%s` in: %s' % (nm.id, u(s)[:100]),
                           '`%s` is bound only inside a loop that runs zero times for an '
                           'admissible argument (n_iters=0): UnboundLocalError' % nm.id, wit)
        ck.ok(rule, mod, fn, '%s: %d local reads' % (q, n), 'checked')


# ---------------------------------------------------------------------------
# D7 the supplied start state is private

def d7_state_private(ck):
    """The supplied start state (centre indices, labels, distances) is not
    written: a rejected proposal leaves no trace and a second run from the
    same state sees the same state (reproducibility with a fixed seed)."""
    from ..patterns import check_no_arg_mutation
    check_no_arg_mutation(ck, 'C09.D7.start-state-unmodified', [
        (KM, 'kmedoids'), (KM, SWEEPS),
        (KM, PAM), (KM, 'KMedoids.fit'), (HY, 'hybrid')])


# ---------------------------------------------------------------------------
# D8 warm/cold start normalisation

def _offset_forms(L, T):
    """Accepted spellings of "first frame of trajectory T in the concatenated
    data" = sum of the lengths of the trajectories before T."""
    cs = 'np.cumsum(%s)' % L
    out = ['sum(%s[:%s])' % (L, T), '%s[:%s].sum()' % (L, T), 'sum(%s[0:%s])' % (L, T), '%s[0:%s].sum()' % (L, T),
           'int(%s[:%s].sum())' % (L, T), 'int(sum(%s[:%s]))' % (L, T), 'np.asarray(%s)[:%s].sum()' % (L, T),
           'sum(list(%s)[:%s])' % (L, T), 'np.sum(%s[:%s], dtype=int)' % (L, T), 'int(np.sum(%s[:%s], dtype=int))' % (L, T), 'sum(%s[_J] for _J in range(%s))' % (L, T), 'sum([%s[_J] for _J in range(%s)])' % (L, T),
           '%s[%s] - %s[%s]' % (cs, T, L, T), '(%s - %s)[%s]' % (cs, L, T), '(%s - np.asarray(%s))[%s]' % (cs, L, T)]
    starts = []
    for tail in ('%s[:-1]' % L, L):
        for tl in ('list(%s)' % tail, tail):
            starts += ['np.cumsum([0] + %s)' % tl]
        starts += ['np.cumsum(np.concatenate(([0], %s)))' % tail, 'np.cumsum(np.concatenate([[0], %s]))' % tail,
                   'np.cumsum(np.r_[0, %s])' % tail, 'np.cumsum(np.insert(%s, 0, 0))' % tail, 'np.cumsum(np.append(0, %s))' % tail,
                   'np.cumsum(np.append([0], %s))' % tail, 'np.cumsum(np.hstack(([0], %s)))' % tail,
                   'np.concatenate(([0], np.cumsum(%s)))' % tail, 'np.concatenate([[0], np.cumsum(%s)])' % tail,
                   'np.insert(np.cumsum(%s), 0, 0)' % tail, 'np.r_[0, np.cumsum(%s)]' % tail,
                   'np.hstack(([0], np.cumsum(%s)))' % tail, 'np.hstack([[0], np.cumsum(%s)])' % tail,
                   'np.append(0, np.cumsum(%s))' % tail, 'np.append([0], np.cumsum(%s))' % tail]
    starts += ['np.concatenate(([0], %s[:-1]))' % cs, 'np.concatenate([[0], %s[:-1]])' % cs, 'np.insert(%s, 0, 0)[:-1]' % cs,
               'np.r_[0, %s[:-1]]' % cs, 'np.hstack(([0], %s[:-1]))' % cs, 'np.append(0, %s[:-1])' % cs, 'np.append([0], %s[:-1])' % cs]
    out += ['%s[%s]' % (s, T) for s in starts]
    return out


def d8_cold_draw(ck):
    """The cold start needs n_clusters DISTINCT frames (a repeated frame would be an empty cluster: the
    number of clusters is not kept): they have to be drawn without replacement; a rejection loop around a
    with-replacement draw does not return for ordinary cluster counts."""
    from . import extra
    rule = 'C09.D8.cold-start.distinct-draw'
    mod = ck.repo.mod(KM)
    n = extra.distinct_random_picks(ck, rule, mod, INPUTS, why='(k-medoids cold start: kmedoids(X, metric, n_clusters=k))')
    ck.floor(rule, n, 1, 'draw of the initial medoids in %s' % INPUTS)
    n2 = extra.none_equality_on_sequences(ck, 'C09.D8.warm-start.none-test', mod, ['kmedoids', INPUTS])
    ck.floor('C09.D8.warm-start.none-test', n2, 0, '')


def d8_warm_start(ck):
    rule = 'C09.D8.warm-start'
    mod = ck.repo.mod(KM)
    fn = mod.func(INPUTS)
    fi = finfo(mod, fn)
    ck.analysed(mod, fn)
    ps = params(fn)
    if len(ps) < 7:
        ck.missing(rule, 'parameters of %s' % INPUTS)
        return
    X, DM, NC, A, D, CCI, XL = ps[:7]
    # --- (trajectory, frame) pairs -> index in the concatenated data
    conv = []
    for s in assigns_to(fn, CCI):
        if isinstance(s, ast.Assign) and fi.def_value(s, CCI) is not None:
            e = fi.expand(fi.def_value(s, CCI), stop=(CCI, XL))
            if XL in names_loaded(e):
                conv.append((s, e))
    if not conv:
        ck.missing(rule, 'conversion of centres given as (trajectory, frame) pairs through the trajectory lengths `%s`' % XL)
    for s, e in conv:
        e = canon(e)
        T = F = None
        elt = None
        if isinstance(e, ast.ListComp) and len(e.generators) == 1 and not e.generators[0].ifs:
            g = e.generators[0]
            it = u(g.iter)
            if it == CCI and isinstance(g.target, ast.Tuple) and len(g.target.elts) == 2 and all(isinstance(x, ast.Name) for x in g.target.elts):
                T, F = [x.id for x in g.target.elts]
                elt = e.elt
            elif it == CCI and isinstance(g.target, ast.Name):
                p = g.target.id
                T, F = '_t_', '_f_'
                elt = _subst(e.elt, {'%s[0]' % p: T, '%s[1]' % p: F})
            elif isinstance(g.target, ast.Name) and it in ('range(len(%s))' % CCI, 'np.arange(len(%s))' % CCI, 'range(0, len(%s))' % CCI):
                i = g.target.id
                T, F = '_t_', '_f_'
                elt = _subst(e.elt, {'%s[%s][0]' % (CCI, i): T, '%s[%s][1]' % (CCI, i): F,
                                     '%s[%s, 0]' % (CCI, i): T, '%s[%s, 1]' % (CCI, i): F})
        if elt is None:
            ck.missing(rule, 'pair -> index conversion `%s` is not a comprehension over the supplied centres' % u(s)[:120])
            continue
        forms = []
        for o in _offset_forms(XL, T):
            forms += ['%s + %s' % (o, F), '%s + %s' % (F, o), 'int(%s + %s)' % (o, F), 'int(%s) + %s' % (o, F), 'int(%s) + int(%s)' % (o, F),
                      'int(%s + %s)' % (F, o), '%s + int(%s)' % (F, o)]
        forms += ['sum(%s[:%s], %s)' % (XL, T, F), 'sum(%s[0:%s], %s)' % (XL, T, F)]
        v = classify(elt, forms, scope={XL, T, F})
        ck.decide(v, rule, mod, s, INPUTS, u(canon(e))[:200],
                  'centre (t, f) -> sum(lengths[:t]) + f, its index in the concatenated data',
                  'a centre given as (trajectory t, frame f) must become sum(%s[:t]) + f (the frames of all EARLIER '
                  'trajectories plus f): otherwise the sweeps start from other frames than the supplied centres' % XL)
    # --- missing labels/distances are computed from the centre frames
    an = [c for c in calls_in(fn) if _last(call_name(c)) == 'assign_to_nearest_center']
    if len(an) != 1:
        ck.missing(rule, 'exactly one assign_to_nearest_center(...) in %s (found %d)' % (INPUTS, len(an)))
    else:
        c = an[0]
        try:
            callee = ck.repo.mod(CU).func('assign_to_nearest_center')
            b = _bind(c, callee, ck.repo.mod(CU))
            cps = params(callee)[:3]
        except AnalysisIncomplete:
            b, cps = None, []
        st = fi.stmt(c)
        if b is None or len(cps) != 3 or any(p not in b for p in cps):
            ck.missing(rule, 'arguments of `%s`' % u(c)[:100])
        else:
            tup = ast.Tuple(elts=[fi.expand(b[p], stop=(X, CCI, DM)) for p in cps], ctx=ast.Load())
            v = classify(tup, ['(%s, %s[%s], %s)' % (X, X, CCI, DM), '(%s, %s[np.asarray(%s)], %s)' % (X, X, CCI, DM),
                               '(%s, [%s[_I] for _I in %s], %s)' % (X, X, CCI, DM)], scope={X, CCI, DM})
            ck.decide(v, rule, mod, c, INPUTS, u(c)[:160], 'cold labels/distances: every frame to its nearest supplied centre frame',
                      'labels and distances must be computed against the frames %s[%s] of the data with the same metric' % (X, CCI))
            if isinstance(st, ast.Assign) and st.value is c and len(st.targets) == 1 and isinstance(st.targets[0], ast.Tuple):
                got = [u(x) for x in st.targets[0].elts]
                if got == [A, D]:
                    ck.ok(rule, mod, st, u(st.targets[0]), 'result unpacked as (assignments, distances)')
                elif got == [D, A]:
                    ck.bad(rule, mod, st, INPUTS, u(st)[:160], 'assign_to_nearest_center returns (assignments, distances): unpacked in the wrong order')
                else:
                    ck.missing(rule, 'unpacking `%s`' % u(st)[:100])
    fc = [c for c in calls_in(fn) if _last(call_name(c)) == 'find_cluster_centers']
    for c in fc:
        tup = ast.Tuple(elts=[fi.expand(a, stop=(A, D)) for a in c.args] + [fi.expand(k.value, stop=(A, D)) for k in c.keywords], ctx=ast.Load())
        if c.keywords and [k.arg for k in c.keywords] != ['assignments', 'distances'][len(c.args):]:
            ck.missing(rule, 'arguments of `%s`' % u(c)[:100])
            continue
        v = classify(tup, ['(%s, %s)' % (A, D)], scope={A, D})
        ck.decide(v, rule, mod, c, INPUTS, u(c), 'centres inferred from the supplied (assignments, distances)',
                  'find_cluster_centers takes (assignments, distances) in this order')
    # --- return order matches the unpacking in kmedoids()
    rets = returns_of(fn)
    if len(rets) == 1 and isinstance(rets[0].value, ast.Tuple):
        got = [fi.xu(x, stop=(A, D, CCI)) for x in rets[0].value.elts]
        if got == [A, D, CCI]:
            ck.ok(rule, mod, rets[0], u(rets[0]), 'returns (assignments, distances, centre indices)')
        elif sorted(got) == sorted([A, D, CCI]):
            ck.bad(rule, mod, rets[0], INPUTS, u(rets[0]), 'must return (assignments, distances, centre indices): kmedoids() unpacks it positionally')
        else:
            ck.missing(rule, 'return value `%s`' % u(rets[0])[:100])
    else:
        ck.missing(rule, 'single tuple return of %s' % INPUTS)


# ---------------------------------------------------------------------------
# D5 (estimator objects): the generator of a run is derived from the seed per run

_GENERATOR_CTORS = ('check_random_state', 'RandomState', 'default_rng', 'Generator', 'PCG64', 'MT19937', 'Random')


def _self_attr(e, selfname):
    return isinstance(e, ast.Attribute) and isinstance(e.value, ast.Name) and e.value.id == selfname


def _seed_consumers(ck, seeds):
    """[(module rel, function name, seed parameter)] of the module-level entry
    points of k-medoids / k-hybrid: the parameter that reaches the proposer's
    generator (d5_seed), for hybrid() the one it forwards to the sweeps."""
    out = []
    seeds = seeds or {}
    if seeds.get('kmedoids'):
        out.append((KM, 'kmedoids', seeds['kmedoids']))
    try:
        mod = ck.repo.mod(HY)
        fn = mod.func('hybrid')
        fi = finfo(mod, fn)
        modk = ck.repo.mod(KM)
        callee = modk.func(SWEEPS)
        sp = seeds.get(SWEEPS) or 'random_state'
        for c in calls_in(fn):
            if _last(call_name(c)) == SWEEPS:
                b = _bind(c, callee, modk)
                rs = b.get(sp) if b else None
                root = _param_root(fi, rs) if rs is not None else None
                if root is not None:
                    out.append((HY, 'hybrid', root))
    except AnalysisIncomplete:
        pass
    return out


def d5_seed_per_run(ck, seeds):
    """"With a fixed random seed the outcome is reproducible" for the
    estimator classes: the value an estimator hands to the seed parameter of
    kmedoids()/hybrid() in a method other than the constructor must be a
    function of the SEED the constructor received.  An attribute that the
    constructor binds to a generator OBJECT built from the seed
    (check_random_state(p), RandomState(p), default_rng(p)) is mutable state
    shared by all runs of the object: the first run advances it, the second run
    starts from the advanced stream - its outcome depends on how many runs
    came before, not on the seed alone."""
    rule = 'C09.D5.seed.per-run'
    consumers = _seed_consumers(ck, seeds)
    if not consumers:
        ck.missing(rule, 'seed parameter of kmedoids() / hybrid()')
        return
    n = 0
    for rel in (HY, KM):
        mod = ck.repo.mod(rel)
        for cname in sorted(mod.classes):
            init = mod.functions.get('%s.__init__' % cname)
            if init is None or not params(init):
                continue
            for q, meth in sorted(mod.functions.items()):
                if not q.startswith(cname + '.') or q.count('.') != 1 or meth is init or not params(meth):
                    continue
                selfname = params(meth)[0]
                fim = finfo(mod, meth)
                for c in calls_in(meth):
                    for crel, cfn, sp in consumers:
                        if _last(call_name(c)) != cfn:
                            continue
                        cmod = ck.repo.mod(crel)
                        b = _bind(c, cmod.func(cfn), cmod)
                        if b is None:
                            ck.missing(rule, 'arguments of `%s` in %s' % (u(c)[:80], q))
                            continue
                        a = b.get(sp)
                        if a is None:
                            continue            # the estimator does not seed the run at all
                        x = fim.expand(a)
                        attrs = sorted({e.attr for e in walk_expr(x) if _self_attr(e, selfname) and isinstance(e.ctx, ast.Load)})
                        if not attrs:
                            continue
                        ck.analysed(mod, meth)
                        ck.analysed(mod, init)
                        for attr in attrs:
                            n += _seed_attribute(ck, rule, mod, cname, init, q, c, sp, attr)
    ck.floor(rule, n, 1, 'seed attributes handed to kmedoids()/hybrid() by an estimator method')


def _seed_attribute(ck, rule, mod, cname, init, q, call, sp, attr):
    fi = finfo(mod, init)
    selfname = params(init)[0]
    qi = '%s.__init__' % cname
    stores = [(s, t) for s in walk_local(init) if isinstance(s, ast.Assign)
              for t in s.targets if _self_attr(t, selfname) and t.attr == attr]
    if not stores:
        ck.missing(rule, 'store to self.%s in %s (read by %s for `%s=`)' % (attr, qi, q, sp))
        return 0
    n = 0
    for s, t in stores:
        n += 1
        x = canon(fi.expand(s.value))
        construct = 'self.%s of %s, handed to the run as %s= by %s' % (attr, cname, sp, q.split('.')[-1])
        if isinstance(x, ast.Name) and fi.rd.defs_at(s, x.id) == {'PARAM'}:
            ck.ok(rule, mod, s, construct, 'the constructor keeps the seed itself; every run derives its generator from it')
            continue
        if isinstance(x, ast.Call) and _last(call_name(x)) in _GENERATOR_CTORS:
            roots = [nm for nm in names_loaded(x) if fi.rd.defs_at(s, nm) == {'PARAM'}]
            if roots:
                ck.bad(rule, mod, s, qi, construct,
                       '`%s` turns the seed parameter `%s` into ONE generator object when the estimator is constructed; `%s` (%s) '
                       'hands that same, already advanced object to every run. A second %s() on the same estimator/data/seed '
                       'continues the stream instead of restarting from the seed: different proposals, different centres and '
                       'cost - the outcome depends on the number of earlier runs, not on the seed. Keep the seed in the '
                       'attribute and build the generator in %s'
                       % (u(s)[:80], roots[0], u(call)[:40] + '...', mod.loc(call), q.split('.')[-1], q.split('.')[-1]))
                continue
        ck.missing(rule, 'value stored in self.%s by %s: `%s`' % (attr, qi, u(s)[:80]))
    return n


# ---------------------------------------------------------------------------
# D9 sanity assertions on the start state must not depend on the unit of the metric

def _unwrap_truth(e):
    """Strip np.all(...) / (...).all() / all(...) / bool(...) around a test."""
    while True:
        if isinstance(e, ast.Call) and not e.keywords:
            cn = call_name(e) or ''
            if cn in ('np.all', 'numpy.all', 'all', 'bool', 'np.alltrue') and len(e.args) == 1:
                e = e.args[0]
                continue
            if isinstance(e.func, ast.Attribute) and e.func.attr == 'all' and not e.args:
                e = e.func.value
                continue
        return e


_DIST_REDUCERS = ('max', 'min', 'mean', 'sum', 'abs', 'absolute', 'amax', 'amin', 'sqrt', 'square', 'asarray', 'array', 'ravel', 'flatten')


def _rooted_in(e, D, depth=6):
    """`e` is the distance array `D`, a selection of it or a magnitude
    preserving reduction of one (homogeneous of degree 1 in the metric)."""
    if depth <= 0:
        return False
    if isinstance(e, ast.Name):
        return e.id == D
    if isinstance(e, ast.Subscript):
        return _rooted_in(e.value, D, depth - 1)
    if isinstance(e, ast.Call):
        if isinstance(e.func, ast.Attribute) and e.func.attr in _DIST_REDUCERS and _rooted_in(e.func.value, D, depth - 1):
            return True
        if _last(call_name(e)) in _DIST_REDUCERS and e.args and _rooted_in(e.args[0], D, depth - 1):
            return True
    return False


def _root_at(fi, stmt, name, through, depth=4):
    """Parameter whose value the NAME `name` denotes at statement `stmt` (by name, for expanded copies of
    expressions whose nodes are not in the def-use tables): a parameter, or a single definition
    `name = <through>(<name2>)` / `name = <name2>` followed back."""
    while depth > 0:
        depth -= 1
        ds = fi.rd.defs_at(stmt, name)
        if ds == {'PARAM'}:
            return name
        if len(ds) != 1:
            return None
        d = next(iter(ds))
        if d in ('PARAM', 'UNBOUND') or not isinstance(d, (ast.Assign, ast.AnnAssign)):
            return None
        v = fi.def_value(d, name)
        if isinstance(v, ast.Call) and _last(call_name(v)) in through and len(v.args) == 1 and not v.keywords:
            v = v.args[0]
        if not isinstance(v, ast.Name):
            return None
        stmt, name = d, v.id
    return None


def _positive_metric_bound(fi, stmt, bound, metric, strict):
    """`bound` is a sum of numeric literals and values of the metric (calls that receive the metric parameter,
    absolute values) whose literal part is positive (or zero under a strict comparison): it is > 0 (>= 0 resp.)
    whatever the data, so it cannot bound a self-distance from below."""
    terms, stack = [], [bound]
    while stack:
        e = stack.pop()
        if isinstance(e, ast.BinOp) and isinstance(e.op, ast.Add):
            stack += [e.left, e.right]
        else:
            terms.append(e)
    k, measured = 0, 0
    for t in terms:
        c = const_value(t)
        if isinstance(c, (int, float)) and not isinstance(c, bool):
            k += c
        elif isinstance(t, ast.Call) and (_last(call_name(t)) in ('abs', 'absolute', 'fabs') or (
                metric is not None and any(_root_at(fi, stmt, a.id, ('_get_distance_method',)) == metric
                                           for a in list(t.args) + [kw.value for kw in t.keywords] if isinstance(a, ast.Name)))):
            measured += 1
        else:
            return False
    return k > 0


def d9_start_state_asserts(ck):
    """The property is quantified over ALL metrics; with d, c*d is a metric for
    every c > 0, and floating-point metrics return their self-distance only up
    to round-off proportional to the magnitude of the data (md.rmsd: float32).
    A sanity assertion on the supplied / computed start state that bounds a
    distance from above by a bare numeric literal (or from below by a non-zero
    one) is therefore not an invariant of a consistent state: the bound must
    carry a term measured with the same metric."""
    rule = 'C09.D9.start-state-assert'
    mod = ck.repo.mod(KM)
    fn = mod.func('kmedoids')
    fi = finfo(mod, fn)
    ck.analysed(mod, fn)
    callee = mod.func(SWEEPS)
    ps = params(callee)
    D = None
    for c in calls_in(fn):
        if _last(call_name(c)) == SWEEPS:
            b = _bind(c, callee, mod)
            if b is not None and len(ps) >= 6 and isinstance(b.get(ps[5]), ast.Name):
                D = b[ps[5]].id
    if D is None:
        ck.missing(rule, 'the distance array kmedoids() hands to %s' % SWEEPS)
        return
    n = 0
    for s in walk_local(fn):
        if not isinstance(s, ast.Assert):
            continue
        test = fi.expand(s.test, stop=(D,), strict=False)
        if D not in names_loaded(test):
            continue
        cs = conjuncts(_unwrap_truth(canon(test)), True)
        if cs is None:
            ck.missing(rule, 'assertion on the start distances not recognised: `%s`' % u(s)[:100])
            continue
        for c in cs:
            c2 = c
            if not isinstance(c2, Cmp) and isinstance(c, tuple) and len(c) == 3 and c[2] is True:
                inner = _unwrap_truth(c[1])
                sub = conjuncts(inner, True) if inner is not c[1] else None
                c2 = sub[0] if sub and len(sub) == 1 else c
            if not isinstance(c2, Cmp) or c2.as_less() is None:
                if D in names_loaded(fact_node(c)):
                    ck.missing(rule, 'assertion on the start distances not recognised: `%s`' % u(s)[:100])
                continue
            small, strict, big = c2.as_less()
            for dist, bound, side in ((small, big, 'upper'), (big, small, 'lower')):
                if not _rooted_in(dist, D):
                    continue
                n += 1
                k = const_value(bound)
                construct = 'assert <start distances at the centres> %s <bound>' % ('<' if strict else '<=') if side == 'upper' \
                    else 'assert <bound> %s <start distances>' % ('<' if strict else '<=')
                if isinstance(k, (int, float)) and not isinstance(k, bool):
                    if k == 0 and side == 'lower':
                        ck.ok(rule, mod, s, u(s)[:120], 'distances are non-negative: independent of the unit and the precision of the metric')
                    else:
                        ck.bad(rule, mod, s, 'kmedoids', construct + ' (bare literal %r)' % k,
                               '`%s` bounds a value of the metric by the absolute constant %r. The self-distance of a centre is 0 only '
                               'up to the round-off of the metric, which scales with the data (md.rmsd works in float32: about '
                               '4e-4 x radius of gyration, > 0.001 for ordinary proteins), so a CONSISTENT start state - e.g. the '
                               'state k-hybrid itself returned - fails the assertion and no sweep runs. The bound must be measured '
                               'with the same metric (the self-distance of the centre frames)' % (u(s)[:100], k))
                elif side == 'lower' and _positive_metric_bound(fi, s, bound, params(fn)[1] if len(params(fn)) > 1 else None, strict):
                    ck.bad(rule, mod, s, 'kmedoids', construct + ' (bound %s)' % u(bound)[:60],
                           '`%s` bounds the start distances of the centres from BELOW by `%s`, a positive constant plus a value of the '
                           'metric (>= 0). In a consistent start state the distance of a centre to itself is exactly its self-distance '
                           '(0 for an exact metric), so the assertion fails for every consistent state - cold start, warm start and '
                           'the state k-hybrid hands over - and no sweep runs' % (u(s)[:100], u(bound)[:60]))
                elif names_loaded(bound):
                    ck.ok(rule, mod, s, u(s)[:120], 'the bound carries a data-dependent term (%s)' % ', '.join(sorted(names_loaded(bound)))[:80])
                else:
                    ck.missing(rule, 'bound of the assertion `%s`' % u(s)[:100])
    if n == 0:
        ck.ok(rule, mod, fn, 'kmedoids: no assertion bounds the start distances', 'nothing to decide')


# ---------------------------------------------------------------------------
# D8 (cont.): every admitted start configuration reaches the sweeps
#
# A small symbolic walker over the statements of one function for ONE abstract
# configuration of its parameters ("mode": which of the optional arguments are
# None, whether the centre indices are plain frame numbers or (owner, frame)
# pairs, serial run).  Purely syntactic: conditions are evaluated over a finite
# abstract domain (None / not None / number / sequence of numbers / sequence of
# pairs / symbolic length / bool / unknown); an unknown condition forks the path.
# Nothing of the analysed code is executed.

class _Crash(Exception):
    def __init__(self, node, why):
        Exception.__init__(self, why)
        self.node, self.why = node, why


class _TooMany(Exception):
    pass


_NONE, _UNK, _OBJ, _SCALAR = ('none',), ('unk',), ('obj',), ('scalar',)
_PAIR = ('seq', _SCALAR, 2)
_BIG = ('big',)            # an integer >= 2: the world size of an MPI run
_WORLD = '__world__'       # key of a mode environment: 'serial' (default) or 'mpi'
_RANK = ('rank',)          # a valid owner rank: an integer in [0, world size)
_PAIR_MPI = ('tuple', (_RANK, _SCALAR))     # an (owner rank, local frame) pair of an MPI run


def _seq(elem=None, n=None):
    return ('seq', elem, n)


def _truth(av):
    k = av[0]
    if k == 'none':
        return False
    if k == 'bool':
        return av[1]
    if k == 'int':
        return av[1] != 0
    if k == 'big':
        return True
    return None


def _notnone(av):
    return av[0] in ('obj', 'scalar', 'seq', 'int', 'bool', 'len', 'tuple', 'big', 'rank')


def _av_compare(op, a, b):
    """True / False / None (unknown) for `a <op> b` over abstract values."""
    if a == _BIG and b == _BIG:
        return None
    if a == _BIG and b == _RANK:
        flip = {ast.Lt: ast.Gt, ast.LtE: ast.GtE, ast.Gt: ast.Lt, ast.GtE: ast.LtE}.get(type(op))
        return _av_compare(flip() if flip is not None else op, b, a)
    if a == _RANK and b == _BIG:
        # a valid owner rank is smaller than the number of ranks
        if isinstance(op, (ast.Lt, ast.LtE, ast.NotEq)):
            return True
        if isinstance(op, (ast.Gt, ast.GtE, ast.Eq)):
            return False
        return None
    if _RANK in (a, b):
        o, flipped = (b, False) if a == _RANK else (a, True)
        if o[0] == 'int' and o[1] <= 0:
            # rank >= 0 always; rank < 0 never (nothing else is known about one rank)
            t = {ast.GtE: ast.LtE, ast.Lt: ast.Gt}.get(type(op)) if not flipped else {ast.LtE: ast.LtE, ast.Gt: ast.Gt}.get(type(op))
            if t is ast.LtE and (o[1] <= 0):
                return True           # o <= rank
            if t is ast.Gt and (o[1] <= 0):
                return False          # o > rank
        return None
    if b == _BIG and a[0] == 'int':
        flip = {ast.Lt: ast.Gt, ast.LtE: ast.GtE, ast.Gt: ast.Lt, ast.GtE: ast.LtE}.get(type(op))
        return _av_compare(flip() if flip is not None else op, b, a)
    if a == _BIG and b[0] == 'int' and not isinstance(op, (ast.Is, ast.IsNot, ast.In, ast.NotIn)):
        # a is some integer >= 2 (the number of ranks of an MPI run)
        k = b[1]
        if isinstance(op, ast.Gt):
            return True if k <= 1 else None
        if isinstance(op, ast.GtE):
            return True if k <= 2 else None
        if isinstance(op, ast.Lt):
            return False if k <= 2 else None
        if isinstance(op, ast.LtE):
            return False if k <= 1 else None
        if isinstance(op, ast.Eq):
            return False if k <= 1 else None
        if isinstance(op, ast.NotEq):
            return True if k <= 1 else None
        return None
    if isinstance(op, (ast.Is, ast.IsNot, ast.Eq, ast.NotEq)):
        pos = isinstance(op, (ast.Is, ast.Eq))
        if a == _NONE and b == _NONE:
            return pos
        if isinstance(op, (ast.Is, ast.IsNot)) and ((a == _NONE and _notnone(b)) or (b == _NONE and _notnone(a))):
            return not pos
        if isinstance(op, (ast.Eq, ast.NotEq)):
            if (a == _NONE and b[0] in ('int', 'bool', 'scalar', 'len')) or (b == _NONE and a[0] in ('int', 'bool', 'scalar', 'len')):
                return not pos
            if a[0] == b[0] and a[0] in ('int', 'bool'):
                return (a[1] == b[1]) == pos
            if a[0] == 'len' and b[0] == 'len' and a[1] == b[1]:
                return pos
        return None
    if isinstance(op, (ast.Lt, ast.LtE, ast.Gt, ast.GtE)):
        if a[0] == 'int' and b[0] == 'int':
            x, y = a[1], b[1]
            return {ast.Lt: x < y, ast.LtE: x <= y, ast.Gt: x > y, ast.GtE: x >= y}[type(op)]
        if a[0] == 'len' and b[0] == 'len' and a[1] == b[1]:
            return isinstance(op, (ast.LtE, ast.GtE))
    return None


class _Path(object):
    def __init__(self, env):
        self.env = dict(env)
        self.definite = True
        self.reached = set()
        self.maybe = set()
        self.soft = []          # (node, why): a crash on an operand that may not be evaluated
        self.done = None
        self.attrs = {}
        self.callargs = {}

    def fork(self):
        q = _Path(self.env)
        q.definite = self.definite
        q.reached = set(self.reached)
        q.maybe = set(self.maybe)
        q.soft = list(self.soft)
        q.done = self.done
        q.attrs = dict(self.attrs)
        q.callargs = dict(self.callargs)
        return q


class _ModeEval(object):
    LIMIT = 96

    def __init__(self, mod, fn, world='serial'):
        self.mod, self.fn = mod, fn
        self.world = world
        self.tentative = 0
        self.locals = set(params(fn))
        for n in walk_local(fn):
            if isinstance(n, ast.Name) and isinstance(n.ctx, (ast.Store, ast.Del)):
                self.locals.add(n.id)

    # ---- expressions
    def crash(self, node, why, p):
        if self.tentative:
            p.soft.append((node, why))
            return _UNK
        raise _Crash(node, why)

    def mark(self, node, p):
        (p.maybe if self.tentative else p.reached).add(id(node))

    def soft_ev(self, e, p):
        self.tentative += 1
        try:
            return self.ev(e, p)
        finally:
            self.tentative -= 1

    def ev(self, e, p):
        if e is None:
            return _UNK
        m = getattr(self, 'ev_' + type(e).__name__, None)
        if m is not None:
            return m(e, p)
        for c in ast.iter_child_nodes(e):
            if isinstance(c, ast.expr):
                self.ev(c, p)
        return _UNK

    def ev_Constant(self, e, p):
        v = e.value
        if v is None:
            return _NONE
        if isinstance(v, bool):
            return ('bool', v)
        if isinstance(v, int):
            return ('int', v)
        if isinstance(v, float):
            return _SCALAR
        return _OBJ

    def ev_Name(self, e, p):
        return p.env.get(e.id, _UNK)

    def ev_Lambda(self, e, p):
        return _OBJ

    def ev_JoinedStr(self, e, p):
        return _OBJ

    def ev_Tuple(self, e, p):
        return ('tuple', tuple(self.ev(x.value if isinstance(x, ast.Starred) else x, p) for x in e.elts))

    def ev_List(self, e, p):
        for x in e.elts:
            self.ev(x.value if isinstance(x, ast.Starred) else x, p)
        return _seq(None, len(e.elts) if not any(isinstance(x, ast.Starred) for x in e.elts) else None)

    def ev_UnaryOp(self, e, p):
        v = self.ev(e.operand, p)
        if isinstance(e.op, ast.Not):
            t = _truth(v)
            return _UNK if t is None else ('bool', not t)
        if isinstance(e.op, ast.USub) and v[0] == 'int':
            return ('int', -v[1])
        return _UNK

    def ev_BinOp(self, e, p):
        a, b = self.ev(e.left, p), self.ev(e.right, p)
        if a[0] == 'int' and b[0] == 'int' and isinstance(e.op, (ast.Add, ast.Sub, ast.Mult)):
            return ('int', {ast.Add: a[1] + b[1], ast.Sub: a[1] - b[1], ast.Mult: a[1] * b[1]}[type(e.op)])
        return _UNK

    def ev_BoolOp(self, e, p):
        is_and = isinstance(e.op, ast.And)
        unk = False
        av = _UNK
        for v in e.values:
            av = self.soft_ev(v, p) if unk else self.ev(v, p)
            t = _truth(av)
            if t is None:
                unk = True
            elif is_and and not t:
                return ('bool', False)
            elif not is_and and t:
                return ('bool', True)
        return _UNK if unk else av

    def ev_IfExp(self, e, p):
        t = _truth(self.ev(e.test, p))
        if t is None:
            a, b = self.soft_ev(e.body, p), self.soft_ev(e.orelse, p)
            return a if a == b else _UNK
        return self.ev(e.body if t else e.orelse, p)

    def ev_Compare(self, e, p):
        vals = [self.ev(e.left, p)] + [self.ev(c, p) for c in e.comparators]
        if len(e.ops) != 1:
            return _UNK
        r = _av_compare(e.ops[0], vals[0], vals[1])
        return _UNK if r is None else ('bool', r)

    def ev_Attribute(self, e, p):
        if isinstance(e.value, ast.Name) and e.value.id not in self.locals:
            return _UNK                       # a module / global
        v = self.ev(e.value, p)
        if v == _NONE:
            return self.crash(e, 'attribute `.%s` of `%s`, which is None here' % (e.attr, u(e.value)[:40]), p)
        return _UNK

    def ev_Subscript(self, e, p):
        v = self.ev(e.value, p)
        if isinstance(e.slice, ast.Slice):
            for x in (e.slice.lower, e.slice.upper, e.slice.step):
                self.ev(x, p)
            i = None
        else:
            i = self.ev(e.slice, p)
        if v == _NONE:
            return self.crash(e, '`%s` subscripts `%s`, which is None here' % (u(e)[:50], u(e.value)[:40]), p)
        if v[0] in ('scalar', 'int', 'rank', 'big'):
            return self.crash(e, '`%s` subscripts `%s`, which is a plain number here' % (u(e)[:50], u(e.value)[:40]), p)
        if v[0] == 'seq':
            if i is None:
                return _seq(v[1], None)
            if i[0] in ('scalar', 'int') and v[1] is not None:
                return v[1]
        if v[0] == 'tuple' and i is not None and i[0] == 'int' and -len(v[1]) <= i[1] < len(v[1]):
            return v[1][i[1]]
        return _UNK

    def _comp(self, e, p, elts):
        env0 = dict(p.env)
        for k, g in enumerate(e.generators):
            it = self.ev(g.iter, p) if k == 0 else self.soft_ev(g.iter, p)
            if it == _NONE:
                self.crash(g.iter, 'iteration over `%s`, which is None here' % u(g.iter)[:40], p)
            self.bind(g.target, it[1] if it[0] == 'seq' and it[1] is not None else _UNK, p)
            for c in g.ifs:
                self.soft_ev(c, p)
        for x in elts:
            self.soft_ev(x, p)
        p.env = env0
        return _seq(None, None)

    def ev_ListComp(self, e, p):
        return self._comp(e, p, [e.elt])

    ev_SetComp = ev_GeneratorExp = ev_ListComp

    def ev_DictComp(self, e, p):
        return self._comp(e, p, [e.key, e.value])

    def ev_Call(self, e, p):
        cn = call_name(e) or ''
        last = _last(cn)
        if isinstance(e.func, ast.Attribute):
            self.ev(e.func, p)
        elif not isinstance(e.func, ast.Name):
            self.ev(e.func, p)
        avs = [self.ev(a.value if isinstance(a, ast.Starred) else a, p) for a in e.args]
        kws = {k.arg: self.ev(k.value, p) for k in e.keywords}
        self.mark(e, p)
        p.callargs[id(e)] = (avs, kws)
        plain = not e.keywords and not any(isinstance(a, ast.Starred) for a in e.args)
        if cn == 'hasattr' and len(avs) == 2 and plain:
            if const_value(e.args[1]) == '__len__':
                a = avs[0]
                if a[0] in ('seq', 'tuple'):
                    return ('bool', True)
                if a[0] in ('none', 'scalar', 'int', 'bool', 'rank', 'big'):
                    return ('bool', False)
            return _UNK
        if cn == 'len' and len(avs) == 1 and plain:
            a = avs[0]
            if a[0] in ('none', 'scalar', 'int', 'bool'):
                return self.crash(e, '`%s`: `%s` is %s here' % (u(e)[:40], u(e.args[0])[:40], 'None' if a == _NONE else 'a plain number'), p)
            if a[0] == 'tuple':
                return ('int', len(a[1]))
            if a[0] == 'seq' and isinstance(a[2], int):
                return ('int', a[2])
            if a[0] == 'seq' and a[2] is not None:
                return ('len', a[2])
            return _UNK
        if 'mpi' in cn.split('.')[:-1] and not e.args and not e.keywords:
            if last in ('size', 'Get_size'):
                return _BIG if self.world == 'mpi' else ('int', 1)     # serial configuration unless stated
            if last in ('rank', 'Get_rank'):
                return _SCALAR if self.world == 'mpi' else ('int', 0)
        if cn == 'range':
            return _seq(_SCALAR, None)
        if cn == 'enumerate' and len(avs) == 1 and plain:
            a = avs[0]
            if a == _NONE:
                return self.crash(e, '`%s`: `%s` is None here' % (u(e)[:40], u(e.args[0])[:40]), p)
            return _seq(('tuple', (_SCALAR, a[1] if a[0] == 'seq' and a[1] is not None else _UNK)), a[2] if a[0] == 'seq' else None)
        if last in ('copy', 'deepcopy') and len(avs) == 1 and plain:
            return avs[0]
        if last == 'copy' and not avs and plain and isinstance(e.func, ast.Attribute):
            a = self.ev(e.func.value, p)
            return a if a[0] == 'seq' else _UNK
        if cn in ('list', 'tuple', 'sorted') and len(avs) == 1 and plain:
            if avs[0] == _NONE:
                return self.crash(e, '`%s`: `%s` is None here' % (u(e)[:40], u(e.args[0])[:40]), p)
            return avs[0] if avs[0][0] == 'seq' else _UNK
        if last in ('asarray', 'array', 'asanyarray') and len(avs) >= 1 and avs[0][0] == 'seq':
            return avs[0]
        return _UNK

    # ---- statements
    def bind(self, t, av, p):
        if isinstance(t, ast.Name):
            p.env[t.id] = av
        elif isinstance(t, (ast.Tuple, ast.List)):
            parts = None
            if av[0] == 'tuple' and len(av[1]) == len(t.elts):
                parts = list(av[1])
            elif av[0] == 'seq' and av[1] is not None and av[2] == len(t.elts):
                parts = [av[1]] * len(t.elts)
            for k, x in enumerate(t.elts):
                self.bind(x.value if isinstance(x, ast.Starred) else x, parts[k] if parts else _UNK, p)
        elif isinstance(t, ast.Attribute):
            self.ev(t.value, p)
            if t.value is not None and isinstance(t.value, ast.Name) and p.env.get(t.value.id) == _NONE:
                self.crash(t, 'attribute store on `%s`, which is None here' % t.value.id, p)
            p.attrs[t.attr] = av
        elif isinstance(t, ast.Subscript):
            v = self.ev(t.value, p)
            if not isinstance(t.slice, ast.Slice):
                self.ev(t.slice, p)
            if v == _NONE:
                self.crash(t, 'store `%s[...] = ...` into `%s`, which is None here' % (u(t.value)[:40], u(t.value)[:40]), p)

    def block(self, stmts, paths):
        for s in stmts:
            nxt = []
            for p in paths:
                if p.done is not None:
                    nxt.append(p)
                else:
                    nxt.extend(self.stmt(s, p))
            paths = nxt
            if len(paths) > self.LIMIT:
                raise _TooMany()
        return paths

    def stmt(self, s, p):
        p.reached.add(id(s))
        try:
            m = getattr(self, 'st_' + type(s).__name__, None)
            if m is None:
                return [p]
            return m(s, p)
        except _Crash as c:
            p.done = ('crash', c.node, c.why)
            return [p]

    def st_Expr(self, s, p):
        self.ev(s.value, p)
        return [p]

    def st_Assign(self, s, p):
        av = self.ev(s.value, p)
        for t in s.targets:
            self.bind(t, av, p)
        return [p]

    def st_AnnAssign(self, s, p):
        if s.value is not None:
            self.bind(s.target, self.ev(s.value, p), p)
        return [p]

    def st_AugAssign(self, s, p):
        self.ev(s.value, p)
        if isinstance(s.target, ast.Name):
            if p.env.get(s.target.id) == _NONE:
                self.crash(s, 'augmented assignment to `%s`, which is None here' % s.target.id, p)
            p.env[s.target.id] = _UNK
        else:
            self.bind(s.target, _UNK, p)
        return [p]

    def st_Return(self, s, p):
        self.ev(s.value, p)
        p.done = ('return', s)
        return [p]

    def st_Raise(self, s, p):
        p.done = ('raise', s)
        return [p]

    def st_Assert(self, s, p):
        t = _truth(self.ev(s.test, p))
        if t is False:
            p.done = ('assert', s)
        return [p]

    def st_Break(self, s, p):
        p.done = ('break',)
        return [p]

    def st_Continue(self, s, p):
        p.done = ('continue',)
        return [p]

    def st_If(self, s, p):
        t = _truth(self.ev(s.test, p))
        if t is None:
            q = p.fork()
            p.definite = q.definite = False
            return self.block(s.body, [p]) + self.block(s.orelse, [q])
        return self.block(s.body if t else s.orelse, [p])

    def _loop(self, s, p, sure):
        """One trip of the body (the admitted configurations have at least one centre / one sweep); when the
        loop is not known to run (`sure` False) what happens inside is not definite and the zero-trip path is
        kept as well."""
        skip = None if sure else p.fork()
        if not sure:
            p.definite = False
        out = []
        for q in self.block(s.body, [p]):
            if q.done in (('break',), ('continue',)):
                q.done = None
            out.append(q)
        if skip is not None:
            out.append(skip)
        live = [q for q in out if q.done is None]
        dead = [q for q in out if q.done is not None]
        if getattr(s, 'orelse', None):
            live = self.block(s.orelse, live)
        return live + dead

    def st_For(self, s, p):
        it = self.ev(s.iter, p)
        if it == _NONE:
            self.crash(s.iter, 'iteration over `%s`, which is None here' % u(s.iter)[:40], p)
        self.bind(s.target, it[1] if it[0] == 'seq' and it[1] is not None else _UNK, p)
        sure = isinstance(s.iter, ast.Name) or (isinstance(s.iter, ast.Call) and call_name(s.iter) in ('range', 'enumerate'))
        return self._loop(s, p, sure)

    def st_While(self, s, p):
        t = _truth(self.ev(s.test, p))
        if t is False:
            return self.block(s.orelse, [p])
        return self._loop(s, p, False)

    def st_With(self, s, p):
        for it in s.items:
            self.ev(it.context_expr, p)
            if it.optional_vars is not None:
                self.bind(it.optional_vars, _UNK, p)
        return self.block(s.body, [p])

    def st_Try(self, s, p):
        if s.handlers:
            p.definite = False
        out = []
        for q in self.block(s.body, [p]):
            if s.handlers and q.done is not None and q.done[0] in ('crash', 'raise', 'assert'):
                q.done = None                 # may be handled: carry on after the statement, nothing definite
                q.definite = False
            out.append(q)
        live = [q for q in out if q.done is None]
        dead = [q for q in out if q.done is not None]
        live = self.block(s.orelse, live)
        live = self.block(s.finalbody, [q for q in live if q.done is None]) + [q for q in live if q.done is not None]
        return live + dead

    def run(self, env):
        p = _Path(env)
        return self.block(self.fn.body, [p])


def _mode_outcome(paths):
    """('bad', path) when EVERY path of the configuration ends in a raise / a failing assertion / a
    dereference of None;  ('soft', (node, why)) when some path may do so on a None value;  else ('ok', live)."""
    live = [p for p in paths if p.done is None or p.done[0] == 'return']
    dead = [p for p in paths if p not in live]
    if not live and dead:
        dead.sort(key=lambda p: (not p.definite, getattr(p.done[1], 'lineno', 0)))
        return 'bad', dead[0]
    for p in dead:
        if p.done[0] == 'crash':
            return 'soft', (p.done[1], p.done[2])
    for p in live:
        if p.soft:
            return 'soft', p.soft[0]
    return 'ok', live


def _reach(live, node):
    a = [id(node) in p.reached for p in live]
    m = [id(node) in p.maybe for p in live]
    if live and all(a):
        return 'always'
    if not any(a) and not any(m):
        return 'never'
    return 'maybe'


def _run_modes(ck, rule, mod, q, fn, modes, expectations):
    """modes: [(description, env)];  expectations(description) -> [(node, 'always'|'never', what, why)].
    Returns {description: live paths} for the configurations that pass."""
    ck.analysed(mod, fn)
    out = {}
    for desc, env in modes:
        full = {a: _UNK for a in params(fn)}
        full.update(env)
        world = full.pop(_WORLD, 'serial')
        try:
            paths = _ModeEval(mod, fn, world).run(full)
        except _TooMany:
            ck.missing(rule, '%s, %s: too many paths' % (q, desc))
            continue
        kind, x = _mode_outcome(paths)
        if kind == 'bad':
            d = x.done
            node = d[1]
            what = {'raise': 'raises', 'assert': 'fails the assertion', 'crash': 'fails'}[d[0]]
            ck.bad(rule, mod, node, q, '%s: %s' % (desc, u(node)[:120]),
                   'for the admitted configuration "%s" %s %s at `%s`%s and never reaches the sweeps: every branch '
                   'condition on the way is decided by the configuration (which optional arguments are None, plain '
                   'frame indices vs (owner, frame) pairs, a serial run) - the guard that selects this branch is '
                   'inverted, weakened or applied to the wrong argument'
                   % (desc, q, what, u(node)[:100], ' (%s)' % d[2] if d[0] == 'crash' else ''))
            continue
        if kind == 'soft':
            node, why = x
            ck.missing(rule, '%s, %s: %s may be evaluated (%s) - the guarding condition is not decided by the configuration'
                       % (q, desc, u(node)[:60], why[:100]))
            continue
        live = x
        out[desc] = live
        good = True
        for node, want, what, why in expectations(desc):
            got = _reach(live, node)
            if got == want:
                continue
            good = False
            if got == 'maybe':
                ck.missing(rule, '%s, %s: whether %s is executed depends on a condition the configuration does not decide' % (q, desc, what))
            else:
                ck.bad(rule, mod, node, q, '%s: %s' % (desc, what),
                       'for the admitted configuration "%s", %s %s in %s: %s' % (
                           desc, what, 'is never executed' if want == 'always' else 'is executed', q, why))
        if good:
            ck.ok(rule, mod, fn, '%s: %s' % (q, desc), 'reaches its result without raise; the branches taken are those of the configuration')
    return out


def d8_modes(ck, R):
    rule = 'C09.D8.modes'
    mod = ck.repo.mod(KM)
    k_flat, k_pair = _seq(_SCALAR, 'k'), _seq(_PAIR, 'k')

    def named(fn, *cands):
        ps = params(fn)
        for c in cands:
            if c in ps:
                return c
        return None

    # ---- kmedoids() and the input normalisation: which start state is supplied
    fin = mod.func(INPUTS)
    ips = params(fin)
    fk = mod.func('kmedoids')
    if len(ips) >= 7:
        X, DM, NC, A, D, CCI, XL = ips[:7]

        def start_modes(m):
            # m: role -> parameter name
            return [
                ('cold start (n_clusters only)', {m[CCI]: _NONE, m[NC]: _OBJ, m[A]: _NONE, m[D]: _NONE, m[XL]: _NONE}),
                ('state inferred from (assignments, distances)', {m[CCI]: _NONE, m[NC]: _NONE, m[A]: _OBJ, m[D]: _OBJ, m[XL]: _NONE}),
                ('warm start (centre indices, assignments, distances)', {m[CCI]: k_flat, m[NC]: _NONE, m[A]: _OBJ, m[D]: _OBJ, m[XL]: _NONE}),
                ('warm start with n_clusters', {m[CCI]: k_flat, m[NC]: _OBJ, m[A]: _OBJ, m[D]: _OBJ, m[XL]: _NONE}),
                ('warm start, centres as (trajectory, frame) + X_lengths', {m[CCI]: k_pair, m[NC]: _NONE, m[A]: _OBJ, m[D]: _OBJ, m[XL]: _OBJ}),
                ('centre indices only', {m[CCI]: k_flat, m[NC]: _NONE, m[A]: _NONE, m[D]: _NONE, m[XL]: _NONE}),
            ]
        fi = finfo(mod, fin)
        draws = [c for c in calls_in(fin) if isinstance(c.func, ast.Attribute) and c.func.attr in (
            'choice', 'permutation', 'randint', 'integers', 'random_integers', 'sample', 'shuffle')]
        finds = [c for c in calls_in(fin) if _last(call_name(c)) == 'find_cluster_centers']
        assigns = [c for c in calls_in(fin) if _last(call_name(c)) == 'assign_to_nearest_center']
        convs = []
        for s in assigns_to(fin, CCI):
            if isinstance(s, ast.Assign) and fi.def_value(s, CCI) is not None and XL in names_loaded(fi.expand(fi.def_value(s, CCI), stop=(CCI, XL))):
                convs.append(s)

        def expect_inputs(desc):
            cold = desc.startswith('cold')
            out = []
            for c in draws:
                out.append((c, 'always' if cold else 'never', 'the random draw of initial centres `%s`' % u(c)[:60],
                            'initial centres are drawn exactly when neither centres nor a state are supplied; a supplied '
                            'state must reach the sweeps as it is'))
            for c in finds:
                out.append((c, 'always' if desc.startswith('state inferred') else 'never', 'the inference of the centres `%s`' % u(c)[:60],
                            'the centres are inferred from (assignments, distances) exactly when these are supplied without centre indices'))
            for c in assigns:
                out.append((c, 'always' if cold or desc.startswith('centre indices only') else 'never',
                            'the assignment of all frames to the start centres `%s`' % u(c)[:60],
                            'labels and distances are computed exactly when they are not supplied; supplied labels/distances '
                            'must not be replaced'))
            for s in convs:
                out.append((s, 'always' if '(trajectory, frame)' in desc else 'never',
                            'the (trajectory, frame) -> frame index conversion `%s`' % u(s)[:60],
                            'centre indices are converted through the trajectory lengths exactly when they are given as pairs'))
            return out
        _run_modes(ck, rule, mod, INPUTS, fin, start_modes({p: p for p in ips[:7]}), expect_inputs)

        # kmedoids(): roles of its parameters through the call of the input normalisation
        fik = finfo(mod, fk)
        ic = [c for c in calls_in(fk) if _last(call_name(c)) == INPUTS]
        role = {}
        for c in ic[:1]:
            b = _bind(c, fin, mod)
            for p_ in (NC, A, D, CCI, XL):
                r = _param_root(fik, b.get(p_), through=()) if b is not None and b.get(p_) is not None else None
                role[p_] = r if r is not None else (p_ if p_ in params(fk) else None)
        if len(role) == 5 and all(role.values()) and len(set(role.values())) == 5:
            mpis = [c for c in calls_in(fk) if _last(call_name(c)) == INPUTS + '_mpi']
            sweeps = [c for c in calls_in(fk) if _last(call_name(c)) == SWEEPS]

            def expect_k(desc):
                if desc.startswith('MPI run'):
                    # several ranks: the start state is normalised by the MPI variant (centre indices become
                    # (owner rank, local frame) pairs), never by the serial one (rank-local plain indices would
                    # make every rank refine its own clustering)
                    out = [(c, 'never', 'the serial input normalisation `%s(...)`' % INPUTS,
                            'a run on several ranks (mpi.size() > 1) must not normalise its start state through the serial %s: '
                            'the centre indices stay rank-local frame numbers, every rank then sweeps its own clustering' % INPUTS) for c in ic]
                    out += [(c, 'always', 'the MPI input normalisation `%s_mpi(...)`' % INPUTS,
                             'a run on several ranks (mpi.size() > 1) converts the centre indices to (owner rank, frame) pairs through %s_mpi' % INPUTS) for c in mpis]
                else:
                    out = [(c, 'always', 'the serial input normalisation `%s(...)`' % INPUTS, 'a serial run (mpi.size() == 1) normalises its start state through %s' % INPUTS) for c in ic]
                    out += [(c, 'never', 'the MPI input normalisation `%s_mpi(...)`' % INPUTS, 'a serial run (mpi.size() == 1) must not take the MPI path') for c in mpis]
                out += [(c, 'always', 'the sweeps `%s(...)`' % SWEEPS, 'the sweeps are the result of kmedoids()') for c in sweeps]
                return out
            kmodes = start_modes(role)
            if mpis:
                m = role
                kmodes += [
                    ('MPI run (mpi.size() > 1), warm start, centres as (trajectory, frame) + X_lengths',
                     {m[CCI]: k_pair, m[NC]: _NONE, m[A]: _OBJ, m[D]: _OBJ, m[XL]: _OBJ, _WORLD: 'mpi'}),
                    ('MPI run (mpi.size() > 1), warm start, plain centre indices + X_lengths',
                     {m[CCI]: k_flat, m[NC]: _NONE, m[A]: _OBJ, m[D]: _OBJ, m[XL]: _OBJ, _WORLD: 'mpi'})]
            _run_modes(ck, rule, mod, 'kmedoids', fk, kmodes, expect_k)
        else:
            ck.missing(rule, 'roles of the parameters of kmedoids() (through its call of %s)' % INPUTS)
    else:
        ck.missing(rule, 'parameters of %s' % INPUTS)

    # ---- library use: args is None -> nothing of the application's output code runs
    for rel, q in ((KM, SWEEPS), (HY, 'hybrid')):
        m = ck.repo.mod(rel)
        f = m.func(q)
        a = named(f, 'args')
        if a is not None and isinstance(param_default(f, a), ast.Constant) and param_default(f, a).value is None:
            _run_modes(ck, rule, m, q, f, [('library call (args=None)', {a: _NONE})], lambda d: [])

    # ---- estimator constructor: one of n_clusters / cluster_radius suffices; serial by default
    mh = ck.repo.mod(HY)
    init = mh.functions.get('KHybrid.__init__')
    if init is not None:
        nc, cr, mm = named(init, 'n_clusters'), named(init, 'cluster_radius'), named(init, 'mpi_mode')
        if nc and cr:
            base = {mm: _NONE} if mm else {}
            lives = _run_modes(ck, rule, mh, 'KHybrid.__init__', init, [
                ('KHybrid(metric, n_clusters=k)', dict(base, **{nc: _OBJ, cr: _NONE})),
                ('KHybrid(metric, cluster_radius=r)', dict(base, **{nc: _NONE, cr: _OBJ})),
                ('KHybrid(metric, n_clusters=k, cluster_radius=r)', dict(base, **{nc: _OBJ, cr: _OBJ}))], lambda d: [])
            for desc, live in lives.items():
                vals = {p.attrs.get(mm) for p in live} if mm else set()
                if vals == {('bool', True)}:
                    st = [s for s in walk_local(init) if isinstance(s, ast.Assign) and any(
                        isinstance(t, ast.Attribute) and t.attr == mm for t in s.targets)]
                    ck.bad(rule, mh, st[0] if st else init, 'KHybrid.__init__', 'self.%s in a serial run' % mm,
                           'with %s=None in a serial run (mpi.size() == 1) the estimator must select the serial algorithm; '
                           'here self.%s is True: both stages run their MPI variant and the centre indices come back as '
                           '(rank, frame) pairs' % (mm, mm))
                    break
            if mm:
                # ... and the MPI algorithm on several ranks
                lives = _run_modes(ck, rule, mh, 'KHybrid.__init__', init, [
                    ('MPI run (mpi.size() > 1), KHybrid(metric, n_clusters=k)', {mm: _NONE, nc: _OBJ, cr: _NONE, _WORLD: 'mpi'})], lambda d: [])
                for desc, live in lives.items():
                    if {p.attrs.get(mm) for p in live} == {('bool', False)}:
                        st = [s for s in walk_local(init) if isinstance(s, ast.Assign) and any(
                            isinstance(t, ast.Attribute) and t.attr == mm for t in s.targets)]
                        ck.bad(rule, mh, st[0] if st else init, 'KHybrid.__init__', 'self.%s in a run on several ranks' % mm,
                               'with %s=None in a run on several ranks (mpi.size() > 1) the estimator must select the MPI '
                               'algorithm; here self.%s is False: every rank clusters its own stripe of the data as if it '
                               'were the whole data set' % (mm, mm))

    # ---- the PAM update: explicit proposals vs random draw; plain indices vs (owner, frame) pairs
    if R is None:
        return
    fn = R.fn
    P = R.proposals or named(fn, 'proposals')
    n = 'n'
    common = {R.X: _seq(None, n), R.pA: _seq(_SCALAR, n), R.pD: _seq(_SCALAR, n)}
    if P is None:
        ck.missing(rule, 'parameter of %s that carries the explicit proposals' % PAM)
        return
    # (owner, frame) pairs belong to a run on several ranks; the owner of a valid pair is one of them
    k_own = _seq(_PAIR_MPI, 'k')
    modes = [('serial, random proposals', dict(common, **{R.pMI: k_flat, P: _NONE})),
             ('serial, explicit proposals', dict(common, **{R.pMI: k_flat, P: k_flat})),
             ('(owner, frame) indices, random proposals', dict(common, **{R.pMI: k_own, P: _NONE, _WORLD: 'mpi'})),
             ('(owner, frame) indices, explicit proposals', dict(common, **{R.pMI: k_own, P: k_own, _WORLD: 'mpi'}))]
    fnp = mod.func(PROPOSER)
    pcalls = [c for c in calls_in(fn) if _last(call_name(c)) == PROPOSER]
    dfr = [c for c in calls_in(fn) if _last(call_name(c)) == 'distribute_frame']

    def expect_pam(desc):
        out = []
        for c in pcalls:
            out.append((c, 'always' if 'random' in desc else 'never', 'the random draw `%s(...)`' % PROPOSER,
                        'a proposal is drawn exactly when no explicit proposals are supplied (explicit proposals make the outcome reproducible)'))
        if desc.startswith('serial'):
            for c in dfr:
                out.append((c, 'never', 'the fetch `%s`' % u(c)[:70], 'with plain frame indices every coordinate is a frame of the local data; '
                            'distribute_frame needs an (owner, frame) pair'))
        return out
    lives = _run_modes(ck, rule, mod, PAM, fn, modes, expect_pam)
    # the flag handed to the proposer says which kind of index this run uses
    pps = params(fnp)
    if len(pps) >= 3:
        for desc, live in lives.items():
            want = not desc.startswith('serial')
            for c in pcalls:
                b = _bind(c, fnp, mod)
                arg = b.get(pps[2]) if b is not None else None
                if arg is None:
                    continue
                vals = set()
                for p in live:
                    avs, kws = p.callargs.get(id(c), ([], {}))
                    for k, a_ in enumerate(c.args):
                        if a_ is arg and k < len(avs):
                            vals.add(avs[k])
                    for kw in c.keywords:
                        if kw.value is arg:
                            vals.add(kws.get(kw.arg))
                if vals == {('bool', not want)}:
                    ck.bad(rule, mod, c, PAM, '%s: %s=%s' % (desc, pps[2], u(arg)[:60]),
                           'the proposer is told %s=%s although the centre indices of this run are %s: it returns the other '
                           'kind of index, which is committed into the index list' % (
                               pps[2], not want, 'plain frame numbers' if not want else '(owner, frame) pairs'))
    # ---- the proposer: serial draw iff not mpi_mode
    if len(pps) >= 4:
        ser = [c for c in calls_in(fnp) if isinstance(c.func, ast.Attribute) and c.func.attr == 'choice']
        par = [c for c in calls_in(fnp) if _last(call_name(c)) in ('randind', 'distribute_frame')]

        def expect_prop(desc):
            s = desc.startswith('serial')
            return [(c, 'always' if s else 'never', 'the serial draw `%s`' % u(c)[:60], 'the serial draw returns a plain frame index') for c in ser] + \
                   [(c, 'never' if s else 'always', 'the MPI step `%s`' % u(c)[:60], 'the MPI draw returns an (owner, frame) pair') for c in par]
        _run_modes(ck, rule, mod, PROPOSER, fnp, [('serial (%s=False)' % pps[2], {pps[2]: ('bool', False)}),
                                                 ('MPI (%s=True)' % pps[2], {pps[2]: ('bool', True)})], expect_prop)


def fact_node(f):
    if isinstance(f, Cmp):
        return ast.Compare(left=f.lhs, ops=[f.op()], comparators=[f.rhs])
    return f[1]


def _guarded(ck, rule, f, *args):
    """An unforeseen shape inside one clause must not hide the findings of the
    others: it is reported as analysis-incomplete for that clause."""
    import os
    try:
        return f(*args)
    except AnalysisIncomplete:
        raise
    except Exception as e:            # pragma: no cover
        if os.environ.get('C09_DEBUG'):
            raise
        ck.missing(rule, 'construct not analysable (%s: %s)' % (type(e).__name__, str(e)[:120]))
        return None


def check(ck):
    d7_state_private(ck)
    R = _guarded(ck, 'C09.D2.atomic', _roles, ck)
    _guarded(ck, 'C09.D1.accept', d1_accept, ck, R)
    _guarded(ck, 'C09.D1.cost', d1_cost, ck, R)
    _guarded(ck, 'C09.D2.atomic', d2_atomic, ck, R)
    _guarded(ck, 'C09.D2.atomic.wiring', d2_wiring, ck, R)
    _guarded(ck, 'C09.D3.members', d3_members, ck, R)
    seed = _guarded(ck, 'C09.D5.seed', d5_seed, ck, R)
    _guarded(ck, 'C09.D4.handover', d4_hybrid, ck, seed)
    d6_definite(ck)
    _guarded(ck, 'C09.D8.warm-start', d8_warm_start, ck)
    _guarded(ck, 'C09.D8.cold-start.distinct-draw', d8_cold_draw, ck)
    _guarded(ck, 'C09.D5.seed.per-run', d5_seed_per_run, ck, seed)
    _guarded(ck, 'C09.D9.start-state-assert', d9_start_state_asserts, ck)
    _guarded(ck, 'C09.D8.modes', d8_modes, ck, R)
    _guarded(ck, 'C09.D3.data-metric', d3_data_metric, ck, R)
    _guarded(ck, 'C09.D9.sweep-asserts', d9_sweep_asserts, ck, R)
    return EXPLANATION

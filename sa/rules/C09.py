"""C09 K-medoids refinement: accept test, atomic commit, proposals, seed flow."""
import ast

from ..cfg import ENTRY, EXIT, Assume, header_uses, stmt_defs
from ..core import (AnalysisIncomplete, call_name, kwarg, names_loaded,
                    params, target_names, u, walk_expr, walk_local, dotted)
from ..patterns import (Cmp, assigns_to, calls_in, conjuncts, finfo,
                        returns_of, subscript_stores, shared)
from .cluster_common import KC, KM, HY, CU

EXPLANATION = (
    'Static decision of the structural necessary conditions of C09: (D1) the '
    'commit branch of the PAM update is guarded by cost(candidate) < '
    'cost(current) with both costs from the same callable and operand '
    'provenance checked; (D2) inside the per-centre loop the four state '
    'variables are written only in the accept branch and all four there, and '
    'the candidate state lives in fresh storage; (D3) the proposal is drawn '
    'from where(assignments == cid) and is a frame of X; (D4) k-hybrid hands '
    'the k-centers result fields to the sweeps unchanged; (D5) random_state is '
    'threaded through every call level and no module-level RNG is used; (D6) '
    'definite assignment of the returned result. The cost values themselves '
    'are not decided.')


def _pam(ck):
    mod = ck.repo.mod(KM)
    fn = mod.func('_kmedoids_pam_update')
    ck.analysed(mod, fn)
    return mod, fn, finfo(mod, fn)


def d1_accept(ck):
    rule = 'C09.D1.accept'
    mod, fn, fi = _pam(ck)
    # the If whose body stores medoid_inds[...]
    ifs = []
    for n in walk_local(fn):
        if isinstance(n, ast.If):
            body_mod = ast.Module(body=n.body, type_ignores=[])
            if any(isinstance(t, ast.Subscript) and u(t.value) == 'medoid_inds'
                   for s in ast.walk(body_mod) if isinstance(s, ast.Assign)
                   for t in s.targets):
                ifs.append((n, True))
            else_mod = ast.Module(body=n.orelse, type_ignores=[])
            if any(isinstance(t, ast.Subscript) and u(t.value) == 'medoid_inds'
                   for s in ast.walk(else_mod) if isinstance(s, ast.Assign)
                   for t in s.targets):
                ifs.append((n, False))
    if len(ifs) != 1:
        ck.missing(rule, 'accept branch (the branch storing medoid_inds[cid]); found %d' % len(ifs))
        return None
    node, pol = ifs[0]
    cs = conjuncts(node.test, pol)
    if cs is None or len(cs) != 1 or not isinstance(cs[0], Cmp):
        ck.bad(rule, mod, node, '_kmedoids_pam_update', u(node.test),
               'the accept test must be a single cost comparison')
        return node, pol
    less = cs[0].as_less()
    if less is None:
        ck.bad(rule, mod, node, '_kmedoids_pam_update', u(node.test),
               'the accept test must be an ordering of two costs')
        return node, pol
    small, strict, big = less
    # provenance of both operands
    def cost_of(e):
        v = fi.resolve(e) if isinstance(e, ast.Name) else e
        if isinstance(v, ast.Call) and len(v.args) == 1:
            return u(v.func), u(v.args[0])
        return None, None
    f1, a1 = cost_of(small)
    f2, a2 = cost_of(big)
    ok = f1 is not None and f1 == f2 and f1 in params(fn) and a1 == 'new_dist' and a2 == 'distances'
    ck.check(ok, rule, mod, node, '_kmedoids_pam_update',
             '%s  [%s = %s(%s), %s = %s(%s)]' % (cs[0], u(small), f1, a1, u(big), f2, a2),
             'commit only if cost(candidate distances) %s cost(current distances)' % ('<' if strict else '<='),
             'the branch that commits the candidate must be taken only when '
             'cost(new_dist) < cost(distances) with both costs from the same `cost` '
             'callable; found small side %s(%s), big side %s(%s): a reversed or '
             'mismatched comparison lets a sweep increase the cost' % (f1, a1, f2, a2))
    # the two costs must be computed after the candidate is complete: i.e.
    # after every store into new_dist
    cost_stmt = None
    for nm in (small, big):
        if isinstance(nm, ast.Name):
            for site in fi.defs_of_use(nm):
                if hasattr(site, 'lineno') and 'new_dist' in names_loaded(site.value if hasattr(site, 'value') else site):
                    cost_stmt = site
    if cost_stmt is not None:
        late = [s for s, t in subscript_stores(fn, 'new_dist')
                if fi.cfg.reachable(cost_stmt, s, avoiding=[_loop_of(mod, cost_stmt)])]
        ck.check(not late, rule + '.complete', mod, cost_stmt, '_kmedoids_pam_update', u(cost_stmt),
                 'candidate cost is computed after the last store into the candidate distances',
                 'a store into new_dist follows the cost computation within the same trip')
    return node, pol


def _loop_of(mod, node):
    p = mod.parent.get(node)
    while p is not None and not isinstance(p, (ast.For, ast.While)):
        p = mod.parent.get(p)
    return p


def d2_atomic(ck, accept):
    rule = 'C09.D2.atomic'
    mod, fn, fi = _pam(ck)
    if accept is None:
        return
    node, pol = accept
    branch = node.body if pol else node.orelse
    loop = _loop_of(mod, node)
    if loop is None:
        ck.missing(rule, 'per-centre loop around the accept test')
        return
    # state variables: the names returned by the function
    rets = returns_of(fn)
    if len(rets) != 1 or not isinstance(rets[0].value, ast.Tuple):
        ck.missing(rule, 'single tuple return of the PAM update')
        return
    state = [u(e) for e in rets[0].value.elts]
    want = ['medoid_inds', 'distances', 'assignments', 'medoid_coords']
    ck.check(state == want, rule + '.return', mod, rets[0], '_kmedoids_pam_update', u(rets[0]),
             'returns (indices, distances, assignments, coordinates)',
             'return order must be (medoid_inds, distances, assignments, medoid_coords); '
             'callers unpack it positionally')
    branch_nodes = set()
    for s in branch:
        for x in ast.walk(s):
            branch_nodes.add(x)
    writes_in_branch = set()
    for var in state:
        writes = []
        for s in walk_local(loop):
            if isinstance(s, (ast.Assign, ast.AugAssign, ast.AnnAssign)):
                tgts = s.targets if isinstance(s, ast.Assign) else [s.target]
                for t in tgts:
                    for tt in (t.elts if isinstance(t, (ast.Tuple, ast.List)) else [t]):
                        if isinstance(tt, ast.Name) and tt.id == var:
                            writes.append(s)
                        elif isinstance(tt, (ast.Subscript, ast.Attribute)) and u(tt.value) == var:
                            writes.append(s)
            if isinstance(s, ast.Call) and isinstance(s.func, ast.Attribute) and \
                    u(s.func.value) == var and s.func.attr in (
                        'append', 'extend', 'insert', 'pop', 'remove', 'sort', 'fill', 'clear'):
                writes.append(s)
        outside = [w for w in writes if w not in branch_nodes]
        inside = [w for w in writes if w in branch_nodes]
        for w in outside:
            ck.bad(rule + '.only-in-accept', mod, w, '_kmedoids_pam_update', u(w)[:160],
                   'current state variable `%s` is written outside the accept branch: '
                   'part of the candidate is committed before/without the decision' % var)
        if inside:
            writes_in_branch.add(var)
        ck.check(bool(inside), rule + '.all-four', mod, node, '_kmedoids_pam_update',
                 'accept branch writes %s' % var,
                 '`%s` is replaced in the accept branch' % var,
                 'the accept branch does not update `%s`: the accepted candidate is '
                 'committed only partially (labels/distances/coordinates/indices go out of step)' % var)
    # values committed are the candidate ones
    pairs = {'distances': 'new_dist', 'assignments': 'new_assig', 'medoid_coords': 'new_medoids'}
    for s in branch:
        if isinstance(s, ast.Assign):
            t = s.targets[0]
            if isinstance(t, ast.Tuple) and isinstance(s.value, ast.Tuple):
                for te, ve in zip(t.elts, s.value.elts):
                    if u(te) in pairs:
                        ck.check(u(ve) == pairs[u(te)], rule + '.values', mod, s,
                                 '_kmedoids_pam_update', '%s = %s' % (u(te), u(ve)),
                                 'current %s takes the candidate' % u(te),
                                 '`%s` must be replaced by the candidate `%s`, found `%s`' % (u(te), pairs[u(te)], u(ve)))
            elif isinstance(t, ast.Name) and t.id in pairs:
                ck.check(u(s.value) == pairs[t.id], rule + '.values', mod, s,
                         '_kmedoids_pam_update', u(s), 'current %s takes the candidate' % t.id,
                         '`%s` must be replaced by the candidate `%s`' % (t.id, pairs[t.id]))
            elif isinstance(t, ast.Subscript) and u(t.value) == 'medoid_inds':
                ok = u(t.slice) == u(loop.target) and u(s.value) == 'proposed_center_ind'
                ck.check(ok, rule + '.values', mod, s, '_kmedoids_pam_update', u(s),
                         'index of the replaced centre takes the proposal index',
                         'medoid_inds[<loop centre>] must take proposed_center_ind')
    # candidate storage is fresh
    for name in ('new_dist', 'new_assig'):
        for s in assigns_to(loop, name):
            if isinstance(s, ast.Assign):
                v = s.value
                fresh = isinstance(v, (ast.BinOp,)) or (isinstance(v, ast.Call) and (
                    call_name(v) or '').split('.')[-1] in (
                        'zeros_like', 'full_like', 'empty_like', 'full', 'zeros', 'copy', 'array'))
                ck.check(fresh, rule + '.fresh', mod, s, '_kmedoids_pam_update', u(s),
                         'candidate array is freshly allocated each trip',
                         'candidate array `%s` must be fresh storage, not an alias of the current state' % name)
    nm = [x for x in assigns_to(loop, 'new_medoids') if isinstance(x, ast.Assign)]
    okc = len(nm) == 1 and isinstance(nm[0].value, (ast.Call, ast.Subscript)) and \
        u(nm[0].value) in ('medoid_coords.copy()', 'list(medoid_coords)',
                           'copy.copy(medoid_coords)', 'medoid_coords[:]')
    ck.check(okc, rule + '.fresh', mod, nm[0] if nm else loop, '_kmedoids_pam_update',
             u(nm[0]) if nm else 'new_medoids', 'candidate centre list is a fresh copy of the current one',
             'the candidate centre list must be a COPY of medoid_coords: if it aliases the current '
             'list, `new_medoids[cid] = proposed_center` commits the proposal before the '
             'accept/reject decision and a rejected proposal stays behind')


def d3_members(ck):
    rule = 'C09.D3.members'
    mod, fn, fi = _pam(ck)
    loop = None
    for l in walk_local(fn):
        if isinstance(l, ast.For) and any(
                isinstance(c, ast.Call) and (call_name(c) or '').endswith('_propose_new_center_amongst')
                for c in walk_local(l)):
            loop = l
    if loop is None:
        ck.missing(rule, 'loop calling _propose_new_center_amongst')
        return
    cid = u(loop.target)
    calls = [c for c in calls_in(loop) if (call_name(c) or '').endswith('_propose_new_center_amongst')]
    for c in calls:
        X = c.args[0] if c.args else kwarg(c, 'X')
        si = c.args[1] if len(c.args) > 1 else kwarg(c, 'state_inds')
        okX = u(X) == params(fn)[0]
        v = fi.resolve(si) if isinstance(si, ast.Name) else si
        okS = isinstance(v, ast.Subscript) and u(v.slice) == '0' and isinstance(v.value, ast.Call) \
            and call_name(v.value) == 'np.where' and u(v.value.args[0]) in (
                'assignments == %s' % cid, '%s == assignments' % cid)
        ck.check(okX and okS, rule, mod, c, '_kmedoids_pam_update',
                 '%s with %s = %s' % (u(c)[:100], u(si), u(v)),
                 'proposal drawn among the frames currently assigned to the centre being updated',
                 'the proposal pool must be np.where(assignments == %s)[0] over the data X' % cid)
        rs = kwarg(c, 'random_state') or (c.args[3] if len(c.args) > 3 else None)
        ck.check(rs is not None and u(rs) == 'random_state', 'C09.D5.seed', mod, c,
                 '_kmedoids_pam_update', u(c)[:120], 'random_state forwarded to the proposer',
                 'random_state is not forwarded to _propose_new_center_amongst')
    fnp = mod.func('_propose_new_center_amongst')
    fip = finfo(mod, fnp)
    ck.analysed(mod, fnp)
    ch = [c for c in calls_in(fnp) if isinstance(c.func, ast.Attribute) and c.func.attr == 'choice']
    ok = len(ch) == 1 and u(ch[0].func.value) == 'random_state' and ch[0].args and u(ch[0].args[0]) == 'state_inds'
    ck.check(ok, rule, mod, ch[0] if ch else fnp, '_propose_new_center_amongst',
             u(ch[0]) if ch else 'random_state.choice(state_inds)',
             'serial proposal = random_state.choice(state_inds)',
             'serial proposal must be random_state.choice(state_inds)')
    ri = [c for c in calls_in(fnp) if (call_name(c) or '').endswith('randind')]
    ok = len(ri) == 1 and len(ri[0].args) >= 2 and u(ri[0].args[0]) == 'state_inds' and u(ri[0].args[1]) == 'random_state'
    ck.check(ok, rule, mod, ri[0] if ri else fnp, '_propose_new_center_amongst',
             u(ri[0]) if ri else 'randind', 'MPI proposal = randind(state_inds, random_state)',
             'MPI proposal must be mpi.ops.randind(state_inds, random_state)')
    # the rank-r broadcast sends state_inds[idx]
    bc = [c for c in calls_in(fnp) if (call_name(c) or '').endswith('comm.bcast')]
    sends = [c for c in bc if c.args and u(c.args[0]) != 'None']
    ok = len(sends) == 1 and u(sends[0].args[0]) == 'state_inds[idx]'
    ck.check(ok, rule, mod, sends[0] if sends else fnp, '_propose_new_center_amongst',
             u(sends[0]) if sends else 'bcast', 'owner broadcasts the member frame index state_inds[idx]',
             'the owner must broadcast state_inds[idx] (a member frame), not the position idx')


def d4_hybrid(ck):
    rule = 'C09.D4.handover'
    mod = ck.repo.mod(HY)
    fn = mod.func('hybrid')
    fi = finfo(mod, fn)
    ck.analysed(mod, fn)
    calls = [c for c in calls_in(fn) if (call_name(c) or '').endswith('_kmedoids_iterations')]
    if len(calls) != 1:
        ck.missing(rule, '_kmedoids_iterations call in hybrid')
        return
    c = calls[0]
    modk = ck.repo.mod(KM)
    ps = params(modk.func('_kmedoids_iterations'))
    bind = {}
    for i, a in enumerate(c.args):
        bind[ps[i]] = a
    for k in c.keywords:
        bind[k.arg] = k.value
    want = {'cluster_center_inds': 'center_indices', 'assignments': 'assignments',
            'distances': 'distances'}
    kc = [x for x in calls_in(fn) if (call_name(x) or '').endswith('kcenters.kcenters')]
    if len(kc) != 1:
        ck.missing(rule, 'kcenters.kcenters call in hybrid')
        return
    res_assign = fi.stmt(kc[0])
    resname = res_assign.targets[0].id if isinstance(res_assign, ast.Assign) and isinstance(res_assign.targets[0], ast.Name) else None
    for p, field in want.items():
        a = bind.get(p)
        v = a
        if isinstance(a, ast.Name):
            defs = fi.defs_of_use(a)
            ok_single = len(defs) == 1
            site = next(iter(defs)) if ok_single else None
            v = fi.def_value(site, a.id) if site is not None and site not in ('PARAM', 'UNBOUND') else None
        ok = v is not None and u(v) == '%s.%s' % (resname, field)
        ck.check(ok, rule, mod, c, 'hybrid', '%s=%s (= %s)' % (p, u(a), u(v) if v is not None else '?'),
                 'k-medoids starts from the k-centers %s unchanged' % field,
                 'the `%s` handed to the sweeps must be the k-centers result field `%s` '
                 'with no intervening redefinition' % (p, field))
    ok = u(bind.get('X')) == params(fn)[0] and u(bind.get('distance_method')) == 'distance_method' \
        and u(bind.get('n_iters')) == 'n_iters'
    ck.check(ok, rule, mod, c, 'hybrid', u(c)[:160], 'same data, metric and sweep count',
             'data/metric/n_iters handed to the sweeps differ from hybrid\'s own')
    rs = bind.get('random_state')
    ck.check(rs is not None and u(rs) == 'random_state', 'C09.D5.seed', mod, c, 'hybrid', u(c)[:160],
             'random_state forwarded to the sweeps', 'random_state is dropped between hybrid and the sweeps')
    # same metric is used for both stages
    a = kc[0].args
    ck.check(len(a) >= 2 and u(a[0]) == params(fn)[0] and u(a[1]) == 'distance_method',
             rule, mod, kc[0], 'hybrid', u(kc[0])[:160], 'k-centers stage uses the same data and metric',
             'k-centers stage must run on (X, distance_method)')
    # n_iters == 0 path returns the k-centers state
    guard_ok = False
    for n in walk_local(fn):
        if isinstance(n, ast.If) and 'n_iters' in names_loaded(n.test):
            guard_ok = True
    ck.check(guard_ok, 'C09.D6.zero-sweeps', mod, fn, 'hybrid', 'if n_iters > 0',
             'hybrid guards the zero-sweep case', 'hybrid calls the sweeps with n_iters == 0')


def d5_seed(ck):
    rule = 'C09.D5.seed'
    mod = ck.repo.mod(KM)
    # kmedoids -> _kmedoids_iterations -> _kmedoids_pam_update
    chain = [('kmedoids', '_kmedoids_iterations'), ('_kmedoids_iterations', '_kmedoids_pam_update')]
    for caller, callee in chain:
        fn = mod.func(caller)
        ck.analysed(mod, fn)
        cs = [c for c in calls_in(fn) if (call_name(c) or '').split('.')[-1] == callee]
        if not cs:
            ck.missing(rule, 'call %s -> %s' % (caller, callee))
            continue
        for c in cs:
            rs = kwarg(c, 'random_state')
            ck.check(rs is not None and u(rs) == 'random_state', rule, mod, c, caller, u(c)[:140],
                     'random_state forwarded %s -> %s' % (caller, callee),
                     'random_state is not forwarded from %s to %s: seeded runs are not reproducible' % (caller, callee))
            pr = kwarg(c, 'proposals')
            if 'proposals' in params(fn):
                ck.check(pr is not None and u(pr) == 'proposals', rule + '.proposals', mod, c, caller, u(c)[:140],
                         'explicit proposals forwarded', 'explicit proposals are dropped on the way to the update')
    # no module-level RNG use in enspara/cluster
    n = 0
    for rel in (KC, KM, HY, CU):
        m = ck.repo.mod(rel)
        for q, fn in m.functions.items():
            for c in calls_in(fn):
                cn = call_name(c) or ''
                if cn.startswith('np.random.') and cn not in ('np.random.default_rng', 'np.random.RandomState', 'np.random.seed'):
                    n += 1
                    ck.bad(rule + '.global-rng', m, c, q, u(c)[:120],
                           'module-level numpy RNG bypasses the random_state argument')
                if cn in ('np.random.default_rng',):
                    seed = kwarg(c, 'seed') or (c.args[0] if c.args else None)
                    ck.check(seed is not None and u(seed) == 'random_state', rule + '.global-rng', m, c, q, u(c),
                             'generator seeded from random_state', 'default_rng is not seeded from random_state')
    # proposals used when supplied
    mod2, fn2, fi2 = _pam(ck)
    st = [s for s in assigns_to(fn2, 'proposed_center_ind') if isinstance(s, ast.Assign) and isinstance(s.targets[0], ast.Name)]
    ok = any(u(s.value).startswith('proposals[') for s in st)
    ck.check(ok, rule + '.proposals', mod2, st[0] if st else fn2, '_kmedoids_pam_update',
             '; '.join(u(s) for s in st), 'supplied proposals are used positionally per centre',
             'supplied proposals are never read')


def d6_definite(ck):
    rule = 'C09.D6.definite-assignment'
    mod = ck.repo.mod(KM)
    for q in ('_kmedoids_iterations', '_kmedoids_pam_update', 'kmedoids', '_kmedoids_inputs_tree'):
        fn = mod.func(q)
        fi = finfo(mod, fn)
        ck.analysed(mod, fn)
        n = 0
        for s in fi.cfg.nodes:
            if s in (ENTRY, EXIT) or isinstance(s, Assume):
                continue
            for nm in header_uses(s):
                if nm.id not in fi.rd.locals:
                    continue
                n += 1
                if fi.rd.possibly_unbound(s, nm.id):
                    if q == '_kmedoids_pam_update' and nm.id in ('old_cost', 'new_cost'):
                        # read after the per-centre loop; the loop has at least one
                        # trip because medoid_inds[0] is subscripted before it
                        ck.ok(rule, mod, s, 'read of %s' % nm.id,
                              'loop over range(len(medoid_inds)) cannot be zero-trip: medoid_inds[0] is read on every path before it')
                        continue
                    defs = [d for d in fi.cfg.nodes if d not in (ENTRY, EXIT)
                            and not isinstance(d, Assume) and nm.id in stmt_defs(d)]
                    path = fi.cfg.path(ENTRY, s, avoiding=defs)
                    wit = ' -> '.join(fi.cfg.describe(x) for x in (path or [])[:14])
                    ck.bad(rule, mod, s, q, 'read of `%s` in: %s' % (nm.id, u(s)[:100]),
                           '`%s` is bound only inside a loop that runs zero times for an '
                           'admissible argument (n_iters=0): UnboundLocalError' % nm.id, wit)
        ck.ok(rule, mod, fn, '%s: %d local reads' % (q, n), 'checked')


def d7_state_private(ck):
    """The supplied start state (centre indices, labels, distances) is not
    written: a rejected proposal leaves no trace and a second run from the
    same state sees the same state (reproducibility with a fixed seed)."""
    from ..patterns import check_no_arg_mutation
    check_no_arg_mutation(ck, 'C09.D7.start-state-unmodified', [
        (KM, 'kmedoids'), (KM, '_kmedoids_iterations'),
        (KM, '_kmedoids_pam_update'), (KM, 'KMedoids.fit'), (HY, 'hybrid')])


def check(ck):
    d7_state_private(ck)
    acc = d1_accept(ck)
    d2_atomic(ck, acc)
    d3_members(ck)
    d4_hybrid(ck)
    d5_seed(ck)
    d6_definite(ck)
    return EXPLANATION

"""C07 Committors and MFPTs: absorbing masking, pins, lag-time linearity,
all-pairs orientation, mode dispatch, sparse contract, inputs unmodified.

Every construct is located by its ROLE (parameter position, "the matrix that
is returned", "the call to the linear solver", "the right-hand side handed to
the solver", "the branch that calls _I_m_Q") and its content is compared after
expansion of temporaries (FuncInfo.expand), inlining of one-expression module
helpers and canonicalisation, against a list of accepted forms.  A located
construct with a different content is a VIOLATION; a construct that cannot be
located / seen through is ANALYSIS-INCOMPLETE."""
import ast
import copy

from .. import symx
from ..cfg import ENTRY, EXIT, Assume, header_exprs, stmt_defs
from ..core import (AnalysisIncomplete, arg_or_kw, call_name, const_value,
                    names_loaded, param_default, params, u, walk_expr,
                    walk_local)
from ..match import _closed_over, canon, classify, match_any
from ..normal import MUTATING_METHODS, is_pure
from ..patterns import (assigns_to, calls_in, check_no_arg_mutation, finfo,
                        returns_of, subscript_stores)

CO = 'enspara/tpt/core.py'
HELPER = '_I_m_Q'
SOL_SYM = 'SOLUTION_'

EXPLANATION = (
    'Static decision of the structural necessary conditions of the committor '
    'and MFPT first-step equations: (D1) no store reaches the transition '
    'matrix, sources, sinks or populations arguments (R = tprob[:, sinks] is '
    'advanced indexing because sinks is an array, hence a copy); (D2) _I_m_Q '
    'builds eye - tprob fresh and performs the three stores absorbing columns '
    ':= 0, absorbing rows := 0, absorbing diagonal := 1 with the diagonal '
    'store last; (D3) R[sinks] = 1 and R[sources] = 0 precede the solve, the '
    'per-sink solutions are summed over axis 1, committors[sinks] = 1 is the '
    'last store before the return, c[sinks] = 0 precedes the MFPT solve, and '
    'the absorbing sets handed to _I_m_Q are sources+sinks resp. sinks; (D4) '
    'every definition of the returned MFPTs has lagtime as a top-level factor '
    'exactly once; (D5) the all-pairs formula lifts to lag*(Z[j,j]-Z[i,j])/'
    'pi[j] with Z = inv(I - T + W) and W rows = populations; (D6) the mode is '
    'selected by `sinks is None` and sparse input is densified before len/'
    'shape. The linear-algebra identities themselves are not decided. '
    'Constructs are located by role (parameters, solver call, returned '
    'object, branch containing the _I_m_Q call) and compared after expansion '
    'of temporaries and inlining of one-expression helpers.')


def check(ck):
    mod = ck.repo.mod(CO)
    d2_masking(ck, mod)
    d3_committors(ck, mod)
    d_mfpts(ck, mod)
    d6_sparse(ck, mod)
    d8_hidden_state(ck, mod)
    check_no_arg_mutation(ck, 'C07.D1.inputs-unmodified', [
        (CO, 'committors'), (CO, 'mfpts'), (CO, '_I_m_Q')])
    return EXPLANATION


# ---------------------------------------------------------------------------
# generic helpers (candidates for promotion to sa/patterns.py)

def _full(e):
    return isinstance(e, ast.Slice) and e.lower is None and e.upper is None and e.step is None


def _nodes(stmts):
    """All nodes of a statement list (nested defs not entered)."""
    return list(walk_local(ast.Module(body=list(stmts), type_ignores=[])))


def _inside(mod, node, outer):
    p = node
    while p is not None:
        if p is outer:
            return True
        p = mod.parent.get(p)
    return False


def _terminates(stmts):
    """The statement list never falls through its end."""
    if not stmts:
        return False
    s = stmts[-1]
    if isinstance(s, (ast.Return, ast.Raise)):
        return True
    if isinstance(s, ast.If):
        return _terminates(s.body) and _terminates(s.orelse)
    return False


def _following(mod, node):
    """Statements that follow `node` in the block that contains it."""
    p = mod.parent.get(node)
    for f in ('body', 'orelse', 'finalbody'):
        block = getattr(p, f, None)
        if isinstance(block, list):
            for i, s in enumerate(block):
                if s is node:
                    return block[i + 1:]
    return []


def branches(mod, node):
    """(true statements, false statements) of an If, insensitive to the
    if/else vs guard-clause spelling: a branch that never falls through turns
    the statements after the If into the other branch."""
    t, f = list(node.body), list(node.orelse)
    rest = _following(mod, node)
    if not f and _terminates(t):
        f = rest
    elif f and _terminates(f) and not _terminates(t):
        t = t + rest
    elif f and _terminates(t) and not _terminates(f):
        f = f + rest
    return t, f


class _Inline(ast.NodeTransformer):
    """Replace calls to module-level helpers whose body is a single
    `return <pure expression>` by that expression (arguments substituted)."""

    def __init__(self, mod):
        self.mod = mod

    def visit_Call(self, node):
        self.generic_visit(node)
        if not isinstance(node.func, ast.Name):
            return node
        f = self.mod.functions.get(node.func.id)
        if f is None or f.decorator_list:
            return node
        a = f.args
        if a.vararg or a.kwarg or a.kwonlyargs or a.posonlyargs:
            return node
        body = [s for s in f.body if not isinstance(s, ast.Pass) and
                not (isinstance(s, ast.Expr) and isinstance(s.value, ast.Constant))]
        if len(body) != 1 or not isinstance(body[0], ast.Return) or body[0].value is None:
            return node
        ret = body[0].value
        if not is_pure(ret):
            return node
        names = [x.arg for x in a.args]
        if any(isinstance(x, ast.Starred) for x in node.args) or any(k.arg is None for k in node.keywords) \
                or len(node.args) > len(names):
            return node
        bind = dict(zip(names, node.args))
        for k in node.keywords:
            if k.arg not in names or k.arg in bind:
                return node
            bind[k.arg] = k.value
        defaults = dict(zip(names[len(names) - len(a.defaults):], a.defaults)) if a.defaults else {}
        for nm in names:
            if nm not in bind:
                if nm not in defaults:
                    return node
                bind[nm] = defaults[nm]
        bound = {t.id for c in ast.walk(ret) if isinstance(c, ast.comprehension)
                 for t in ast.walk(c.target) if isinstance(t, ast.Name)}
        if bound & set(names):
            return node
        for nm, v in bind.items():
            cnt = sum(1 for x in ast.walk(ret) if isinstance(x, ast.Name) and x.id == nm)
            if cnt != 1 and not is_pure(v):
                return node

        class Sub(ast.NodeTransformer):
            def visit_Name(self, n):
                if n.id in bind and isinstance(n.ctx, ast.Load):
                    return copy.deepcopy(bind[n.id])
                return n
        return ast.copy_location(Sub().visit(copy.deepcopy(ret)), node)


def _rebound_value(fi, n, stop, depth):
    """Value of the Name use `n` whose single reaching definition REBINDS the
    name from itself (`B = B.reshape(n, k)`: one statement of a chain that was
    one expression before): the defining expression with the inner uses of
    the name expanded AT THE DEFINITION (there they denote the previous
    binding), provided the name disappears from the result, the object is
    never mutated in place, and every name the result reads has the same
    reaching definitions, and no in-place mutation, between the rebinding and
    the use.  (FuncInfo.temp_value refuses such a definition because the
    operand `B` is rebound between definition and use - by the definition
    itself.)  Returns the expanded tree or None."""
    if not (isinstance(n, ast.Name) and isinstance(n.ctx, ast.Load)) or depth <= 0:
        return None
    try:
        defs = fi.defs_of_use(n)
    except Exception:
        return None
    if len(defs) != 1:
        return None
    site = next(iter(defs))
    if site in ('PARAM', 'UNBOUND') or not isinstance(site, (ast.Assign, ast.AnnAssign)):
        return None
    v = fi.def_value(site, n.id)
    use = fi.stmt(n)
    if v is None or use is None or use is site or isinstance(v, ast.GeneratorExp) or not is_pure(v) or n.id not in names_loaded(v):
        return None
    if fi._mutated_in_place(n.id):
        return None
    X = expand_rebound(fi, v, stop=stop, depth=depth - 1)
    read = names_loaded(X)
    if n.id in read:
        return None
    for m in read:
        if fi.rd.defs_at(site, m) != fi.rd.defs_at(use, m):
            return None
        for ms in fi._mutated_in_place(m):
            if ms is use or ms is site:
                continue
            if fi.cfg.reachable(site, ms) and fi.cfg.reachable(ms, use, avoiding=[site]):
                return None
    return X


def expand_rebound(fi, expr, stop=(), depth=8):
    """FuncInfo.expand that also reads through self-rebinding chains
    (`x = f(...); x = x.g(...); y = x.h()` denotes `f(...).g(...).h()`)."""
    stop = tuple(stop)

    def ex(e, d):
        if isinstance(e, ast.Name):
            if d > 0 and e.id not in stop and isinstance(e.ctx, ast.Load):
                v = fi.temp_value(e, True, stop)
                if v is not None:
                    return ex(v, d - 1)
                r = _rebound_value(fi, e, stop, d)
                if r is not None:
                    return r
            return ast.copy_location(ast.Name(id=e.id, ctx=e.ctx), e)
        if not isinstance(e, ast.AST):
            return e
        if isinstance(e, (ast.expr_context, ast.operator, ast.unaryop, ast.boolop, ast.cmpop)):
            return e
        if isinstance(e, ast.Call) and getattr(e, '_from_np_array', False) and isinstance(e.func, ast.Attribute) \
                and isinstance(e.func.value, ast.Name):
            inner = ex(e.func.value, d)
            if not isinstance(inner, ast.Name):
                return ast.copy_location(ast.Call(
                    func=ast.Attribute(value=ast.Name(id='np', ctx=ast.Load()), attr='array', ctx=ast.Load()),
                    args=[inner], keywords=[]), e)
        new = type(e)()
        for f in e._fields:
            val = getattr(e, f, None)
            if isinstance(val, list):
                setattr(new, f, [ex(x, d) for x in val])
            elif isinstance(val, ast.AST):
                setattr(new, f, ex(val, d))
            else:
                setattr(new, f, val)
        for a in ('lineno', 'col_offset', 'end_lineno', 'end_col_offset', '_from_np_array', '_canon_origin'):
            if hasattr(e, a):
                setattr(new, a, getattr(e, a))
        return new
    return ex(expr, depth)


def xp(fi, mod, e, stop=()):
    """Canonical tree of `e` with temporaries (also self-rebinding chains)
    expanded and one-expression module helpers inlined."""
    t = _Inline(mod).visit(expand_rebound(fi, e, stop=tuple(stop)))
    ast.fix_missing_locations(t)
    return canon(t)


def _rewrite(node, f):
    """Bottom-up rewriting of an expression tree (in place on a private copy)."""
    for name, val in ast.iter_fields(node):
        if isinstance(val, list):
            setattr(node, name, [_rewrite(x, f) if isinstance(x, ast.AST) else x for x in val])
        elif isinstance(val, ast.AST):
            setattr(node, name, _rewrite(val, f))
    return f(node)


def _sym(name):
    return ast.Name(id=name, ctx=ast.Load())


def origin(fi, e):
    """Follow single-definition Name chains to the defining expression; the
    intermediate objects must not be mutated in place.  Returns (expr, ok)."""
    seen = 0
    while isinstance(e, ast.Name) and seen < 8:
        if fi._mutated_in_place(e.id):
            return e, False
        v = fi.resolve(e, depth=1)
        if v is e:
            break
        e = v
        seen += 1
    return e, True


DENSE_FORMS = ['_X.toarray()', '_X.todense()', 'np.asarray(_X)', 'np.asarray(_X.todense())', 'np.asarray(_X.toarray())', '_X.A']


def value_origin(fi, n, depth=8):
    """The expression whose VALUE the Name use `n` denotes: single-definition
    chains are followed, and so are container-only conversions of a name onto
    itself (`if issparse(B): B = B.toarray()`): when all reaching definitions
    but one are such conversions of the value made by the remaining one, the
    element values are those of the remaining definition.  Returns the
    expression reached (a Name when it cannot be followed further)."""
    from ..match import match
    e = n
    for _ in range(depth):
        if not (isinstance(e, ast.Name) and isinstance(e.ctx, ast.Load)):
            return e
        try:
            defs = fi.defs_of_use(e)
        except Exception:
            return e
        if not defs or 'PARAM' in defs or 'UNBOUND' in defs or fi._mutated_in_place(e.id):
            return e
        conv, base = [], []
        for d in defs:
            v = fi.def_value(d, e.id) if isinstance(d, (ast.Assign, ast.AnnAssign)) else None
            if v is None:
                return e
            inner = None
            for p in DENSE_FORMS:
                b = match(p, v, canonical=False)
                if b is not None and isinstance(b['_X'], ast.Name) and b['_X'].id == e.id:
                    inner = b['_X']
                    break
            if inner is not None:
                conv.append((d, inner))
            else:
                base.append((d, v))
        if len(base) != 1:
            return e
        d0 = base[0][0]
        convs = {c[0] for c in conv}
        for d, inner in conv:
            di = fi.defs_of_use(inner)
            if d0 not in di or not di <= ({d0} | convs):
                return e
        e = base[0][1]
    return e


def _binders(fi, name):
    """Everything that binds `name` in the function: CFG statements of any
    kind (assignment, for/with target, import, def, walrus ...) and 'PARAM'."""
    out = ['PARAM'] if name in params(fi.fn) else []
    for s in fi.cfg.nodes:
        if s in (ENTRY, EXIT) or isinstance(s, Assume):
            continue
        if name in stmt_defs(s):
            out.append(s)
    return out


def _alias_of(fi, name):
    """`name` is bound exactly once in the function, by `name = <other name>`:
    returns the other name."""
    b = _binders(fi, name)
    if len(b) != 1 or not isinstance(b[0], ast.Assign):
        return None
    s = b[0]
    if len(s.targets) == 1 and isinstance(s.targets[0], ast.Name) and isinstance(s.value, ast.Name) and s.value.id != name:
        return s.value.id
    return None


def _in_loop(mod, fn, node):
    p = mod.parent.get(node)
    while p is not None and p is not fn:
        if isinstance(p, (ast.For, ast.AsyncFor, ast.While)):
            return True
        p = mod.parent.get(p)
    return False


def alias_class(mod, fn, fi, name):
    """The local names of ONE array object: (root, names, rootdef).

    `name` is followed backwards through plain copies of a reference
    (`R = R0`, both bound exactly once) to the root name, whose only binding
    `rootdef` creates the object; `names` is the closure of the root under such
    copies.  Because every name of the class is bound once and the root
    definition is not inside a loop, every name of the class denotes the object
    made at `rootdef` whenever it is bound: a subscript store through any of
    them is a store into the array that `name` hands to its consumer (this is
    what a helper that builds and pins an array looks like once it is inlined:
    `R__i = ...; R__i[sinks] = 1; R = R__i`).  When the root has no single
    simple definition `rootdef` is None; when the conditions for merging do
    not hold the class is {name} (the pinned behaviour)."""
    root, seen = name, {name}
    while True:
        nxt = _alias_of(fi, root)
        if nxt is None or nxt in seen:
            break
        root = nxt
        seen.add(root)
    b = _binders(fi, root)
    rootdef = b[0] if len(b) == 1 and isinstance(b[0], (ast.Assign, ast.AnnAssign)) and fi.def_value(b[0], root) is not None else None
    if root != name and (rootdef is None or _in_loop(mod, fn, rootdef)):
        # cannot merge soundly: fall back to the name itself
        b = _binders(fi, name)
        d = b[0] if len(b) == 1 and isinstance(b[0], (ast.Assign, ast.AnnAssign)) and fi.def_value(b[0], name) is not None else None
        return name, {name}, d
    names = {root}
    if rootdef is not None and not _in_loop(mod, fn, rootdef):
        cands = {t for s in fi.cfg.nodes if isinstance(s, ast.Assign) for t in stmt_defs(s)}
        grew = True
        while grew:
            grew = False
            for k in sorted(cands - names):
                if _alias_of(fi, k) in names:
                    names.add(k)
                    grew = True
    return root, names, rootdef


def stores_into(fn, names):
    """subscript_stores over all names of an alias class."""
    out = []
    for s, t in subscript_stores(fn):
        if isinstance(t.value, ast.Name) and t.value.id in names:
            out.append((s, t))
    return out


def mul_factors(e):
    """Flatten a product/quotient: (numerator factors, denominator factors)."""
    nums, dens = [], []

    def go(x, inv):
        if isinstance(x, ast.BinOp) and isinstance(x.op, ast.Mult):
            go(x.left, inv)
            go(x.right, inv)
        elif isinstance(x, ast.BinOp) and isinstance(x.op, ast.Div):
            go(x.left, inv)
            go(x.right, not inv)
        elif isinstance(x, ast.UnaryOp) and isinstance(x.op, (ast.USub, ast.UAdd)):
            go(x.operand, inv)
        elif isinstance(x, ast.Call) and call_name(x) in ('np.multiply', 'numpy.multiply') and len(x.args) == 2 and not x.keywords:
            go(x.args[0], inv)
            go(x.args[1], inv)
        elif isinstance(x, ast.Call) and call_name(x) in ('np.divide', 'np.true_divide') and len(x.args) == 2 and not x.keywords:
            go(x.args[0], inv)
            go(x.args[1], not inv)
        else:
            (dens if inv else nums).append(x)
    go(e, False)
    return nums, dens


def _num_const(fi, e):
    v = const_value(fi.expand(e))
    if isinstance(v, bool) or not isinstance(v, (int, float)):
        return None
    return v


def _index_role(fi, idx, roles, stop):
    """Role of a (row) index: the name of the index set it denotes."""
    if isinstance(idx, ast.Tuple):
        if len(idx.elts) == 2 and _full(idx.elts[1]):
            idx = idx.elts[0]
        else:
            return None
    t = fi.xu(idx, stop=stop)
    return t if t in roles else None


def _solver_calls(nodes):
    out = []
    for c in nodes:
        if isinstance(c, ast.Call):
            cn = (call_name(c) or '').split('.')
            if cn[-1] in ('solve', 'spsolve'):
                out.append(c)
    return out


INT_DTYPES = ('int', 'np.int64', 'np.intp', 'np.int_')


def _flat_int_forms(nm):
    """Accepted spellings of "flat integer index array made from nm"."""
    out = []
    for dt in INT_DTYPES:
        for conv in ('np.array(%s, dtype=%s)', 'np.asarray(%s, dtype=%s)', 'np.array(%s, %s)', 'np.asarray(%s, %s)'):
            c = conv % (nm, dt)
            for flat in ('%s.reshape((-1, 1)).flatten()', '%s.reshape((-1, 1)).ravel()', '%s.flatten()', '%s.ravel()',
                         '%s.reshape(-1)', '%s.reshape((-1,))'):
                out.append(flat % c)
    return out


def _single_name_target(s):
    if isinstance(s, ast.Assign) and len(s.targets) == 1 and isinstance(s.targets[0], ast.Name):
        return s.targets[0].id
    if isinstance(s, ast.AnnAssign) and isinstance(s.target, ast.Name) and s.value is not None:
        return s.target.id
    return None


def _index_position(mod, fn, n):
    """The expression node `n` stands (syntactically) where an index set is
    consumed: inside the slice of a subscript, or inside an argument of the
    masking helper."""
    c, p = n, mod.parent.get(n)
    while p is not None and p is not fn and not isinstance(p, ast.stmt):
        if isinstance(p, ast.Subscript) and c is p.slice:
            return True
        if isinstance(p, ast.Call) and call_name(p) == HELPER and c is not p.func:
            return True
        c, p = p, mod.parent.get(p)
    return False


def _flows_to_index(mod, fn, fi, n, depth=4):
    """True: the value read at `n` reaches an index position (directly or
    through local temporaries); False: it provably does not (it is consumed by
    a test / a raise / a call statement); None: cannot tell."""
    if _index_position(mod, fn, n):
        return True
    s = fi.stmt(n)
    if isinstance(s, (ast.If, ast.While, ast.Assert, ast.Raise)) or (isinstance(s, ast.Expr) and isinstance(s.value, ast.Call)):
        return False
    t = _single_name_target(s) if s is not None else None
    if t is None or depth <= 0:
        return None
    res = False
    for m in walk_local(fn):
        if isinstance(m, ast.Name) and m.id == t and isinstance(m.ctx, ast.Load) and s in fi.defs_of_use(m):
            r = _flows_to_index(mod, fn, fi, m, depth - 1)
            if r:
                return True
            if r is None:
                res = None
    return res


def index_set(ck, rule, mod, fn, fi, function, nm, stmts, anchor):
    """The state set held by parameter `nm` is normalised exactly once inside
    `stmts` to a flat integer array of itself, and nothing inside `stmts`
    indexes with the caller's raw object.  The array is located by its role
    ("the flat integer array made from the parameter"), under either of the
    two spellings: the parameter name is REBOUND to it, or it is bound to a
    NEW local (bound once).  Returns (definition site, name that denotes the
    index array from there on) or None."""
    nodes = _nodes(stmts)
    ok_txt = '%s normalised to a flat integer array (advanced indexing => copies)' % nm
    bad_txt = '%s must be converted to a flat integer numpy array before it is used as an index' % nm
    sites = [s for s in nodes if isinstance(s, (ast.Assign, ast.AnnAssign, ast.AugAssign)) and s in assigns_to(fn, nm)]
    if sites:
        if len(sites) != 1 or fi.def_value(sites[0], nm) is None:
            ck.missing(rule, 'single conversion of `%s` to a flat integer array in %s (found %d rebinding(s))' % (nm, function, len(sites)))
            return None
        site = sites[0]
        v = classify(xp(fi, mod, fi.def_value(site, nm), stop=(nm,)), _flat_int_forms(nm), scope={nm})
        ck.decide(v, rule, mod, site, function, u(site), ok_txt, bad_txt)
        raw = [n for n in nodes if isinstance(n, ast.Name) and n.id == nm and isinstance(n.ctx, ast.Load)
               and fi.stmt(n) is not site and fi.defs_of_use(n) != {site}]
        if raw:
            ck.bad(rule, mod, raw[0], function, '%s used at L%s' % (nm, getattr(raw[0], 'lineno', '?')),
                   '%s is used before/without its conversion to a flat integer array' % nm)
        return site, nm
    # the parameter keeps the caller's object: the index array is a new local
    cands = []
    for s in nodes:
        t = _single_name_target(s)
        if t is None or t == nm or len(_binders(fi, t)) != 1 or _in_loop(mod, fn, s):
            continue
        val = fi.def_value(s, t)
        if val is None or nm not in names_loaded(fi.expand(val, stop=(nm,))):
            continue
        if classify(xp(fi, mod, val, stop=(nm,)), _flat_int_forms(nm), scope={nm})[0] == 'match':
            cands.append((s, t))
    raw = [n for n in nodes if isinstance(n, ast.Name) and n.id == nm and isinstance(n.ctx, ast.Load)]
    if len(cands) > 1:
        ck.missing(rule, 'single conversion of `%s` to a flat integer array in %s (found %d: %s)'
                   % (nm, function, len(cands), ', '.join(t for _, t in cands)))
        return None
    if not cands:
        flows = [(n, _flows_to_index(mod, fn, fi, n)) for n in raw]
        direct = [n for n, f in flows if f]
        if direct:
            ck.bad(rule, mod, direct[0], function, nm, bad_txt)
        else:
            ck.missing(rule, 'conversion of `%s` to a flat integer array in %s' % (nm, function))
        return None
    site, t = cands[0]
    ck.ok(rule, mod, site, u(site), ok_txt + ' (held in the new local `%s`)' % t)
    # the raw object may only feed the conversion
    feeding = {id(site)}
    grew = True
    while grew:
        grew = False
        for s in nodes:
            tt = _single_name_target(s)
            if tt is None or id(s) in feeding or len(_binders(fi, tt)) != 1:
                continue
            uses = [m for m in walk_local(fn) if isinstance(m, ast.Name) and m.id == tt and isinstance(m.ctx, ast.Load)]
            if uses and all(id(fi.stmt(m)) in feeding for m in uses):
                feeding.add(id(s))
                grew = True
    for n in raw:
        if id(fi.stmt(n)) in feeding:
            continue
        f = _flows_to_index(mod, fn, fi, n)
        if f:
            ck.bad(rule, mod, n, function, '%s used at L%s' % (nm, getattr(n, 'lineno', '?')),
                   '%s is used before/without its conversion to a flat integer array' % nm)
        elif f is None:
            ck.missing(rule, 'use of the raw `%s` next to its flat integer array `%s`: %s' % (nm, t, u(fi.stmt(n))[:100]))
    return site, t


# ---------------------------------------------------------------------------
# D8 hidden state.  The property quantifies over ALL inputs in any order of
# calls: what committors / mfpts return is a function of the arguments of THIS
# call.  A value that reaches the result from state that outlives the call (a
# module-level memo / "last result" object, a `global`, a mutable default
# argument) is admissible only if the decision "reuse or recompute" examines
# the CONTENTS of every argument the stored value was computed from.  id(x),
# `x is y`, x.shape / x.dtype / len(x) identify the container object or its
# geometry, not its contents: an array refilled in place, or a new array
# allocated at the address of a freed one, is taken for the earlier chain.
# (same analysis as C08.D3.committors.hidden-state, refined by the 'meta' kind
# and multi-definition names; candidate for promotion to sa/rules/extra.py)

STATE_MUTATORS = MUTATING_METHODS | {'move_to_end', 'appendleft', 'extendleft', 'popleft', 'difference_update', 'intersection_update',
                                    'symmetric_difference_update', 'setdefault', '__setitem__', '__delitem__'}
MEMO_DECORATORS = {'lru_cache', 'cache', 'cached', 'memoize', 'memoized', 'memoise', 'cached_property'}
MUTABLE_CTORS = {'dict', 'list', 'set', 'OrderedDict', 'defaultdict', 'deque', 'Counter', 'WeakValueDictionary', 'WeakKeyDictionary'}
CONTENT_DIGESTS = {'tobytes', 'tostring', 'tolist', 'tuple', 'bytes', 'array_equal', 'array_equiv', 'allclose'}
IDENTITY_CALLS = {'id'}
META_ATTRS = {'shape', 'ndim', 'dtype', 'size', 'itemsize', 'nbytes', 'strides', 'flags', 'format', 'nnz'}
META_CALLS = {'len', 'type', 'isinstance', 'issparse', 'isspmatrix'}


def _module_level_names(tree):
    out = set()
    stack = list(reversed(tree.body))
    while stack:
        s = stack.pop()
        if isinstance(s, (ast.FunctionDef, ast.AsyncFunctionDef, ast.ClassDef)):
            out.add(s.name)
            continue
        if isinstance(s, (ast.Assign, ast.AugAssign, ast.AnnAssign)):
            for t in (s.targets if isinstance(s, ast.Assign) else [s.target]):
                out.update(n.id for n in ast.walk(t) if isinstance(n, ast.Name) and isinstance(n.ctx, ast.Store))
        for f in ('body', 'orelse', 'finalbody', 'handlers'):
            for ch in reversed(getattr(s, f, []) or []):
                if isinstance(ch, (ast.stmt, ast.ExceptHandler)):
                    stack.append(ch)
    return out


def _scope_names(fn):
    """(names local to fn, names fn declares global)."""
    loc, glob = set(params(fn)), set()
    for n in walk_local(fn):
        if isinstance(n, (ast.Global, ast.Nonlocal)):
            glob.update(n.names)
        elif isinstance(n, ast.Name) and isinstance(n.ctx, (ast.Store, ast.Del)):
            loc.add(n.id)
        elif isinstance(n, (ast.FunctionDef, ast.AsyncFunctionDef, ast.ClassDef)):
            loc.add(n.name)
        elif isinstance(n, (ast.Import, ast.ImportFrom)):
            loc.update((a.asname or a.name).split('.')[0] for a in n.names)
        elif isinstance(n, ast.ExceptHandler) and n.name:
            loc.add(n.name)
    return loc - glob, glob


def _root_name(e):
    while isinstance(e, (ast.Attribute, ast.Subscript, ast.Starred)):
        e = e.value
    return e.id if isinstance(e, ast.Name) else None


def _mutable_default(fn, p):
    d = param_default(fn, p)
    if isinstance(d, (ast.Dict, ast.List, ast.Set, ast.ListComp, ast.DictComp, ast.SetComp)):
        return True
    return isinstance(d, ast.Call) and (call_name(d) or '').split('.')[-1] in MUTABLE_CTORS


def state_writes(fn, module_names):
    """[(node, state name, stored value or None)]: where fn writes state that
    outlives the call - a store through / a mutating method of a module-level
    name (not shadowed by a local), an assignment to a `global`, a store into
    a parameter with a mutable default."""
    loc, glob = _scope_names(fn)
    sticky = {p for p in params(fn) if _mutable_default(fn, p)}

    def outlives(name):
        if name is None:
            return False
        if name in glob or name in sticky:
            return True
        return name in module_names and name not in loc
    out = []
    for s in walk_local(fn):
        if isinstance(s, (ast.Assign, ast.AugAssign, ast.AnnAssign)):
            flat = []
            for t in (s.targets if isinstance(s, ast.Assign) else [s.target]):
                flat += list(t.elts) if isinstance(t, (ast.Tuple, ast.List)) else [t]
            for t in flat:
                if isinstance(t, (ast.Subscript, ast.Attribute)) and outlives(_root_name(t)):
                    out.append((s, _root_name(t), s.value))
                elif isinstance(t, ast.Name) and t.id in glob:
                    out.append((s, t.id, s.value))
        elif isinstance(s, ast.Delete):
            for t in s.targets:
                if isinstance(t, (ast.Subscript, ast.Attribute)) and outlives(_root_name(t)):
                    out.append((s, _root_name(t), None))
        elif isinstance(s, ast.Call) and isinstance(s.func, ast.Attribute) and s.func.attr in STATE_MUTATORS \
                and outlives(_root_name(s.func.value)):
            vals = list(s.args) + [k.value for k in s.keywords]
            out.append((s, _root_name(s.func.value), ast.Tuple(elts=vals, ctx=ast.Load()) if len(vals) != 1 else vals[0]))
    return out


def state_reads(fi, expr, is_state, depth=10):
    """Name(Load) nodes in the backward slice of expr (through the reaching
    definitions) that read a name which is not bound by this call."""
    out, seen = [], set()

    def visit(e, d):
        for n in walk_expr(e):
            if not (isinstance(n, ast.Name) and isinstance(n.ctx, ast.Load)):
                continue
            try:
                defs = fi.defs_of_use(n)
            except Exception:
                defs = set()
            if not defs or 'UNBOUND' in defs:
                if is_state(n.id, False):
                    out.append(n)
            elif 'PARAM' in defs and is_state(n.id, True):
                out.append(n)
            for site in defs:
                if isinstance(site, str):
                    continue
                key = (id(site), n.id)
                if key in seen or d <= 0:
                    continue
                seen.add(key)
                v = fi.def_value(site, n.id)
                if v is not None:
                    visit(v, d - 1)
                    continue
                tg = getattr(site, 'targets', None) or [getattr(site, 'target', None)]
                for e2 in header_exprs(site):
                    if isinstance(site, (ast.Assign, ast.AugAssign, ast.AnnAssign, ast.For, ast.AsyncFor)) and any(e2 is t for t in tg):
                        continue
                    visit(e2, d - 1)
    visit(expr, depth)
    return out


def param_occurrences(fi, expr, pnames):
    """{param: subset of {'identity', 'meta', 'content', 'other'}}: how the
    parameters enter the value of `expr` (names are followed through ALL their
    reaching definitions, pure or not - only the shape of the dependence
    matters).  identity: inside id(...) / an `is` comparison; meta: through
    .shape/.dtype/len()/type() ... (the geometry or class of the container);
    content: inside a digest of the elements (tobytes, tuple, array_equal);
    other: anything else, including names that cannot be followed."""
    occ = {}
    active = set()

    def walk(e, ctx, d):
        if isinstance(e, ast.Name):
            if not isinstance(e.ctx, ast.Load):
                return
            try:
                defs = fi.defs_of_use(e)
            except Exception:
                defs = set()
            for site in defs:
                if site == 'PARAM':
                    if e.id in pnames:
                        occ.setdefault(e.id, set()).add(ctx)
                    continue
                if isinstance(site, str):
                    continue
                v = fi.def_value(site, e.id)
                if v is not None and d > 0 and id(site) not in active:
                    active.add(id(site))
                    walk(v, ctx, d - 1)
                    active.discard(id(site))
                elif v is None or d <= 0:
                    for p in fi.derives_from(e)[0]:
                        if p in pnames:
                            occ.setdefault(p, set()).add('other' if ctx not in ('identity', 'meta') else ctx)
            return
        c = ctx
        if isinstance(e, ast.Call):
            last = (call_name(e) or '').split('.')[-1]
            if ctx in ('identity', 'meta'):
                pass                    # the id / the geometry of anything derived: still no contents
            elif last in IDENTITY_CALLS:
                c = 'identity'
            elif last in META_CALLS:
                c = 'meta'
            elif last in CONTENT_DIGESTS:
                c = 'content'
        elif isinstance(e, ast.Attribute) and e.attr in META_ATTRS and ctx != 'identity':
            c = 'meta'
        elif isinstance(e, ast.Compare) and all(isinstance(o, (ast.Is, ast.IsNot)) for o in e.ops) and ctx == 'other':
            c = 'identity'
        for ch in ast.iter_child_nodes(e):
            walk(ch, c, d)
    walk(expr, 'other', 10)
    return occ


def _reachable_functions(mod, roots):
    """Module-level functions reachable from `roots` through plain calls."""
    seen, todo = [], [r for r in roots if r in mod.functions]
    while todo:
        q = todo.pop()
        if q in seen:
            continue
        seen.append(q)
        for c in calls_in(mod.functions[q]):
            if isinstance(c.func, ast.Name) and c.func.id in mod.functions and c.func.id not in seen:
                todo.append(c.func.id)
    return seen


def d8_hidden_state(ck, mod, roots=('committors', 'mfpts', HELPER)):
    rule = 'C07.D8.hidden-state'
    module_names = _module_level_names(mod.tree)
    top = {q: fn for q, fn in mod.functions.items() if '<locals>' not in q and '.' not in q}
    per_fn = {q: state_writes(fn, module_names) for q, fn in top.items()}
    writes = {}
    for q, ws in per_fn.items():
        for node, name, val in ws:
            writes.setdefault(name, []).append((q, node, val))
    n_scanned = 0
    for q in _reachable_functions(mod, roots):
        fn = mod.functions[q]
        n_scanned += 1
        decs = [(call_name(d) if isinstance(d, ast.Call) else u(d)) or '' for d in fn.decorator_list]
        memo = [d for d in decs if d.split('.')[-1] in MEMO_DECORATORS]
        if memo:
            ck.missing(rule, '%s is wrapped in the memoising decorator %s: whether its key covers the contents of every argument is not decided'
                       % (q, memo[0]))
            continue
        fi = finfo(mod, fn)
        loc, glob = _scope_names(fn)
        own = {name for _, name, _ in per_fn.get(q, [])}

        def is_state(name, is_param, _loc=loc, _glob=glob, _own=own):
            if is_param:
                return name in _own         # a parameter with a mutable default that fn stores into
            return name in writes and (name in _glob or name not in _loc)
        reads = []
        for r in returns_of(fn):
            if r.value is not None:
                reads += state_reads(fi, r.value, is_state)
        if not reads:
            ck.ok(rule, mod, fn, '%s: module state written in %s: %s' % (q, mod.rel, sorted(writes) or 'none'),
                  'no returned value is read from state that outlives the call (the result depends on the arguments only)')
            continue
        P = set(params(fn))
        for name in sorted({n.id for n in reads}):
            rnodes = [n for n in reads if n.id == name]
            rstmts = [fi.stmt(n) for n in rnodes if fi.stmt(n) is not None]
            rstmt = rstmts[0] if rstmts else fn
            mine = [(fi.stmt(node) or node, val) for node, nm, val in per_fn.get(q, []) if nm == name]
            others = sorted({w[0] for w in writes.get(name, []) if w[0] != q})
            if not mine:
                ck.missing(rule, 'the value returned by %s is computed from the module-level object `%s`, which %s write(s): the result '
                           'depends on calls made before this one (not decided how)' % (q, name, ', '.join(others)))
                continue
            wstmts = [st for st, _ in mine]
            stale = [r for r in rstmts if r in wstmts or fi.cfg.reachable(ENTRY, r, avoiding=wstmts)]
            if not stale:
                ck.missing(rule, '%s routes a value through the module-level object `%s`, written on every path to the read: whether the '
                           'value read is the one stored by this call is not decided' % (q, name))
                continue
            dep = set()
            for st, val in mine:
                if val is not None:
                    for p_, kinds in param_occurrences(fi, val, P).items():
                        if kinds & {'other', 'content'}:
                            dep.add(p_)
            guards = []
            for st, val in mine:
                for a in fi.cfg.nodes:
                    if isinstance(a, Assume) and fi.cfg.dominates(a, st) and a.test not in [g.test for g in guards]:
                        guards.append(a)
            if not dep:
                ck.missing(rule, '%s returns a value read from the module-level object `%s` that it also writes; what is stored does not '
                           'derive from the contents of its parameters' % (q, name))
                continue
            if not guards:
                ck.missing(rule, '%s reads the module-level object `%s` on a path that skips its own store; the condition under which the '
                           'store is skipped was not located' % (q, name))
                continue
            occ = {}
            for g in guards:
                for p_, kinds in param_occurrences(fi, g.test, dep).items():
                    occ.setdefault(p_, set()).update(kinds)
            absent = sorted(p_ for p_ in dep if not occ.get(p_))
            blind = sorted(p_ for p_ in dep if occ.get(p_) and occ[p_] <= {'identity', 'meta'})
            unknown = sorted(p_ for p_ in dep if occ.get(p_) and 'other' in occ[p_] and 'content' not in occ[p_])
            tests = ' / '.join('`%s`' % u(g.test)[:100] for g in guards)
            if absent or blind:
                why = []
                if blind:
                    why.append('%s enter(s) it only through id() / `is` / shape / dtype / len, which identify the container object and its '
                               'geometry, not its contents (the same array refilled in place, or a new one allocated at the address of a '
                               'freed one - e.g. the temporary a sparse input is densified into - is taken for the previous chain)'
                               % ', '.join('`%s`' % p_ for p_ in blind))
                if absent:
                    why.append('%s do(es) not enter it at all' % ', '.join('`%s`' % p_ for p_ in absent))
                where = 'mutable default argument' if name in P else 'module-level object'
                ck.bad(rule, mod, rstmt, q, 'result of %s read from module-level `%s`' % (q, name),
                       'what %s returns must be computed from the arguments of THIS call (the first-step equations hold for every chain, '
                       'whatever was analysed before). `%s` reaches the result from the %s `%s`, which an earlier call filled from the '
                       'contents of (%s); it is recomputed only when %s, and %s: a later call with other contents combines the stale '
                       'stored value with its own transition matrix'
                       % (q, u(rstmt)[:120], where, name, ', '.join(sorted(dep)), tests, '; '.join(why)))
            elif unknown:
                ck.missing(rule, '%s reuses a value stored in module-level `%s` unless %s; whether that test compares the contents of %s is '
                           'not recognised' % (q, name, tests, ', '.join(unknown)))
            else:
                ck.missing(rule, '%s keeps a memo in module-level `%s` keyed on the contents of %s: consistency of key and value stores not '
                           'decided' % (q, name, ', '.join(sorted(dep))))
    ck.floor(rule, n_scanned, 3, 'functions scanned for results read from module state')


# ---------------------------------------------------------------------------
# D2

def d2_masking(ck, mod):
    rule = 'C07.D2.masking'
    F = HELPER
    fn = mod.func(F)
    ck.analysed(mod, fn)
    fi = finfo(mod, fn)
    ps = params(fn)
    tprob, absn = ps[0], ps[1]
    r = returns_of(fn)
    if len(r) != 1 or not isinstance(r[0].value, ast.Name):
        ck.missing(rule, 'single named return in _I_m_Q')
        return
    ret = r[0]
    M = ret.value.id
    M0, Mnames, Md = alias_class(mod, fn, fi, M)
    defs = [Md] if Md is not None else []
    if len(defs) != 1 or not isinstance(defs[0], ast.Assign):
        ck.missing(rule + '.fresh', 'single definition of the returned matrix %s in _I_m_Q' % M)
        return
    forms = ['np.eye(_N) - %s' % tprob, 'np.identity(_N) - %s' % tprob, 'np.eye(_N, dtype=float) - %s' % tprob,
             'np.identity(_N, dtype=float) - %s' % tprob, 'np.eye(_N, _N) - %s' % tprob]
    v = classify(fi.expand(defs[0].value, stop=(tprob,)), forms, scope=set(ps))
    ck.decide(v, rule + '.fresh', mod, defs[0], F, u(defs[0]),
              'I - T is built as a new matrix', '_I_m_Q must start from a fresh np.eye(n) - tprob')

    def role(e):
        if _full(e):
            return 'all'
        if fi.xu(e, stop=(absn,)) == absn:
            return 'abs'
        return None

    why = {'cols': 'absorbing COLUMNS := 0 (no probability flows into absorbing states inside Q)',
           'rows': 'absorbing ROWS := 0 (absorbing states do not move)',
           'diag': 'absorbing DIAGONAL := 1 (keeps the system non-singular, pins the unknown)'}
    good = {'cols': [], 'rows': [], 'diag': []}
    unknown = []
    for s, t in stores_into(fn, Mnames):
        sl = t.slice
        elts = list(sl.elts) if isinstance(sl, ast.Tuple) else [sl, ast.Slice(lower=None, upper=None, step=None)]
        kind = None
        if isinstance(s, ast.Assign) and len(elts) == 2:
            kind = {('all', 'abs'): 'cols', ('abs', 'all'): 'rows', ('abs', 'abs'): 'diag'}.get((role(elts[0]), role(elts[1])))
        val = _num_const(fi, s.value) if kind else None
        if kind is None or val is None:
            unknown.append(s)
            continue
        want = 1 if kind == 'diag' else 0
        if val != want:
            ck.bad(rule, mod, s, F, u(s), 'wrong value in a masking step: ' + why[kind])
            continue
        good[kind].append(s)
    for s in unknown:
        ck.missing(rule, 'store into I - Q not recognised as one of the three masking steps: %s' % u(s)[:120])
    for kind in ('cols', 'rows', 'diag'):
        eff = [s for s in good[kind] if fi.cfg.dominates(s, ret)]
        if eff:
            ck.ok(rule, mod, eff[0], '%s store: %s' % (kind, '; '.join(u(s) for s in eff)), why[kind])
        elif good[kind] or unknown:
            ck.missing(rule, '%s store executed on every path to the return (%s)' % (kind, why[kind]))
        else:
            ck.bad(rule, mod, fn, F, '%s store: MISSING' % kind, 'missing masking step: ' + why[kind])
    if all(good[k] for k in good):
        zero = good['cols'] + good['rows']
        last = [d for d in good['diag'] if fi.cfg.dominates(d, ret) and not any(fi.cfg.reachable(d, z) for z in zero)]
        early = [d for d in good['diag'] if any(fi.cfg.reachable(d, z) for z in zero)]
        if last:
            ck.ok(rule + '.order', mod, last[0], 'rows, cols -> diag', 'the diagonal is set after rows and columns were zeroed')
        elif early:
            ck.bad(rule + '.order', mod, early[0], F, 'diag -> rows/cols',
                   'the diagonal store must come LAST: zeroing absorbing rows/columns afterwards erases the ones and makes the system singular')
        else:
            ck.missing(rule + '.order', 'order of the masking stores')
    ck.ok(rule, mod, ret, u(ret), 'returns the masked matrix')


# ---------------------------------------------------------------------------
# shared: the (I - Q) operand of a solver call

# One-argument constructors/conversions that keep the element values of a
# dense ndarray and only change the CONTAINER.  'matrix': the result has
# numpy.matrix semantics (scipy.sparse *_matrix, np.matrix): reductions keep
# two dimensions and `*` is the matrix product; 'array': ndarray / sparse
# array semantics.
CONTAINER_WRAPPERS = {}
for _fmt in ('csc', 'csr', 'lil', 'coo', 'dok', 'bsr', 'dia'):
    CONTAINER_WRAPPERS[_fmt + '_matrix'] = 'matrix'
    CONTAINER_WRAPPERS[_fmt + '_array'] = 'array'
CONTAINER_WRAPPERS.update({'matrix': 'matrix', 'asmatrix': 'matrix', 'mat': 'matrix',
                           'asarray': 'array', 'ascontiguousarray': 'array', 'asanyarray': 'array'})


def _peel_containers(fi, e):
    """Strip value-preserving container conversions `f(X)` (one positional
    argument, no keywords - a dtype/copy keyword is not looked through) and
    single-definition name chains: returns (inner expression, [(call, kind)],
    ok)."""
    wrappers = []
    for _ in range(8):
        e, ok = origin(fi, e)
        if not ok:
            return e, wrappers, False
        if isinstance(e, ast.Call) and len(e.args) == 1 and not e.keywords and not isinstance(e.args[0], ast.Starred):
            kind = CONTAINER_WRAPPERS.get((call_name(e) or '').split('.')[-1])
            if kind is not None and call_name(e) != HELPER:
                wrappers.append((e, kind))
                e = e.args[0]
                continue
        break
    return e, wrappers, True


def _imq_call(ck, rule, mod, fn, fi, function, solve, wrappers=None):
    """The solver's matrix operand is the result of _I_m_Q(...), possibly
    passed through value-preserving container conversions (appended to
    `wrappers` when the caller wants to judge them; otherwise any conversion
    makes the operand unrecognised): returns the _I_m_Q call."""
    A = arg_or_kw(solve, 0, 'A') or arg_or_kw(solve, None, 'a')
    if A is None:
        ck.missing(rule, 'matrix operand of %s' % u(solve)[:80])
        return None
    if wrappers is None:
        e, ok = origin(fi, A)
    else:
        e, ws, ok = _peel_containers(fi, A)
        wrappers.extend(ws)
    if not ok or not (isinstance(e, ast.Call) and call_name(e) == HELPER):
        ck.missing(rule, 'matrix operand of the linear solve in %s is not (an unmodified) result of %s: %s' % (function, HELPER, u(e)[:80]))
        return None
    return e


def _imq_args(ck, rule, mod, fi, function, call, tprob, forms, scope, ok_txt, bad_txt):
    hp = params(mod.func(HELPER))
    a0 = arg_or_kw(call, 0, hp[0])
    a1 = arg_or_kw(call, 1, hp[1])
    if a0 is None or a1 is None:
        ck.missing(rule, 'arguments of %s' % u(call)[:100])
        return
    v0 = classify(fi.expand(a0, stop=(tprob,)), [tprob], scope={tprob})
    v1 = classify(xp(fi, mod, a1, stop=tuple(scope)), forms, scope=set(scope))
    kinds = {v0[0], v1[0]}
    v = 'match' if kinds == {'match'} else (v1 if v1[0] == 'near' else (v0 if v0[0] == 'near' else 'far'))
    ck.decide(v, rule, mod, call, function, u(call), ok_txt, bad_txt)


def _raw_module(mod):
    """The module as written (canonical spellings only): the normal form that
    decides whether a function is replaced by its reference spelling treats
    X.shape[0] and len(X) as the same idiom, which they are not for scipy
    sparse matrices - exactly the distinction D6 is about."""
    from ..core import Module, _canon_tree
    try:
        return Module(mod.rel, mod.src, _canon_tree(ast.parse(mod.src)), 'py')
    except SyntaxError:
        return mod


def _guards(mod, fi, node):
    """What is known to hold when the expression `node` is evaluated, as far
    as the control structure says: [(test, polarity)] from the if-branches that
    dominate its statement (CFG Assume nodes: insensitive to if/else vs
    guard-clause spelling) and from the conditional expressions / short-circuit
    operators that enclose it inside the statement; plus whether it stands in
    the body of a `try` with handlers (an exception there is an alternative
    way of guarding)."""
    out = []
    stmt = fi.stmt(node)
    if stmt is not None:
        for a in fi.cfg.nodes:
            if isinstance(a, Assume) and fi.cfg.dominates(a, stmt):
                out.append((a.test, a.polarity))
    c, p = node, mod.parent.get(node)
    while p is not None and p is not fi.fn and not isinstance(p, ast.stmt):
        if isinstance(p, ast.IfExp):
            if c is p.body:
                out.append((p.test, True))
            elif c is p.orelse:
                out.append((p.test, False))
        elif isinstance(p, ast.BoolOp) and c in p.values:
            for v in p.values[:p.values.index(c)]:
                out.append((v, isinstance(p.op, ast.And)))
        c, p = p, mod.parent.get(p)
    in_try = False
    while p is not None and p is not fi.fn:
        if (isinstance(p, ast.Try) or type(p).__name__ == 'TryStar') and p.handlers and any(c is s for s in p.body):
            in_try = True
        c, p = p, mod.parent.get(p)
    return out, in_try


def _arg_nullness(fi, e):
    """'none' / 'notnone' / 'maybe': whether the argument expression `e` (None:
    the argument is not passed and the default None applies) is None."""
    if e is None:
        return 'none'
    x = fi.resolve(e) if isinstance(e, ast.Name) else e
    if isinstance(x, ast.Constant):
        return 'none' if x.value is None else 'notnone'
    if isinstance(x, ast.Subscript) and isinstance(x.value, ast.Attribute) and x.value.attr == 'shape':
        return 'notnone'
    if isinstance(x, (ast.BinOp, ast.UnaryOp, ast.Compare, ast.Tuple, ast.List)):
        return 'notnone'
    if isinstance(x, ast.Call) and call_name(x) in ('len', 'int'):
        return 'notnone'
    return 'maybe'


def _helper_len_conditions(mod, h, hp):
    """For every `len(<matrix parameter>)` in the masking helper: the
    condition on its state-count parameter under which it is evaluated -
    'none' (only when no count was supplied: the documented fallback),
    'notnone' (when a count WAS supplied), 'always', or 'unknown'.  Located by
    role: the guards that dominate the len() call and test the parameter
    (still holding the caller's value) against None."""
    fi = finfo(mod, h)
    out = []
    for c in calls_in(h):
        if not (call_name(c) == 'len' and len(c.args) == 1 and u(c.args[0]) == hp[0]):
            continue
        if len(hp) < 3:
            out.append('always')
            continue
        kinds = set()
        guards, in_try = _guards(mod, fi, c)
        for test, pol in guards:
            t = _none_test(fi, test, hp[2])
            uses = [n for n in ast.walk(test) if isinstance(n, ast.Name) and n.id == hp[2]]
            if t is not None and uses and all(fi.defs_of_use(n) == {'PARAM'} for n in uses):
                kinds.add('none' if t == pol else 'notnone')
            elif hp[2] in names_loaded(fi.expand(test)):
                kinds.add('unknown')
        if in_try:
            kinds.add('unknown')
        for k in ('none', 'notnone', 'unknown'):
            if k in kinds:
                out.append(k)
                break
        else:
            out.append('always')
    return out


def _len_sites(mod, fn, fi, tprob):
    """Places where the state count is taken with len(<matrix>): explicit
    len(tprob) and calls of _I_m_Q that make the helper evaluate its
    len(tprob) - decided from the condition on n_states under which the helper
    does so and from whether the call passes a count.  Returns (sites, calls
    for which that cannot be decided)."""
    out = [c for c in calls_in(fn) if call_name(c) == 'len' and len(c.args) == 1 and isinstance(c.args[0], ast.Name)
           and c.args[0].id == tprob]
    try:
        h = mod.func(HELPER)
    except AnalysisIncomplete:
        return out, []
    hp = params(h)
    conds = _helper_len_conditions(mod, h, hp)
    unknown = []
    if conds:
        for c in calls_in(fn):
            if call_name(c) != HELPER:
                continue
            a0 = arg_or_kw(c, 0, hp[0])
            if a0 is None or u(a0) != tprob:
                continue
            if any(isinstance(a, ast.Starred) for a in c.args) or any(k.arg is None for k in c.keywords):
                nn = 'maybe'
            else:
                nn = _arg_nullness(fi, arg_or_kw(c, 2, hp[2]) if len(hp) >= 3 else None)
            if any(k == 'always' or k == nn for k in conds):
                out.append(c)
            elif any(k == 'unknown' for k in conds) or nn == 'maybe':
                unknown.append(c)
    return out, unknown


# ---------------------------------------------------------------------------
# D6 sparse contract (on the source as written, see _raw_module)

def d6_sparse(ck, mod):
    raw = _raw_module(mod)
    for F in ('committors', 'mfpts'):
        fn = raw.func(F)
        fi = finfo(raw, fn)
        tprob = params(fn)[0]
        lens, unknown = _len_sites(raw, fn, fi, tprob)
        for c in unknown:
            if not _densified_before(raw, fi, tprob, fi.stmt(c)):
                ck.missing('C07.D6.sparse', 'whether `%s` in %s makes %s evaluate len(%s) on a possibly sparse matrix (the condition on its '
                           'state-count parameter / the count passed is not recognised)' % (u(c)[:80], F, HELPER, tprob))
        badlen = [c for c in lens if not _densified_before(raw, fi, tprob, fi.stmt(c))]
        ck.check(not badlen, 'C07.D6.sparse', mod, badlen[0] if badlen else (lens[0] if lens else fn), F,
                 u(badlen[0]) if badlen else (u(lens[0]) if lens else 'no len(%s)' % tprob),
                 'len(tprob) only after sparse input was densified' if lens else 'state count from .shape: no len() on a possibly sparse matrix',
                 '%s is documented for dense and sparse input, but len(<scipy sparse matrix>) raises TypeError: the state '
                 'count must come from .shape or the input be densified first (_I_m_Q may fall back to len(tprob) only when '
                 'n_states is not passed; a call that passes the count must not reach that len())' % F)
    d6_container_guard(ck, mod)


SPARSE_TESTS = ('issparse', 'isspmatrix')
# methods of the scipy.sparse containers that numpy.ndarray does not have
SPARSE_ONLY_METHODS = {'toarray', 'todense', 'tolil', 'tocsr', 'tocsc', 'tocoo', 'todok', 'tobsr', 'todia', 'asformat', 'getnnz'}


def _container_fact(fi, test, pol, X, P):
    """What the guard (test, polarity) says about the container of the Name
    use X: 'sparse' / 'dense' (an issparse(X) conjunct about the same value),
    'unknown' (the test depends on the matrix in a way not recognised), or
    None (it does not concern the matrix)."""
    from ..patterns import conjuncts
    cj = conjuncts(test, pol)
    for c in (cj or []):
        if not (isinstance(c, tuple) and c[0] == 'expr'):
            continue
        e, p = c[1], c[2]
        for _ in range(4):
            if isinstance(e, ast.Name):
                r = fi.resolve(e, depth=1)
                if r is e:
                    break
                e = r
            elif isinstance(e, ast.UnaryOp) and isinstance(e.op, ast.Not):
                e, p = e.operand, not p
            else:
                break
        if isinstance(e, ast.Call) and (call_name(e) or '').split('.')[-1].startswith(SPARSE_TESTS) and len(e.args) == 1 \
                and not e.keywords and isinstance(e.args[0], ast.Name) and fi.same_value(e.args[0], X):
            if (call_name(e) or '').split('.')[-1] in SPARSE_TESTS or p:
                return 'sparse' if p else 'dense'
    dep = names_loaded(fi.expand(test)) | {n for n in fi.derives_from(test)[0]}
    if dep & {X.id, P}:
        return 'unknown'
    return None


def d6_container_guard(ck, mod):
    """Dense and sparse inputs are both admitted, so the matrix argument is an
    ndarray on some calls and a scipy.sparse container on others.  A method
    that only the sparse containers have (`tolil`, `toarray`, ...) applied to
    the caller's matrix is therefore only admissible on paths where the
    matrix is KNOWN to be sparse: necessary condition - every such call is
    dominated by (or sits in the arm of) a guard with the conjunct
    issparse(<the same value>).  Under the opposite guard (`not issparse`) or
    under no guard at all every dense input raises AttributeError (and, under
    the opposite guard, sparse input is no longer converted); a guard of
    another kind (hasattr, isinstance, try/except) is not decided here."""
    rule = 'C07.D6.sparse.guard'
    for F in ('committors', 'mfpts', HELPER):
        fn = mod.func(F)
        fi = finfo(mod, fn)
        P = params(fn)[0]
        n = 0
        for c in calls_in(fn):
            f = c.func
            if not (isinstance(f, ast.Attribute) and f.attr in SPARSE_ONLY_METHODS and isinstance(f.value, ast.Name)):
                continue
            X = f.value
            defs = fi.defs_of_use(X)
            root = X
            if 'PARAM' not in defs:
                root = fi.resolve(X)
                if not (isinstance(root, ast.Name) and root.id == P and 'PARAM' in fi.defs_of_use(root)):
                    continue        # a container made inside the function
            elif X.id != P:
                continue
            n += 1
            guards, in_try = _guards(mod, fi, c)
            facts = [_container_fact(fi, t, pol, X, P) for t, pol in guards]
            if 'sparse' in facts:
                ck.ok(rule, mod, c, '%s: %s' % (F, u(c)), 'the sparse-only method runs only where the matrix is known to be sparse')
            elif 'dense' in facts:
                ck.bad(rule, mod, c, F, u(c),
                       '%s admits dense and sparse matrices; `.%s()` exists only on scipy.sparse containers and must run only when '
                       'issparse(%s) holds. Here it runs exactly when the matrix is NOT sparse: every dense ndarray input raises '
                       'AttributeError, and sparse input is no longer converted' % (F, f.attr, X.id))
            elif 'unknown' in facts or in_try or root is not X or defs != {'PARAM'}:
                ck.missing(rule, 'whether `%s` in %s runs only for sparse input (no issparse(%s) guard on the same value recognised)'
                           % (u(c)[:80], F, X.id))
            else:
                ck.bad(rule, mod, c, F, u(c),
                       '%s admits dense and sparse matrices; `.%s()` exists only on scipy.sparse containers, but it is applied to the '
                       'caller\'s matrix without any test of its container: every dense ndarray input raises AttributeError'
                       % (F, f.attr))
        if n == 0:
            ck.ok(rule, mod, fn, '%s: no sparse-only method on %s' % (F, P), 'no scipy.sparse-only method is applied to the matrix argument')


# ---------------------------------------------------------------------------
# D3 committors

def d3_committors(ck, mod):
    rule = 'C07.D3.committors'
    F = 'committors'
    fn = mod.func(F)
    ck.analysed(mod, fn)
    fi = finfo(mod, fn)
    tprob, p_sources, p_sinks = params(fn)[:3]
    # normalisation of index sets to flat int arrays; from here on `sources`
    # and `sinks` are the names that denote the index ARRAYS (the rebound
    # parameters in the pinned spelling, new locals in others)
    held = {}
    for nm in (p_sources, p_sinks):
        r = index_set(ck, rule + '.sets', mod, fn, fi, F, nm, fn.body, fn)
        held[nm] = r[1] if r else nm
    sources, sinks = held[p_sources], held[p_sinks]
    stop = tuple(dict.fromkeys((tprob, sources, sinks, p_sources, p_sinks)))
    # the linear solve
    solves = _solver_calls(walk_local(fn))
    if len(solves) != 1:
        ck.missing(rule + '.solve', 'exactly one linear solve (spsolve / linalg.solve) in committors (found %d)' % len(solves))
        return
    solve = solves[0]
    ss = fi.stmt(solve)
    wrappers = []
    imq = _imq_call(ck, rule + '.absorbing', mod, fn, fi, F, solve, wrappers)
    if imq is not None:
        pair = ['%s, %s' % (sources, sinks), '%s, %s' % (sinks, sources)]
        forms = []
        for p in pair:
            forms += ['np.append(%s)' % p, 'np.concatenate((%s))' % p, 'np.concatenate([%s])' % p, 'np.union1d(%s)' % p,
                      'np.hstack((%s))' % p, 'np.hstack([%s])' % p, 'np.r_[%s]' % p, 'np.concatenate((%s), axis=0)' % p]
        _imq_args(ck, rule + '.absorbing', mod, fi, F, imq, tprob, forms, {sources, sinks},
                  '(I - Q) masks sources and sinks: absorbing set = sources + sinks',
                  '_I_m_Q must be called with the transition matrix and all absorbing states (sources AND sinks)')
    # R: the right-hand side handed to the solver
    Rarg = arg_or_kw(solve, 1, 'b')
    if not isinstance(Rarg, ast.Name):
        ck.missing(rule + '.rhs', 'right-hand side of the solve is not a named array: %s' % u(Rarg)[:80])
        R = None
    else:
        R = Rarg.id
        # the array object handed to the solver, under all its local names
        R0, Rnames, Rd = alias_class(mod, fn, fi, R)
        Rdef = [Rd] if Rd is not None else []
        if len(Rdef) != 1 or not isinstance(Rdef[0], ast.Assign) or fi.def_value(Rdef[0], R0) is None:
            ck.missing(rule + '.rhs', 'single definition of the right-hand side %s' % R)
        else:
            rv = fi.def_value(Rdef[0], R0)
            v = classify(xp(fi, mod, rv, stop=stop), ['%s[:, %s]' % (tprob, sinks), '%s[:, %s].copy()' % (tprob, sinks)],
                         scope={tprob, sinks})
            okR = ck.decide(v, rule + '.rhs', mod, Rdef[0], F, u(Rdef[0]),
                            'right-hand side = columns of T leading into the sinks (one column per sink)', 'R must be tprob[:, sinks]')
            if okR:
                _pins(ck, rule + '.rhs', mod, fn, fi, F, R, {sinks: 1, sources: 0}, stop, ss,
                      'R[sinks] = 1 and R[sources] = 0 (boundary rows)',
                      'the right-hand side must be pinned before the solve: R[sinks] = 1.0 and R[sources] = 0.0', after=Rdef[0],
                      names=Rnames, legit=(0.0, 1.0), mask_rule=rule + '.value-mask',
                      mask_txt='The right-hand side holds the transition probabilities into the sinks: changing one of them changes '
                      'the linear system, the committors no longer satisfy the first-step equation of the given matrix.')
        ck.ok(rule + '.solve', mod, solve, u(solve), 'solves (I - Q) B = R')
    # sum over sinks and final pin: the returned object
    # every exit: the returns the solve cannot reach are decided on their own (guard and value), the one behind the
    # solve is the summed, pinned solution
    r_all = returns_of(fn)
    early = [x for x in r_all if ss is not None and x is not ss and not fi.cfg.reachable(ss, x)]
    r = [x for x in r_all if x not in early]
    if early:
        _early_exits(ck, rule + '.exits', mod, fn, fi, F, early, tprob, {sources, sinks}, stop)
    if len(r) != 1 or not isinstance(r[0].value, ast.Name):
        ck.missing(rule + '.sum', 'single `return <committors>` (a named array)')
        return
    Cn = r[0].value.id
    C0, Cnames, Cd = alias_class(mod, fn, fi, Cn)
    cm = [Cd] if Cd is not None else []
    SOL = 'SOLUTION_'
    Rs = sorted(Rnames) if R else []
    ks = ['%s.shape[0]' % sinks, 'len(%s)' % sinks, '%s.size' % sinks, '-1'] + ['%s.shape[1]' % x for x in Rs]
    # a wrong row count makes reshape raise, so only the column count (and
    # the order) decides the values: rows may be anything, except with -1 columns
    rows = ['%s.shape[0]' % tprob, '%s.shape[1]' % tprob, '%s.shape[0]' % SOL, 'len(%s)' % SOL] + ['%s.shape[0]' % x for x in Rs]
    forms = []
    for k in ks:
        for n in (rows if k == '-1' else ['_N']):
            for rs in ('%s.reshape(%s, %s)', '%s.reshape((%s, %s))', 'np.reshape(%s, (%s, %s))'):
                for sm in ('.sum(axis=1)', '.sum(1)', '.sum(axis=-1)', '.sum(-1)'):
                    forms.append(rs % (SOL, n, k) + sm)
    scope = {tprob, sinks, SOL} | set(Rs)
    pin_ok = 'sinks are pinned to exactly 1 after the sum'
    pin_bad = ('after summing the per-sink columns every sink row holds n_sinks (each column of a sink row of R '
               'is 1): `committors[sinks] = 1.0` is required for more than one sink')
    if len(cm) != 1 or not isinstance(cm[0], ast.Assign) or fi.def_value(cm[0], C0) is None:
        loop = _column_fold(ck, rule + '.sum', mod, fn, fi, F, Cn, solve, sinks, stop, forms, scope, ks)
        if loop is None:
            ck.missing(rule + '.sum', 'single definition of the returned array %s' % Cn)
            return
        _pins(ck, rule + '.final-pin', mod, fn, fi, F, Cn, {sinks: 1}, stop, r[0], pin_ok, pin_bad,
              construct_missing='committors[sinks] = 1.0', also={sources: 0}, after=loop, names={Cn},
              legit=(0.0, 1.0), mask_rule=rule + '.value-mask', mask_txt=MASK_TXT)
        _result_container(ck, rule + '.container', mod, fi, F, solve, ss, wrappers, tprob, None)
        return
    cv = fi.def_value(cm[0], C0)
    st = fi.xu(solve, stop=stop)
    solnames = set()
    for n in ast.walk(cv):
        if isinstance(n, ast.Name) and isinstance(n.ctx, ast.Load):
            e, ok = origin(fi, n)
            if (ok and e is solve) or value_origin(fi, n) is solve:
                solnames.add(n.id)

    def mark(n):
        if isinstance(n, ast.expr) and (u(n) == st or (isinstance(n, ast.Name) and n.id in solnames)):
            return _sym(SOL)
        return n
    X = _rewrite(xp(fi, mod, cv, stop=stop), mark)
    v = classify(X, forms, scope=scope)
    ck.decide(v, rule + '.sum', mod, cm[0], F, u(cm[0]),
              'probability of hitting ANY sink = sum over the per-sink columns',
              'committors must be B.reshape(n_states, n_sinks).sum(axis=1): the solver returns one column per sink '
              '(row-major (n_states, n_sinks)); another shape/axis mixes states and sinks')
    _pins(ck, rule + '.final-pin', mod, fn, fi, F, Cn, {sinks: 1}, stop, r[0], pin_ok, pin_bad,
          construct_missing='committors[sinks] = 1.0', also={sources: 0}, after=cm[0], names=Cnames,
          legit=(0.0, 1.0), mask_rule=rule + '.value-mask', mask_txt=MASK_TXT)
    _result_container(ck, rule + '.container', mod, fi, F, solve, ss, wrappers, tprob, v[0] == 'match')


_SIZE_FORMS = ['len(_S)', '_S.size', '_S.shape[0]', 'np.size(_S)']
# reductions applied DIRECTLY to an array of state indices (non-negative ints) and the values they can take over the
# NON-EMPTY index sets: 'bool' = {0, 1}, 'nat' = every non-negative integer
_VALUE_FORMS = [('_S.any()', 'bool'), ('_S.all()', 'bool'), ('bool(_S)', 'bool'), ('_S.sum()', 'nat'), ('_S.max()', 'nat'),
                ('_S.min()', 'nat'), ('np.count_nonzero(_S)', 'nat'), ('_S[0]', 'nat'), ('_S[-1]', 'nat'), ('_S', 'bool')]
_RELS = {ast.Eq: lambda a, b: a == b, ast.NotEq: lambda a, b: a != b, ast.Lt: lambda a, b: a < b, ast.LtE: lambda a, b: a <= b,
         ast.Gt: lambda a, b: a > b, ast.GtE: lambda a, b: a >= b}


def _set_quantity(e, sets):
    """`e` is a size of / a value reduction over one of the index arrays
    `sets`: ('size', S, 'nat') / ('value', S, domain); else None."""
    from ..match import match
    for p in _SIZE_FORMS:
        b = match(p, e)
        if b is not None and isinstance(b['_S'], ast.Name) and b['_S'].id in sets:
            return 'size', b['_S'].id, 'nat'
    for p, dom in _VALUE_FORMS:
        b = match(p, e)
        if b is not None and isinstance(b['_S'], ast.Name) and b['_S'].id in sets:
            return 'value', b['_S'].id, dom
    return None


def _atom_about_set(atom, sets):
    """An atomic conjunct (patterns.conjuncts) that compares a size / value
    reduction of an index array with a numeric constant (or tests its truth):
    (kind, S, values of the quantity that satisfy the atom among 0..K,
    values it can take over NON-EMPTY sets among 0..K); else None.  The
    enumeration is over the finite abstract domain of ONE scalar quantity."""
    if isinstance(atom, tuple):
        _, e, pol = atom
        q = _set_quantity(e, sets)
        if q is None:
            return None
        rel, k = (lambda a, b: a != b) if pol else (lambda a, b: a == b), 0
    else:
        lhs, op, rhs = atom.lhs, atom.op, atom.rhs
        if const_value(lhs) is not None and const_value(rhs) is None:
            f = atom.flipped()
            lhs, op, rhs = f.lhs, f.op, f.rhs
        k = const_value(rhs)
        q = _set_quantity(lhs, sets)
        if q is None or op not in _RELS or isinstance(k, bool) and q[2] != 'bool' or not isinstance(k, (int, float)):
            return None
        rel = _RELS[op]
    kind, S, dom = q
    top = int(max(k, 0)) + 2
    allv = [v for v in range(0, top + 1) if rel(v, k)]
    if kind == 'size':
        nonempty = [v for v in allv if v >= 1]
    else:
        nonempty = [v for v in allv if dom == 'nat' or v <= 1]
    return kind, S, allv, nonempty


def _implies_empty(test, pol, sets, fi, stop):
    """The test (under the polarity) can only hold when one of the index
    arrays is EMPTY (a size test no non-empty set satisfies): the exit it
    guards lies outside the property's quantifier."""
    if isinstance(test, ast.UnaryOp) and isinstance(test.op, ast.Not):
        return _implies_empty(test.operand, not pol, sets, fi, stop)
    if isinstance(test, ast.BoolOp):
        sub = [_implies_empty(v, pol, sets, fi, stop) for v in test.values]
        return any(sub) if isinstance(test.op, ast.And) == pol else all(sub)
    from ..patterns import conjuncts
    cj = conjuncts(test, pol) or []
    return any(a is not None and a[0] == 'size' and not a[3] for a in (_atom_about_set(c, sets) for c in cj))


def _reads_values(e, name):
    """Does the expression read the VALUES held by `name` (anything but its
    shape / length)?"""
    par = {}
    for n in ast.walk(e):
        for c in ast.iter_child_nodes(n):
            par[c] = n
    for n in ast.walk(e):
        if isinstance(n, ast.Name) and n.id == name:
            p = par.get(n)
            if isinstance(p, ast.Attribute) and p.attr in ('shape', 'ndim', 'size'):
                continue
            if isinstance(p, ast.Call) and call_name(p) in ('len', 'np.shape', 'np.size', 'np.ndim') and n in p.args:
                continue
            return True
    return False


def _early_exits(ck, rule, mod, fn, fi, F, early, tprob, sets, stop):
    """Every way OUT of committors that does not pass through the linear
    solve.  Away from sources and sinks a committor is the solution of the
    first-step equations of the given matrix, so for non-empty source and sink
    sets such an exit can only be right when it is never taken: an exit whose
    guard holds only for an EMPTY index set lies outside the quantifier; an
    exit whose guard is a condition on the VALUES of one index array that a
    non-empty set of state indices satisfies, and whose value does not read
    the transition probabilities, is a violation; anything else is not
    decided."""
    from ..patterns import conjuncts
    for ret in early:
        assumes = [a for a in fi.cfg.nodes if isinstance(a, Assume) and fi.cfg.dominates(a, ret)]
        where = 'exit of %s before the linear solve: %s' % (F, u(ret)[:80])
        if not assumes:
            ck.missing(rule, '%s (no guard found)' % where)
            continue
        expanded = []
        raw = False
        for a in assumes:
            t = canon(fi.expand(a.test, stop=stop))
            expanded.append((a, t))
            for nm in names_loaded(t) & set(sets):
                if 'PARAM' in fi.rd.defs_at(a.owner, nm):
                    raw = True      # the caller's object (scalar, list or array), not the flat index array
        if raw:
            ck.missing(rule, '%s: the guard tests the caller\'s source/sink argument before it is made a flat index array' % where)
            continue
        if any(_implies_empty(t, a.polarity, sets, fi, stop) for a, t in expanded):
            ck.ok(rule, mod, ret, u(ret)[:80], 'exit taken only for an empty source/sink set (outside the quantifier)')
            continue
        atoms = []
        opaque = False
        for a, t in expanded:
            cj = conjuncts(t, a.polarity)
            if cj is None:
                opaque = True
                continue
            for c in cj:
                x = _atom_about_set(c, sets)
                if x is None:
                    opaque = True
                else:
                    atoms.append((a, c, x))
        val = fi.expand(ret.value, stop=stop) if ret.value is not None else None
        blind = val is None or (is_pure(val) and not _reads_values(val, tprob))
        if opaque or len(atoms) != 1 or not blind:
            ck.missing(rule, '%s: whether this path is taken for non-empty source and sink sets, and what it returns then, '
                       'is not decided' % where)
            continue
        a, c, (kind, S, allv, nonempty) = atoms[0]
        shown = '%s %s' % ('' if a.polarity else 'not', u(a.test))
        if not nonempty:
            ck.missing(rule, '%s: the guard `%s` is not satisfied by any set of valid state indices this rule considered' % (where, shown.strip()))
            continue
        ck.bad(rule, mod, ret, F, 'exit before the linear solve: %s' % u(ret)[:80],
               'this exit returns `%s` - a value that does not depend on the transition probabilities - without solving '
               '(I - Q) B = R whenever `%s` holds. That is a condition on the %s of the index array `%s`, not on its being empty: '
               'it holds for non-empty sets of valid state indices (e.g. when the quantity is %d; `any`/`sum`/truthiness of an '
               'index array look at the state NUMBERS, so the set {0} counts as "nothing"). For such source/sink sets the '
               'committors must be 1 on the sinks and the transition-weighted average of the neighbours elsewhere; a constant '
               'vector violates both.'
               % (u(ret.value)[:60] if ret.value is not None else 'None', shown.strip(),
                  'VALUES' if kind == 'value' else 'size', S, nonempty[0]))


def _result_container(ck, rule, mod, fi, F, solve, ss, wrappers, tprob, direct):
    """Dense and sparse input give the same VALUE, which includes its
    container: a 1-D ndarray.  scipy's spsolve builds the multi-column
    solution for a sparse right-hand side (R = tprob[:, sinks] of a sparse
    tprob, two or more sinks) with the CLASS of its matrix operand.  The
    dense ndarray that _I_m_Q returns is turned into a sparse ARRAY by
    spsolve itself, so `B.reshape(n, k).sum(axis=1)` is 1-D; an operand
    wrapped into a scipy.sparse *_matrix / np.matrix has matrix semantics and
    the same reduction gives an (n, 1) numpy.matrix.  `direct`: the returned
    array is exactly that reduction of the solver's result (True), something
    else (False), or a construct this rule does not follow (None)."""
    mat = [w for w, k in wrappers if k == 'matrix']
    if mat and (call_name(solve) or '').split('.')[-1] != 'spsolve':
        ck.missing(rule, 'container of the solution of %s for a matrix-semantics operand %s' % (call_name(solve), u(mat[0])[:80]))
        return
    if not mat:
        ck.ok(rule, mod, solve, u(solve), 'the solver gets the ndarray built by %s (or an array-semantics container of it): the summed '
              'solution is a 1-D ndarray for dense and sparse input' % HELPER)
        return
    if _densified_before(mod, fi, tprob, ss):
        ck.ok(rule, mod, solve, u(solve), 'sparse input is densified before the solve: the right-hand side and the solution are ndarrays')
        return
    if direct:
        ck.bad(rule, mod, mat[0], F, 'matrix operand of the solve: %s' % u(mat[0]),
               'the matrix operand of spsolve is wrapped into `%s` (numpy.matrix semantics). For a sparse %s and two or more sinks '
               'the right-hand side is sparse and spsolve returns the solution in the class of its matrix operand; the reduction '
               '`.reshape(n_states, n_sinks).sum(axis=1)` of a sparse MATRIX is an (n_states, 1) numpy.matrix, not the 1-D ndarray '
               'obtained for dense input (dense and sparse inputs must give the same values): pass the ndarray from %s (or a '
               '*_array container), or convert the result back with np.asarray(...).ravel()'
               % ((call_name(mat[0]) or '?'), tprob, HELPER))
    else:
        ck.missing(rule, 'the matrix operand of the solve has matrix semantics (%s): whether the returned committors are converted back '
                   'to a 1-D ndarray is not decided' % u(mat[0])[:80])


MASK_TXT = ('Outside sources and sinks a committor is the solution of the first-step equation (transition-weighted average of the '
            'neighbours): only source/sink rows may be overwritten after the solve; rare-event chains have transient committors '
            'arbitrarily close to 0 and 1.')


RESHAPE2 = ['_S.reshape(_N, _K)', '_S.reshape((_N, _K))', 'np.reshape(_S, (_N, _K))']


def _solution_matrix(fi, e, solve):
    """`e` denotes the solver's result reshaped to two dimensions: returns the
    (rows, columns) expressions of the reshape, else None."""
    from ..match import match
    v = value_origin(fi, e)
    for p in RESHAPE2:
        b = match(p, v, canonical=False)
        if b is not None:
            s = b['_S']
            if s is solve or value_origin(fi, s) is solve:
                return b['_N'], b['_K']
    return None


def _arith(n):
    """np.add/np.subtract/np.multiply with two operands as operators."""
    if isinstance(n, ast.Call) and len(n.args) == 2 and not n.keywords:
        op = {'np.add': ast.Add, 'np.subtract': ast.Sub, 'np.multiply': ast.Mult}.get(call_name(n) or '')
        if op is not None:
            return ast.BinOp(left=n.args[0], op=op(), right=n.args[1])
    return n


def _column_fold(ck, rule, mod, fn, fi, F, Cn, solve, sinks, stop, forms, scope, ks):
    """The returned array `Cn` is accumulated over the per-sink columns of the
    solution in a loop (`acc = M[:, 0]; for k in range(1, K): acc = f(acc,
    M[:, k])`, or from zeros over range(K)).  Located by role: Cn is bound
    exactly twice, once before a top-level `for <k> in range(...)` loop and
    once directly in its body from itself.  The obligation is that the fold
    computes the plain SUM of all columns (absorption in different sink states
    are mutually exclusive events): the step, lifted over the symbols ACC_
    (the accumulator) and COL_ (column k of the reshaped solution), must equal
    ACC_ + COL_; the start value and the range must cover every column once.
    Returns the loop statement when the construct was located (verdicts are
    reported here), None when the definitions of Cn are not such a fold."""
    b = _binders(fi, Cn)
    if len(b) != 2 or 'PARAM' in b:
        return None
    inner = [s for s in b if _in_loop(mod, fn, s)]
    outer = [s for s in b if s not in inner]
    if len(inner) != 1 or len(outer) != 1:
        return None
    step, init = inner[0], outer[0]
    L = mod.parent.get(step)
    if not (isinstance(L, ast.For) and step in L.body and not L.orelse and isinstance(L.target, ast.Name)) or _in_loop(mod, fn, L):
        return None
    if any(isinstance(x, (ast.Break, ast.Continue, ast.Return)) for x in _nodes(L.body)):
        return None
    kv = L.target.id
    it = L.iter
    if len(_binders(fi, kv)) != 1 or not (isinstance(it, ast.Call) and call_name(it) == 'range' and not it.keywords
                                          and 1 <= len(it.args) <= 2):
        return None
    if not isinstance(init, ast.Assign) or fi.def_value(init, Cn) is None or not fi.cfg.dominates(init, L):
        return None
    if isinstance(step, ast.AugAssign) and isinstance(step.target, ast.Name):
        E = ast.BinOp(left=_sym('ACC_'), op=step.op, right=step.value)
    elif isinstance(step, ast.Assign) and fi.def_value(step, Cn) is not None:
        E = fi.def_value(step, Cn)
    else:
        return None
    mats = []

    def lift(e, d=6):
        if isinstance(e, ast.Name) and isinstance(e.ctx, ast.Load):
            if e.id == 'ACC_':
                return _sym('ACC_')
            if e.id == Cn:
                return _sym('ACC_') if fi.defs_of_use(e) == {init, step} else _sym(Cn)
            v = fi.temp_value(e) if d > 0 and e.id not in stop else None
            return lift(v, d - 1) if v is not None else _sym(e.id)
        if not isinstance(e, ast.AST) or isinstance(e, (ast.expr_context, ast.operator, ast.unaryop, ast.boolop, ast.cmpop)):
            return e
        if isinstance(e, ast.Subscript) and isinstance(e.slice, ast.Tuple) and len(e.slice.elts) == 2 and _full(e.slice.elts[0]) \
                and isinstance(e.slice.elts[1], ast.Name) and e.slice.elts[1].id == kv:
            m = _solution_matrix(fi, e.value, solve)
            if m is not None:
                mats.append(m)
                return _sym('COL_')
        new = type(e)()
        for f in e._fields:
            val = getattr(e, f, None)
            if isinstance(val, list):
                setattr(new, f, [lift(x, d) for x in val])
            elif isinstance(val, ast.AST):
                setattr(new, f, lift(val, d))
            else:
                setattr(new, f, val)
        return new
    X = _rewrite(canon(ast.fix_missing_locations(ast.Expression(body=lift(E))).body), _arith)
    sc = {'ACC_', 'COL_'}
    if not mats or not _closed_over(X, sc) or not names_loaded(X) <= sc:
        ck.missing(rule, 'loop that accumulates the returned array %s: the step is not a function of the accumulator and column '
                   '`%s` of the reshaped solution only: %s' % (Cn, kv, u(step)[:120]))
        return L
    # the matrix whose columns are folded: the solution in (n_states, n_sinks) layout
    for N, K in mats:
        synth = ast.parse('%s.reshape(%s, %s).sum(axis=1)' % (SOL_SYM, fi.xu(N, stop=stop), fi.xu(K, stop=stop)), mode='eval').body
        v = classify(synth, forms, scope=scope)
        ck.decide(v, rule, mod, fi.stmt(N), F, 'reshape(%s, %s)' % (u(N), u(K)),
                  'the solution is laid out as one column per sink',
                  'the solver returns one column per sink (row-major (n_states, n_sinks)): another shape mixes states and sinks')
    try:
        same = symx.equal(symx.lift(X), symx.parse('ACC_ + COL_'))
    except AnalysisIncomplete:
        same = False        # a pure function of accumulator and column outside +,-,*,/ : not their sum
    ck.check(bool(same), rule, mod, step, F, u(step),
             'probability of hitting ANY sink = sum over the per-sink columns (accumulated column by column)',
             'the per-sink columns of the solution must be ADDED: absorption in different sink states are mutually exclusive '
             'events, P(any sink) = sum_k B[:, k]; this step combines accumulator and column as `%s`, which is a different '
             'function (it changes the committors of intermediate states as soon as there are two sinks)' % u(X)[:120])
    # coverage: start value and range visit every column exactly once
    iv = fi.def_value(init, Cn)
    if isinstance(iv, ast.Call) and isinstance(iv.func, ast.Attribute) and iv.func.attr == 'copy' and not iv.args and not iv.keywords:
        iv = iv.func.value
    kind = None
    if isinstance(iv, ast.Subscript) and isinstance(iv.slice, ast.Tuple) and len(iv.slice.elts) == 2 and _full(iv.slice.elts[0]) \
            and const_value(fi.expand(iv.slice.elts[1])) == 0 and _solution_matrix(fi, iv.value, solve) is not None:
        kind = 1            # starts from column 0: the loop has to begin at 1
    elif match_any(['np.zeros(_N)', 'np.zeros((_N,))', 'np.zeros(_N, dtype=float)', 'np.zeros(_N, float)'], fi.expand(iv)) is not None:
        kind = 0
    lo = const_value(fi.expand(it.args[0])) if len(it.args) == 2 else 0
    hi = it.args[-1]
    ht = fi.xu(hi, stop=stop)
    hi_ok = ht in [k for k in ks if k != '-1'] or any(ht == fi.xu(K, stop=stop) and ht != '-1' for _, K in mats) or (
        isinstance(hi, ast.Subscript) and const_value(hi.slice) == 1 and isinstance(hi.value, ast.Attribute)
        and hi.value.attr == 'shape' and _solution_matrix(fi, hi.value.value, solve) is not None)
    if kind is None or isinstance(lo, bool) or not isinstance(lo, int) or not (hi_ok or _closed_over(canon(fi.expand(hi, stop=stop)), scope)):
        ck.missing(rule, 'start value / range of the column fold: %s; %s' % (u(init)[:80], u(it)[:60]))
    else:
        ck.check(lo == kind and hi_ok, rule, mod, L, F, '%s; for %s in %s' % (u(init), kv, u(it)),
                 'every sink column enters the sum exactly once',
                 'the fold must visit every sink column exactly once (start from column 0 and loop over 1..n_sinks-1, or start '
                 'from zeros and loop over all n_sinks columns)')
    return L


class _Opaque(Exception):
    pass


_ABS_FUNCS = ('abs', 'np.abs', 'np.absolute', 'np.fabs', 'numpy.abs', 'numpy.absolute', 'math.fabs')
_ISCLOSE_FUNCS = ('np.isclose', 'numpy.isclose', 'math.isclose')
_CMP = {ast.Lt: lambda a, b: a < b, ast.LtE: lambda a, b: a <= b, ast.Gt: lambda a, b: a > b, ast.GtE: lambda a, b: a >= b,
        ast.Eq: lambda a, b: a == b, ast.NotEq: lambda a, b: a != b}


def _elem_eval(e, names, v):
    """Abstract semantics of an elementwise expression over ONE element `v` of
    the array known under `names` (+ - * /, abs, comparisons, & | ~,
    np.logical_*, np.isclose with constant tolerances), implemented here:
    nothing of the analysed code is executed.  Numbers are floats, masks are
    bools; anything else raises _Opaque."""
    def num(x):
        r = _elem_eval(x, names, v)
        if isinstance(r, bool):
            raise _Opaque()
        return r

    def boolean(x):
        r = _elem_eval(x, names, v)
        if not isinstance(r, bool):
            raise _Opaque()
        return r
    if isinstance(e, ast.Constant):
        if isinstance(e.value, bool):
            return e.value
        if isinstance(e.value, (int, float)):
            return float(e.value)
        raise _Opaque()
    if isinstance(e, ast.Name):
        if e.id in names:
            return v
        raise _Opaque()
    if isinstance(e, ast.UnaryOp):
        if isinstance(e.op, ast.USub):
            return -num(e.operand)
        if isinstance(e.op, ast.UAdd):
            return num(e.operand)
        if isinstance(e.op, (ast.Invert, ast.Not)):
            return not boolean(e.operand)
        raise _Opaque()
    if isinstance(e, ast.BinOp):
        if isinstance(e.op, (ast.BitAnd, ast.BitOr)):
            a, b = boolean(e.left), boolean(e.right)
            return (a and b) if isinstance(e.op, ast.BitAnd) else (a or b)
        a, b = num(e.left), num(e.right)
        if isinstance(e.op, ast.Add):
            return a + b
        if isinstance(e.op, ast.Sub):
            return a - b
        if isinstance(e.op, ast.Mult):
            return a * b
        if isinstance(e.op, ast.Div) and b != 0:
            return a / b
        raise _Opaque()
    if isinstance(e, ast.Compare):
        vals = [num(e.left)] + [num(c) for c in e.comparators]
        res = True
        for i, op in enumerate(e.ops):
            f = _CMP.get(type(op))
            if f is None:
                raise _Opaque()
            res = res and f(vals[i], vals[i + 1])
        return res
    if isinstance(e, ast.Call):
        cn = call_name(e) or ''
        if any(isinstance(a, ast.Starred) for a in e.args) or any(k.arg is None for k in e.keywords):
            raise _Opaque()
        if cn in _ABS_FUNCS and len(e.args) == 1 and not e.keywords:
            return abs(num(e.args[0]))
        if cn in ('np.logical_and', 'np.logical_or') and len(e.args) == 2 and not e.keywords:
            a, b = boolean(e.args[0]), boolean(e.args[1])
            return (a and b) if cn.endswith('and') else (a or b)
        if cn == 'np.logical_not' and len(e.args) == 1 and not e.keywords:
            return not boolean(e.args[0])
        if cn in _ISCLOSE_FUNCS and 2 <= len(e.args) <= 4:
            kw = {k.arg: k.value for k in e.keywords}
            if cn.startswith('math.'):
                if len(e.args) != 2 or set(kw) - {'rel_tol', 'abs_tol'}:
                    raise _Opaque()
                a, b = num(e.args[0]), num(e.args[1])
                rt = num(kw['rel_tol']) if 'rel_tol' in kw else 1e-09
                at = num(kw['abs_tol']) if 'abs_tol' in kw else 0.0
                return abs(a - b) <= max(rt * max(abs(a), abs(b)), at)
            if set(kw) - {'rtol', 'atol', 'equal_nan'}:
                raise _Opaque()
            a, b = num(e.args[0]), num(e.args[1])
            pos = list(e.args[2:])
            if (pos and 'rtol' in kw) or (len(pos) > 1 and 'atol' in kw):
                raise _Opaque()
            rt = num(pos[0]) if pos else (num(kw['rtol']) if 'rtol' in kw else 1e-05)
            at = num(pos[1]) if len(pos) > 1 else (num(kw['atol']) if 'atol' in kw else 1e-08)
            return abs(a - b) <= at + rt * abs(b)       # numpy's (asymmetric) definition
        raise _Opaque()
    raise _Opaque()


def _cut_points(e, names):
    """Exact set of values of the element at which the mask `e` can change,
    when every atom is `v op c`, `abs(v - c) op t`, `abs(v) op t` or
    np.isclose(v, c, <constant tolerances>) (v the element, c and t
    constants) combined with & | ~ / np.logical_*: the mask is constant
    between two neighbouring cut points.  None when some atom has another
    shape (then only witnesses can be searched, no completeness claim)."""
    def const(x):
        try:
            r = _elem_eval(x, (), 0.0)
        except _Opaque:
            return None
        return None if isinstance(r, bool) else r

    def is_v(x):
        return isinstance(x, ast.Name) and x.id in names

    def centre(x):
        """x = v, v - c, c - v, v + c: the value of v where x is 0."""
        if is_v(x):
            return 0.0
        if isinstance(x, ast.BinOp) and isinstance(x.op, (ast.Sub, ast.Add)):
            sgn = -1.0 if isinstance(x.op, ast.Add) else 1.0
            if is_v(x.left) and const(x.right) is not None:
                return sgn * const(x.right)
            if is_v(x.right) and const(x.left) is not None:
                return const(x.left) if isinstance(x.op, ast.Sub) else -const(x.left)
        return None
    if isinstance(e, ast.BinOp) and isinstance(e.op, (ast.BitAnd, ast.BitOr)):
        a, b = _cut_points(e.left, names), _cut_points(e.right, names)
        return None if a is None or b is None else a | b
    if isinstance(e, ast.UnaryOp) and isinstance(e.op, (ast.Invert, ast.Not)):
        return _cut_points(e.operand, names)
    if isinstance(e, ast.Call):
        cn = call_name(e) or ''
        if cn in ('np.logical_and', 'np.logical_or', 'np.logical_not') and not e.keywords and e.args:
            out = set()
            for a in e.args:
                r = _cut_points(a, names)
                if r is None:
                    return None
                out |= r
            return out
        if cn in ('np.isclose', 'numpy.isclose') and len(e.args) >= 2 and is_v(e.args[0]) and const(e.args[1]) is not None:
            c = const(e.args[1])
            # tolerance = value of |a - b| <= tol at the (constant) second operand: read off the semantics above
            kw = {k.arg: k.value for k in e.keywords}
            pos = list(e.args[2:])
            rt = const(pos[0]) if pos else (const(kw['rtol']) if 'rtol' in kw else 1e-05)
            at = const(pos[1]) if len(pos) > 1 else (const(kw['atol']) if 'atol' in kw else 1e-08)
            if rt is None or at is None or set(kw) - {'rtol', 'atol', 'equal_nan'}:
                return None
            t = at + rt * abs(c)
            return {c - t, c + t}
        return None
    if isinstance(e, ast.Compare) and len(e.ops) == 1:
        l, r = e.left, e.comparators[0]
        if const(l) is not None and const(r) is None:
            l, r = r, l
        c = const(r)
        if c is None:
            return None
        if is_v(l):
            return {c}
        if isinstance(l, ast.Call) and (call_name(l) or '') in _ABS_FUNCS and len(l.args) == 1 and not l.keywords:
            z = centre(l.args[0])
            if z is not None:
                return {z - c, z + c}
        z = centre(l)
        if z is not None:
            return {z + c, z - c}
        return None
    if isinstance(e, ast.Constant) and isinstance(e.value, bool):
        return set()
    return None


def value_mask_store(fi, stmt, target, names, legit, stop):
    """`A[<mask>] = k` where the mask is an elementwise condition on the VALUES
    of A itself (A known under `names`) and k a constant: the store selects
    states by what the solver returned for them, not by membership in a state
    set.  With `legit` = (lo, hi), the closed range the exact values lie in
    (every value strictly inside is attained by some admissible input):

    * ('bad', v, k)  a value v with lo < v < hi, v != k satisfies the mask: a
      state whose exact value is v is overwritten with k, i.e. the returned
      value no longer satisfies the equation that defines it there;
    * ('ok', None, k)  the mask is false for every value in [lo, hi] other
      than k and stores the nearest bound outside the range (a clamp of
      round-off / a store that changes nothing) - decided on the exact
      partition of the real line by the cut points of the mask;
    * None  not such a store / cannot be decided (caller: incomplete).

    The mask is evaluated with the abstract semantics _elem_eval on the finite
    partition of the line induced by its constants."""
    if not isinstance(stmt, ast.Assign) or len(stmt.targets) != 1:
        return None
    k = _num_const(fi, stmt.value)
    if k is None:
        return None
    names = set(names)
    idx = canon(fi.expand(target.slice, stop=tuple(stop) + tuple(names)))
    if isinstance(idx, ast.Tuple):
        return None
    if not (names_loaded(idx) & names):
        return None
    lo, hi = legit
    try:
        if not isinstance(_elem_eval(idx, names, lo), bool):
            return None
    except _Opaque:
        return None
    k = float(k)

    def holds(v):
        try:
            return _elem_eval(idx, names, v)
        except (_Opaque, OverflowError, ZeroDivisionError):
            return None
    cuts = _cut_points(idx, names)
    consts = set()
    for n in ast.walk(idx):
        if isinstance(n, ast.Constant) and isinstance(n.value, (int, float)) and not isinstance(n.value, bool):
            consts.add(abs(float(n.value)))
    if any(isinstance(n, ast.Call) and (call_name(n) or '') in _ISCLOSE_FUNCS for n in ast.walk(idx)):
        consts |= {1e-05, 1e-08, 1e-09}
    base = set(consts) | {lo, hi, k} | set(cuts or ())
    pts = set(base)
    for c in base:
        for t in consts:
            pts |= {c - t, c + t, c - t - t * abs(c), c + t + t * abs(c)}
    pts |= set(cuts or ())
    order = sorted(p for p in pts if p == p and abs(p) != float('inf'))
    samples = list(order)
    for a, b in zip(order, order[1:]):
        samples.append(a + (b - a) / 2.0)
    samples += [order[0] - 1.0, order[-1] + 1.0]
    wit = [v for v in samples if lo < v < hi and v != k and holds(v) is True]
    if wit:
        return ('bad', max(wit, key=lambda v: abs(v - k)), k)
    if cuts is None:
        return None
    # complete enumeration: cut points (with the range bounds and k) and one point of every open interval between them
    for v in samples:
        h = holds(v)
        if h is None:
            return None
        if not h or v == k:
            continue
        if lo <= v <= hi:
            return None             # selects a bound value other than k: left to the pin rules
        if (v < lo and k != lo) or (v > hi and k != hi):
            return None
    return ('ok', None, k)


def _pins(ck, rule, mod, fn, fi, function, arr, want, stop, before, ok_txt, bad_txt, construct_missing=None, also=None, after=None,
          names=None, legit=None, mask_rule=None, mask_txt=''):
    """Constant stores `arr[<index set>] = <value>`: for every index set in
    `want` a store of the wanted value lies on every path from the definition
    `after` of the array to its consumer `before` (without `after`: dominates
    `before`); a store of another constant is a violation, a store that cannot
    be classified makes the analysis incomplete.  `also` lists further index sets with the
    only constant that may be stored there (a store that changes nothing).
    `names`: all local names of the array object (alias_class), default {arr}.
    Returns the effective stores."""
    names = set(names or ()) | {arr}
    got = {k: [] for k in want}
    allowed = dict(also or {})
    allowed.update(want)
    unknown, wrong, masked = [], [], []
    for s, t in stores_into(fn, names):
        k = _index_role(fi, t.slice, allowed, stop) if isinstance(s, ast.Assign) else None
        val = _num_const(fi, s.value) if k is not None else None
        vm = value_mask_store(fi, s, t, names, legit, stop) if (k is None and legit is not None) else None
        if vm is not None:
            masked.append((s, vm))
        elif k is None or val is None:
            unknown.append(s)
        elif val != allowed[k]:
            wrong.append(s)
        elif k in want:
            got[k].append(s)
    # other ways to write into the array: impure calls that receive it
    for c in calls_in(fn):
        takes = [a for a in list(c.args) + [k.value for k in c.keywords] if isinstance(a, ast.Name) and a.id in names]
        recv = isinstance(c.func, ast.Attribute) and isinstance(c.func.value, ast.Name) and c.func.value.id in names
        if (takes or recv) and not is_pure(ast.Call(func=c.func, args=[], keywords=[])):
            unknown.append(c)
    for s, (verdict, v, kk) in masked:
        mr = mask_rule or rule
        if verdict == 'ok':
            ck.ok(mr, mod, s, u(s), 'value-selected store into %s changes no value inside [%g, %g] (clamp of round-off to the nearest bound)'
                  % (arr, legit[0], legit[1]))
        else:
            ck.bad(mr, mod, s, function, 'store of a constant into %s under a mask on its own values' % arr,
                   '`%s` selects the elements by their VALUE: an element holding %r (a value strictly inside [%g, %g], which the exact '
                   'solution takes at a state outside the pinned sets for some admissible input) satisfies the mask and is overwritten '
                   'with %g. %s' % (u(s)[:120], v, legit[0], legit[1], kk, mask_txt))
    for s in wrong:
        ck.bad(rule, mod, s, function, u(s), bad_txt)
    for s in unknown:
        ck.missing(rule, 'store into %s not recognised: %s' % (arr, u(s)[:120]))
    eff = []
    for k in want:
        if after is not None and fi.cfg.reachable(after, before):
            dom = got[k] if got[k] and not fi.cfg.reachable(after, before, avoiding=got[k]) else []
        else:
            dom = [s for s in got[k] if fi.cfg.dominates(s, before)]
        if dom:
            eff += dom
            ck.ok(rule, mod, dom[0], '; '.join(u(s) for s in dom), ok_txt)
        elif got[k]:
            late = [s for s in got[k] if fi.cfg.reachable(before, s)]
            if late and len(late) == len(got[k]):
                ck.bad(rule, mod, late[0], function, u(late[0]), 'the store comes after its consumer: ' + bad_txt)
            else:
                ck.missing(rule, 'the store `%s` is conditional: cannot decide whether it is executed whenever it is needed' % u(got[k][0]))
        elif unknown or [s for s in wrong if _index_role(fi, subscript_of(s, names).slice, allowed, stop) == k]:
            pass            # already reported
        else:
            ck.bad(rule, mod, before, function, construct_missing or '%s[%s] = %s: MISSING' % (arr, k, want[k]), bad_txt)
    return eff


def subscript_of(stmt, names):
    for t in (stmt.targets if isinstance(stmt, ast.Assign) else [stmt.target]):
        for tt in (t.elts if isinstance(t, (ast.Tuple, ast.List)) else [t]):
            if isinstance(tt, ast.Subscript) and isinstance(tt.value, ast.Name) and tt.value.id in names:
                return tt
    return None


# ---------------------------------------------------------------------------
# mfpts: D4 D5 D6 D7, D3 (sink-set branch)

def _densified_before(mod, fi, tprob, stmt):
    """`if issparse(tprob): tprob = <dense form of tprob>` dominates stmt."""
    forms = ['%s.toarray()' % tprob, 'np.asarray(%s.todense())' % tprob, 'np.array(%s.todense())' % tprob,
             '%s.todense().A' % tprob, '%s.A' % tprob, 'np.asarray(%s.toarray())' % tprob]
    for s in assigns_to(fi.fn, tprob):
        if not (isinstance(s, ast.Assign) and len(s.targets) == 1 and match_any(forms, s.value) is not None):
            continue
        g = mod.parent.get(s)
        if not (isinstance(g, ast.If) and s in g.body):
            continue
        t = g.test
        if not (isinstance(t, ast.Call) and (call_name(t) or '').split('.')[-1] in ('issparse', 'isspmatrix')
                and len(t.args) == 1 and u(t.args[0]) == tprob):
            continue
        if fi.cfg.dominates(g, stmt) and stmt is not g and not _inside(mod, stmt, g):
            return True
    return False


def d_mfpts(ck, mod):
    F = 'mfpts'
    fn = mod.func(F)
    ck.analysed(mod, fn)
    fi = finfo(mod, fn)
    tprob, sinks, pops, lag = params(fn)[:4]
    d5_default_populations(ck, mod, fn, fi, F, tprob, pops)
    # D7 mode dispatch
    imqs = [c for c in calls_in(fn) if call_name(c) == HELPER]
    invs = [c for c in calls_in(fn) if (call_name(c) or '').split('.')[-1] in ('inv', 'pinv')]
    ifs = [n for n in walk_local(fn) if isinstance(n, ast.If) and sinks in names_loaded(fi.expand(n.test))]

    def splits(n):
        t, f = branches(mod, n)
        tn, fn_ = _nodes(t), _nodes(f)
        return any(c in tn or c in fn_ for c in imqs + invs)
    disp = [n for n in ifs if splits(n)]
    disp = [n for n in disp if not any(m is not n and _inside(mod, n, m) for m in disp)]
    if len(disp) != 1:
        ck.missing('C07.D7.dispatch', 'the branch on `%s` that separates the all-pairs and the sink-set computation (found %d)' % (sinks, len(disp)))
        return
    node = disp[0]
    test = canon(fi.expand(node.test))
    v = classify(test, ['%s is None' % sinks, '%s is not None' % sinks], scope={sinks})
    ok = ck.decide(v, 'C07.D7.dispatch', mod, node, F, u(node.test),
                   'all-pairs mode iff sinks is None (identity test)',
                   'the all-pairs/sink-set mode must be selected with `sinks is None`: a truthiness test treats the '
                   'sink set {0} (given as 0, np.int64(0) or np.array([0])) as "no sinks" and is ambiguous for arrays')
    if not ok:
        return
    t_list, f_list = branches(mod, node)
    is_none = isinstance(test.ops[0], ast.Is)
    allp, sset = (t_list, f_list) if is_none else (f_list, t_list)
    allp_nodes, sset_nodes = _nodes(allp), _nodes(sset)
    swapped = [c for c in imqs if c in allp_nodes and c not in sset_nodes] + [c for c in invs if c in sset_nodes and c not in allp_nodes]
    if swapped:
        ck.bad('C07.D7.dispatch', mod, node, F, 'branches of `%s`' % u(node.test),
               'the sink-set computation runs when sinks is None and the all-pairs computation when sinks are given')
        return
    if not allp or not sset:
        ck.missing('C07.D7.dispatch', 'both modes of mfpts (one branch of `%s` is empty)' % u(node.test))
        return
    # results of the two modes: every definition of the returned value
    results = {'all-pairs': [], 'sink-set': []}
    unresolved = []
    for ret in returns_of(fn):
        if ret.value is None:
            continue
        cands = []
        if isinstance(ret.value, ast.Name):
            nm = ret.value.id
            if fi._mutated_in_place(nm):
                # a constant stored under a mask on the table's own values: every positive time is attained
                # (the table scales with the lag time), so a value-selected overwrite is decided here
                for s_, t_ in stores_into(fn, {nm}):
                    vm = value_mask_store(fi, s_, t_, {nm}, (0.0, float('inf')), (tprob, sinks, pops, lag))
                    if vm is not None and vm[0] == 'bad':
                        ck.bad('C07.D4.value-mask', mod, s_, F, 'store of a constant into %s under a mask on its own values' % nm,
                               '`%s` selects entries of the returned MFPTs by their VALUE: an entry holding %r is overwritten with %g. '
                               'Away from the sinks an MFPT is one lag time plus the transition-weighted average of the neighbours\' '
                               'times and scales linearly with the lag time: every positive value occurs for some lag time, so the '
                               'overwrite breaks the first-step equation / the linear scaling.' % (u(s_)[:120], vm[1], vm[2]))
                unresolved.append('%s is modified in place' % nm)
                continue
            for site in fi.defs_of_use(ret.value):
                val = fi.def_value(site, nm) if site not in ('PARAM', 'UNBOUND') else None
                if val is None:
                    unresolved.append('definition of %s at L%s' % (nm, getattr(site, 'lineno', '?')))
                else:
                    cands.append((site, val))
        else:
            cands.append((ret, ret.value))
        for site, val in cands:
            if site in allp_nodes and site not in sset_nodes:
                results['all-pairs'].append((site, val))
            elif site in sset_nodes and site not in allp_nodes:
                results['sink-set'].append((site, val))
            else:
                unresolved.append('result defined outside the two modes at L%s' % getattr(site, 'lineno', '?'))
    for x in unresolved:
        ck.missing('C07.D4.lag-linear', 'returned value of mfpts cannot be followed: %s' % x)
    for label in results:
        if not results[label] and not unresolved:
            ck.missing('C07.D4.lag-linear', 'the value returned in %s mode' % label)
    # D4 linearity in lagtime
    analysed = set()
    for label in ('all-pairs', 'sink-set'):
        for site, val in results[label]:
            analysed.add(site)
            X = xp(fi, mod, val)
            nums, dens = mul_factors(X)
            bare = [n for n in nums if isinstance(n, ast.Name) and n.id == lag]
            others = [n for n in nums if n not in bare] + dens
            inside = any(lag in names_loaded(n) for n in others)
            if not (len(bare) == 1 and not inside) and not is_pure(X):
                # an unknown helper stands between lagtime and the result
                ck.missing('C07.D4.lag-linear', 'how %s enters the %s result: %s' % (lag, label, u(site)[:120]))
                continue
            ck.check(len(bare) == 1 and not inside, 'C07.D4.lag-linear', mod, site, F, '%s: %s' % (label, u(site)),
                     'lagtime is a top-level factor exactly once',
                     '%s MFPTs must be lagtime * (expression without lagtime): the result has to scale linearly with the lag time' % label)

    def is_temp_def(s):
        if not (isinstance(s, ast.Assign) and len(s.targets) == 1 and isinstance(s.targets[0], ast.Name)):
            return False
        t = s.targets[0].id
        # the uses THIS definition reaches (a later rebinding of the same name - one step of a chain that was one
        # expression before - has its own uses); each of them must be read through by the expansion
        uses = []
        for n in walk_local(fn):
            if isinstance(n, ast.Name) and n.id == t and isinstance(n.ctx, ast.Load):
                try:
                    ds = fi.defs_of_use(n)
                except Exception:
                    return False
                if s in ds:
                    uses.append(n)

        def read_through(n):
            return fi.temp_value(n) is not None or _rebound_value(fi, n, (), 8) is not None
        return bool(uses) and all(read_through(n) for n in uses)
    elsewhere = []
    for s in ([] if unresolved else walk_local(fn)):
        if not isinstance(s, (ast.Assign, ast.AugAssign, ast.AnnAssign, ast.Return)) or s in analysed or s.value is None:
            continue
        if isinstance(s, ast.Return) and isinstance(s.value, ast.Name):
            continue        # followed through its definitions above
        if is_temp_def(s):
            continue        # seen wherever the temporary is expanded
        if lag in names_loaded(fi.expand(s.value)) or (isinstance(s, ast.Assign) and any(lag in names_loaded(t) for t in s.targets)):
            elsewhere.append(s)
    if not unresolved:
        ck.check(not elsewhere, 'C07.D4.lag-linear', mod, elsewhere[0] if elsewhere else fn, F,
                 u(elsewhere[0]) if elsewhere else 'uses of %s' % lag,
                 'lagtime enters only as the top-level factor of the returned value',
                 'lagtime is used elsewhere in mfpts (non-linear dependence on the lag time)')
    d5_all_pairs(ck, mod, fn, fi, F, node, results['all-pairs'], tprob, pops, lag)
    d3_sink_set(ck, mod, fn, fi, F, node, sset, results['sink-set'], tprob, sinks, pops, lag)


STATIONARY = 'eq_probs'
# np.linalg / scipy.linalg routines that are finite algebraic expressions of
# their operands (no eigen-decomposition, no linear solve, no determinant)
LINALG_FINITE = ('matrix_power', 'multi_dot', 'norm')


def _none_test(fi, test, name):
    """True / False when `test` is `<name> is None` / `<name> is not None`."""
    t = canon(fi.expand(test, stop=(name,)))
    if isinstance(t, ast.Compare) and len(t.ops) == 1 and isinstance(t.left, ast.Name) and t.left.id == name \
            and isinstance(t.comparators[0], ast.Constant) and t.comparators[0].value is None:
        if isinstance(t.ops[0], ast.Is):
            return True
        if isinstance(t.ops[0], ast.IsNot):
            return False
    return None


def _stationary_names(mod):
    """Local names under which the library's stationary-distribution routine
    (enspara.msm eq_probs) is imported into the module."""
    out = set()
    for n in ast.walk(mod.tree):
        if isinstance(n, ast.ImportFrom):
            for a in n.names:
                if a.name == STATIONARY:
                    out.add(a.asname or a.name)
    return out - set(mod.functions)


def d5_default_populations(ck, mod, fn, fi, F, tprob, pops):
    """The all-pairs formula needs the STATIONARY distribution of tprob.  When
    the caller passes none (the parameter defaults to None) the value computed
    in its place - located by role: what is bound to the populations name
    under the condition `populations is None` - must be the library's
    eigenvector routine applied to the transition matrix.  A closed-form numpy
    expression of tprob without an eigen-decomposition or a linear solve (a
    finite matrix power, row sums, a uniform vector) is a different function
    of tprob: it equals the stationary vector only for special chains.  An
    expression that goes through an eigen-/linear solver or an unknown helper
    cannot be decided here."""
    rule = 'C07.D5.populations-default'
    a = fn.args
    names = [x.arg for x in a.args]
    dflt = dict(zip(names[len(names) - len(a.defaults):], a.defaults)) if a.defaults else {}
    d = dflt.get(pops)
    if not (isinstance(d, ast.Constant) and d.value is None):
        return              # populations are mandatory (or have a non-None default): no default computation
    cands = []
    for n in walk_local(fn):
        if isinstance(n, ast.If):
            pol = _none_test(fi, n.test, pops)
            if pol is None:
                continue
            t_list, f_list = branches(mod, n)
            for s in _nodes(t_list if pol else f_list):
                if isinstance(s, (ast.Assign, ast.AnnAssign)) and fi.def_value(s, pops) is not None \
                        and not isinstance(fi.def_value(s, pops), ast.IfExp):
                    cands.append((s, fi.def_value(s, pops)))
        elif isinstance(n, ast.IfExp):
            pol = _none_test(fi, n.test, pops)
            if pol is None:
                continue
            val, other = (n.body, n.orelse) if pol else (n.orelse, n.body)
            if fi.xu(other, stop=(pops,)) == pops:
                cands.append((fi.stmt(n), val))
    if not cands:
        ck.missing(rule, 'the value that replaces `%s` when it is None (the equilibrium distribution of %s)' % (pops, tprob))
        return
    stat = _stationary_names(mod)
    for site, val in cands:
        X = xp(fi, mod, val, stop=(tprob, pops))
        cn = call_name(X) if isinstance(X, ast.Call) else None
        if cn and (cn in stat or (cn.split('.')[-1] == STATIONARY and '.' in cn)):
            a0 = arg_or_kw(X, 0, 'T')
            if a0 is not None and u(a0) == tprob:
                ck.ok(rule, mod, site, u(site), 'default populations = stationary distribution of the transition matrix (eq_probs)')
                continue
            if a0 is not None and _closed_over(a0, {tprob}):
                ck.bad(rule, mod, site, F, u(site), 'the default populations must be the stationary distribution of the transition '
                       'matrix itself: eq_probs is applied to `%s`' % u(a0)[:80])
                continue
            ck.missing(rule, 'argument of the stationary-distribution routine: %s' % u(site)[:120])
            continue
        solver = [c for c in ast.walk(X) if isinstance(c, ast.Call) and 'linalg' in (call_name(c) or '').split('.')
                  and (call_name(c) or '').split('.')[-1] not in LINALG_FINITE]
        if _closed_over(X, {tprob}) and not solver:
            ck.bad(rule, mod, site, F, u(site),
                   'when no populations are passed the all-pairs formula needs the stationary distribution of %s (left Perron '
                   'eigenvector, eq_probs(%s)); `%s` is a closed-form expression of %s without an eigen-decomposition or linear '
                   'solve: a finite power / sum / constant vector equals the stationary distribution only for special chains '
                   '(not for periodic or slowly mixing ones), so the all-pairs table no longer agrees with the single-sink solve'
                   % (tprob, tprob, u(X)[:100], tprob))
        else:
            ck.missing(rule, 'how the default populations are computed from %s: %s' % (tprob, u(site)[:120]))


def d5_all_pairs(ck, mod, fn, fi, F, node, results, tprob, pops, lag):
    rule = 'C07.D5.all-pairs'
    if not results:
        ck.missing(rule, 'value returned in all-pairs mode')
        return
    wforms = []
    for mk in ('np.array(%s)', 'np.asarray(%s)', 'np.vstack(%s)'):
        wforms += [mk % ('[%s] * _N' % pops), mk % ('_N * [%s]' % pops), mk % ('[%s for __ in range(_N)]' % pops)]
    wforms += ['np.tile(%s, (_N, 1))' % pops, 'np.outer(np.ones(_N), %s)' % pops, 'np.repeat(%s[None, :], _N, axis=0)' % pops,
               'np.broadcast_to(%s, (_N, _N))' % pops]
    eye = ['np.eye(_N)', 'np.identity(_N)', 'np.eye(_N, dtype=float)', 'np.eye(_N, _N)']
    inv = ['np.linalg.inv(_X)', 'scipy.linalg.inv(_X)', 'linalg.inv(_X)', 'inv(_X)']
    diag = ['np.diag(Z_)', 'Z_.diagonal()', 'np.diagonal(Z_)']
    base = {tprob, pops, lag, 'W_', 'I_', 'Z_', 'Zd_', 'Zwrong_'}
    for site, val in results:
        seen = {'W': [], 'Z': [], 'Zwrong': [], 'Zunk': []}

        def f(n):
            if not isinstance(n, ast.expr):
                return n
            if match_any(wforms, n) is not None:
                seen['W'].append(u(n))
                return _sym('W_')
            if match_any(eye, n) is not None:
                return _sym('I_')
            b = match_any(inv, n)
            if b is not None:
                arg = b['_X']
                try:
                    same = symx.equal(symx.lift(arg), symx.parse('I_ - %s + W_' % tprob))
                except AnalysisIncomplete:
                    same = None
                if same:
                    seen['Z'].append(u(n))
                    return _sym('Z_')
                if same is False or _closed_over(arg, base):
                    seen['Zwrong'].append(u(n))
                    return _sym('Zwrong_')
                seen['Zunk'].append(u(n))
                return n
            if match_any(diag, n) is not None:
                return _sym('Zd_')
            return n
        X = _rewrite(xp(fi, mod, val), f)
        closed = _closed_over(X, base)
        # W
        if seen['W']:
            ck.ok(rule, mod, site, seen['W'][0], 'W[i, j] = pi[j] (every ROW is the population vector)')
        elif closed:
            ck.bad(rule, mod, site, F, 'W in ' + u(X)[:160],
                   'W must have the populations as ROWS (W[i, j] = pi[j]); a transposed W divides by the population of the origin state')
        else:
            ck.missing(rule, 'the matrix W of population rows in the all-pairs formula: %s' % u(X)[:120])
        # Z
        if seen['Zwrong']:
            ck.bad(rule, mod, site, F, seen['Zwrong'][0][:200], 'the fundamental matrix must be inv(I - T + W)')
        elif seen['Z']:
            ck.ok(rule, mod, site, seen['Z'][0], 'Z = (I - T + W)^-1')
        else:
            ck.missing(rule, 'the fundamental matrix inv(I - T + W) in the all-pairs formula: %s' % u(X)[:120])
        # formula
        try:
            okM = symx.equal(symx.lift(X), symx.parse('%s * (Zd_ - Z_) / W_' % lag))
        except AnalysisIncomplete:
            okM = False if closed else None
        if okM is False and not (names_loaded(X) <= base):
            okM = None
        txt_bad = ('the all-pairs table must be lagtime * (np.diag(Z) - Z) / W: np.diag(Z) as a ROW gives Z[j, j]; '
                   'a column (np.diag(Z)[:, None]) or Z - diag changes sign/orientation')
        if okM is None:
            ck.missing(rule, 'all-pairs formula not recognised: %s' % u(X)[:160])
        else:
            ck.check(okM, rule, mod, site, F, u(site),
                     'm[i, j] = lag * (Z[j, j] - Z[i, j]) / W[i, j]  (np.diag(Z) broadcasts along rows)', txt_bad)


def d3_sink_set(ck, mod, fn, fi, F, node, sset, results, tprob, sinks, pops, lag):
    r = index_set(ck, 'C07.D3.mfpt-sinks', mod, fn, fi, F, sinks, sset, node)
    if r:
        sinks = r[1]            # the name that denotes the index ARRAY inside the branch
    nodes = _nodes(sset)
    solves = _solver_calls(nodes)
    if len(solves) != 1:
        ck.missing('C07.D3.mfpt-rhs', 'exactly one linear solve in the sink-set branch of mfpts (found %d)' % len(solves))
        return
    solve = solves[0]
    ss = fi.stmt(solve)
    imq = _imq_call(ck, 'C07.D3.mfpt-sinks', mod, fn, fi, F, solve)
    if imq is not None:
        if imq not in nodes:
            ck.missing('C07.D3.mfpt-sinks', 'the %s call of the sink-set branch' % HELPER)
        else:
            _imq_args(ck, 'C07.D3.mfpt-sinks', mod, fi, F, imq, tprob, [sinks], {sinks},
                      '(I - Q) masks the sinks', '_I_m_Q(tprob, sinks) expected')
    rule = 'C07.D3.mfpt-rhs'
    c = arg_or_kw(solve, 1, 'b')
    if not isinstance(c, ast.Name):
        ck.missing(rule, 'right-hand side of the MFPT solve is not a named array: %s' % u(c)[:80])
        return
    cn = c.id
    c0, cnames, cd = alias_class(mod, fn, fi, cn)
    cdefs = [cd] if cd is not None else []
    if len(cdefs) != 1 or not isinstance(cdefs[0], ast.Assign) or fi.def_value(cdefs[0], c0) is None or cdefs[0] not in nodes:
        ck.missing(rule, 'single definition of the right-hand side %s in the sink-set branch' % cn)
        return
    ones = ['np.ones(_N)', 'np.ones((_N,))', 'np.ones(_N, dtype=float)', 'np.ones(_N, float)', 'np.ones_like(_V, dtype=float)',
            'np.full(_N, 1.0)', 'np.full(_N, 1)']
    v = classify(xp(fi, mod, fi.def_value(cdefs[0], c0), stop=(tprob, sinks, pops)), ones, scope={tprob, sinks, pops})
    okc = ck.decide(v, rule, mod, cdefs[0], F, u(cdefs[0]), 'right-hand side: one lag per step everywhere',
                    'the MFPT right-hand side must be a vector of ones (one lag time per step)')
    if okc:
        _pins(ck, rule, mod, fn, fi, F, cn, {sinks: 0}, (tprob, sinks, pops), ss,
              'zero on the sinks, set before the solve',
              'the MFPT right-hand side must be ones with c[sinks] = 0 set BEFORE np.linalg.solve(I_m_Q, c)',
              construct_missing='%s[%s] = 0: MISSING' % (cn, sinks), after=cdefs[0], names=cnames)
    # what is returned is lag * <the solution>
    st = fi.xu(solve)
    for rsite, val in results:
        nums, dens = mul_factors(xp(fi, mod, val))
        rest = [n for n in nums if not (isinstance(n, ast.Name) and n.id == lag)]
        if not dens and len(rest) == 1 and u(rest[0]) in (st, st + '.flatten()', st + '.ravel()'):
            ck.ok(rule, mod, rsite, u(rsite), 'the returned times are the solution of (I - Q) t = c')
        elif not dens and len(rest) == 1 and isinstance(rest[0], ast.Name) and rest[0].id in cnames:
            ck.bad(rule, mod, rsite, F, u(rsite), 'the right-hand side, not the solution of the linear system, is returned')
        else:
            ck.missing(rule, 'returned sink-set value is not lagtime * <solution of the linear solve>: %s' % u(rsite)[:120])

"""C07 Committors and MFPTs: absorbing masking, pins, lag-time linearity,
all-pairs orientation, mode dispatch, sparse contract, inputs unmodified."""
import ast

from .. import symx
from ..core import (AnalysisIncomplete, call_name, const_value, kwarg,
                    names_loaded, params, target_names, u, walk_expr,
                    walk_local)
from ..patterns import (Cmp, assigns_to, calls_in, check_no_arg_mutation,
                        conjuncts, finfo, returns_of, subscript_stores)

CO = 'enspara/tpt/core.py'

EXPLANATION = (
    'Static decision of the structural necessary conditions of the committor '
    'and MFPT first-step equations: (D1) no store reaches the transition '
    'matrix, sources, sinks or populations arguments (R = tprob[:, sinks] is '
    'advanced indexing because sinks is an array, hence a copy); (D2) _I_m_Q '
    'builds eye - tprob fresh and performs the three stores absorbing columns '
    ':= 0, absorbing rows := 0, absorbing diagonal := 1 with the diagonal '
    'store last; (D3) R[sinks] = 1 and R[sources] = 0 precede the solve, the '
    'per-sink solutions are summed over axis 1, committors[sinks] = 1 is the '
    'last store before the return, c[sinks] = 0 precedes the MFPT solve, and '
    'the absorbing sets handed to _I_m_Q are sources+sinks resp. sinks; (D4) '
    'every definition of the returned MFPTs has lagtime as a top-level factor '
    'exactly once; (D5) the all-pairs formula lifts to lag*(Z[j,j]-Z[i,j])/'
    'pi[j] with Z = inv(I - T + W) and W rows = populations; (D6) the mode is '
    'selected by `sinks is None` and sparse input is densified before len/'
    'shape. The linear-algebra identities themselves are not decided.')


def check(ck):
    mod = ck.repo.mod(CO)
    d2_masking(ck, mod)
    d3_committors(ck, mod)
    d_mfpts(ck, mod)
    check_no_arg_mutation(ck, 'C07.D1.inputs-unmodified', [
        (CO, 'committors'), (CO, 'mfpts'), (CO, '_I_m_Q')])
    return EXPLANATION


def _full(e):
    return isinstance(e, ast.Slice) and e.lower is None and e.upper is None and e.step is None


def d2_masking(ck, mod):
    rule = 'C07.D2.masking'
    fn = mod.func('_I_m_Q')
    ck.analysed(mod, fn)
    fi = finfo(mod, fn)
    tprob, absn = params(fn)[0], params(fn)[1]
    r = returns_of(fn)
    if len(r) != 1 or not isinstance(r[0].value, ast.Name):
        ck.missing(rule, 'single named return in _I_m_Q')
        return
    M = r[0].value.id
    defs = [s for s in assigns_to(fn, M) if isinstance(s, ast.Assign)]
    ok = len(defs) == 1 and isinstance(defs[0].value, ast.BinOp) and isinstance(defs[0].value.op, ast.Sub) and \
        isinstance(defs[0].value.left, ast.Call) and call_name(defs[0].value.left) in ('np.eye', 'np.identity') and \
        u(defs[0].value.right) == tprob
    ck.check(ok, rule + '.fresh', mod, defs[0] if defs else fn, '_I_m_Q', u(defs[0]) if defs else M,
             'I - T is built as a new matrix', '_I_m_Q must start from a fresh np.eye(n) - tprob')
    st = [(s, t) for s, t in subscript_stores(fn, M)]
    kinds = []
    for s, t in st:
        sl = t.slice
        if isinstance(sl, ast.Tuple) and len(sl.elts) == 2:
            a, b = sl.elts
            if _full(a) and u(b) == absn and const_value(s.value) == 0:
                kinds.append(('cols', s))
            elif u(a) == absn and _full(b) and const_value(s.value) == 0:
                kinds.append(('rows', s))
            elif u(a) == absn and u(b) == absn and const_value(s.value) == 1:
                kinds.append(('diag', s))
            else:
                kinds.append(('other', s))
        else:
            kinds.append(('other', s))
    names = [k for k, _ in kinds]
    for want, why in (('cols', 'absorbing COLUMNS := 0 (no probability flows into absorbing states inside Q)'),
                      ('rows', 'absorbing ROWS := 0 (absorbing states do not move)'),
                      ('diag', 'absorbing DIAGONAL := 1 (keeps the system non-singular, pins the unknown)')):
        ck.check(names.count(want) == 1, rule, mod, [s for k, s in kinds if k == want][0] if want in names else fn,
                 '_I_m_Q', '%s store: %s' % (want, '; '.join(u(s) for k, s in kinds if k == want) or 'MISSING'), why,
                 'missing/duplicated masking step: ' + why)
    for k, s in kinds:
        if k == 'other':
            ck.bad(rule, mod, s, '_I_m_Q', u(s), 'unexpected store into I - Q (not one of the three masking steps)')
    if names.count('diag') == 1 and names.count('rows') == 1 and names.count('cols') == 1:
        order = [k for k in names if k != 'other']
        ck.check(order[-1] == 'diag', rule + '.order', mod, kinds[-1][1], '_I_m_Q', ' -> '.join(order),
                 'the diagonal is set after rows and columns were zeroed',
                 'the diagonal store must come LAST: zeroing absorbing rows/columns afterwards erases the ones and makes the system singular')
    ck.check(u(r[0].value) == M, rule, mod, r[0], '_I_m_Q', u(r[0]), 'returns the masked matrix', '')


def d3_committors(ck, mod):
    rule = 'C07.D3.committors'
    fn = mod.func('committors')
    ck.analysed(mod, fn)
    fi = finfo(mod, fn)
    tprob, sources, sinks = params(fn)[:3]
    # normalisation of index sets to flat int arrays
    for nm in (sources, sinks):
        ss = [s for s in assigns_to(fn, nm) if isinstance(s, ast.Assign)]
        ok = len(ss) == 1 and u(ss[0].value).startswith('np.array(%s, dtype=int)' % nm) and u(ss[0].value).endswith('.flatten()')
        ck.check(ok, rule + '.sets', mod, ss[0] if ss else fn, 'committors', u(ss[0]) if ss else nm,
                 '%s normalised to a flat integer array (advanced indexing => copies)' % nm,
                 '%s must be converted to a flat integer numpy array before it is used as an index' % nm)
    ab = [s for s in walk_local(fn) if isinstance(s, ast.Assign) and isinstance(s.value, ast.Call)
          and call_name(s.value) in ('np.append', 'np.concatenate', 'np.union1d')]
    ok = len(ab) == 1 and {sources, sinks} <= names_loaded(ab[0].value)
    absn = u(ab[0].targets[0]) if ab else '?'
    ck.check(ok, rule + '.absorbing', mod, ab[0] if ab else fn, 'committors', u(ab[0]) if ab else 'all_absorbing',
             'absorbing set = sources + sinks', 'the absorbing set must contain both sources and sinks')
    imq = [c for c in calls_in(fn) if call_name(c) == '_I_m_Q']
    ok = len(imq) == 1 and u(imq[0].args[0]) == tprob and u(imq[0].args[1]) == absn
    ck.check(ok, rule + '.absorbing', mod, imq[0] if imq else fn, 'committors', u(imq[0]) if imq else '_I_m_Q',
             '(I - Q) masks sources and sinks', '_I_m_Q must be called with the transition matrix and all absorbing states')
    # R
    Rdef = [s for s in walk_local(fn) if isinstance(s, ast.Assign) and isinstance(s.value, ast.Subscript)
            and u(s.value.value) == tprob]
    ok = len(Rdef) == 1 and isinstance(Rdef[0].value.slice, ast.Tuple) and _full(Rdef[0].value.slice.elts[0]) \
        and u(Rdef[0].value.slice.elts[1]) == sinks
    R = u(Rdef[0].targets[0]) if Rdef else 'R'
    ck.check(ok, rule + '.rhs', mod, Rdef[0] if Rdef else fn, 'committors', u(Rdef[0]) if Rdef else 'R',
             'right-hand side = columns of T leading into the sinks (one column per sink)',
             'R must be tprob[:, sinks]')
    pins = {u(t.slice): (s, const_value(s.value)) for s, t in subscript_stores(fn, R)}
    ok1 = sinks in pins and pins[sinks][1] == 1
    ok0 = sources in pins and pins[sources][1] == 0
    ck.check(ok1 and ok0, rule + '.rhs', mod, pins.get(sinks, (fn,))[0], 'committors',
             '; '.join(u(s) for s, _ in pins.values()), 'R[sinks] = 1 and R[sources] = 0 (boundary rows)',
             'the right-hand side must be pinned: R[sinks] = 1.0 and R[sources] = 0.0')
    solve = [c for c in calls_in(fn) if (call_name(c) or '').endswith('spsolve') or (call_name(c) or '').endswith('linalg.solve')]
    ok = len(solve) == 1 and u(solve[0].args[1]) == R
    ck.check(ok, rule + '.solve', mod, solve[0] if solve else fn, 'committors', u(solve[0]) if solve else 'solve',
             'solves (I - Q) B = R', 'the linear solve must use the masked matrix and R')
    if ok:
        ss = fi.stmt(solve[0])
        for k, (s, _) in pins.items():
            ck.check(fi.cfg.dominates(s, ss), rule + '.rhs', mod, s, 'committors', u(s), 'pin precedes the solve', 'R is pinned after the solve')
    # sum over sinks and final pin
    cm = [s for s in assigns_to(fn, 'committors') if isinstance(s, ast.Assign)]
    ok = len(cm) == 1 and '.sum(axis=1)' in u(cm[0].value) and 'reshape(n_states, %s.shape[0])' % sinks in u(cm[0].value)
    ck.check(ok, rule + '.sum', mod, cm[0] if cm else fn, 'committors', u(cm[0]) if cm else 'committors',
             'probability of hitting ANY sink = sum over the per-sink columns',
             'committors must be B.reshape(n_states, n_sinks).sum(axis=1)')
    fp = [(s, t) for s, t in subscript_stores(fn, 'committors')]
    ok = len(fp) == 1 and u(fp[0][1].slice) == sinks and const_value(fp[0][0].value) == 1
    ck.check(ok, rule + '.final-pin', mod, fp[0][0] if fp else fn, 'committors', u(fp[0][0]) if fp else 'committors[sinks] = 1.0',
             'sinks are pinned to exactly 1 after the sum',
             'after summing the per-sink columns every sink row holds n_sinks (each column of a sink row of R '
             'is 1): `committors[sinks] = 1.0` is required for more than one sink')
    if ok and cm:
        r = returns_of(fn)
        ck.check(fi.cfg.dominates(cm[0], fp[0][0]) and all(fi.cfg.dominates(fp[0][0], x) for x in r), rule + '.final-pin', mod, fp[0][0],
                 'committors', 'order', 'pin after the sum and before the return', 'the sink pin must follow the sum and precede the return')
    # sparse handling: tolil only (no len())
    lens = [c for c in calls_in(fn) if call_name(c) == 'len' and u(c.args[0]) == tprob]
    ck.check(not lens, 'C07.D6.sparse', mod, lens[0] if lens else fn, 'committors', u(lens[0]) if lens else 'no len(tprob)',
             'state count from .shape', 'len(<matrix>) raises TypeError for scipy sparse matrices')


def d_mfpts(ck, mod):
    fn = mod.func('mfpts')
    ck.analysed(mod, fn)
    fi = finfo(mod, fn)
    tprob, sinks, pops, lag = params(fn)[:4]
    # D6 sparse contract
    lens = [c for c in calls_in(fn) if call_name(c) == 'len' and u(c.args[0]) == tprob]
    dens = [s for s in walk_local(fn) if isinstance(s, ast.Assign) and u(s.targets[0]) == tprob and
            u(s.value) in ('%s.toarray()' % tprob, 'np.asarray(%s.todense())' % tprob, 'np.array(%s.todense())' % tprob)]
    ok = True
    why = 'state count does not use len() on a possibly sparse matrix'
    for c in lens:
        st = fi.stmt(c)
        g = [d for d in dens if fi.cfg.reachable(d, st)]
        gg = mod.parent.get(dens[0]) if dens else None
        ok = bool(g) and isinstance(gg, ast.If) and 'issparse' in u(gg.test)
        why = 'len(tprob) only after sparse input was densified'
    ck.check(ok, 'C07.D6.sparse', mod, lens[0] if lens else fn, 'mfpts', u(lens[0]) if lens else 'n_states = tprob.shape[0]',
             why, 'mfpts is documented for dense and sparse input, but len(<scipy sparse matrix>) raises '
             'TypeError: the state count must come from .shape (or the input be densified first)')
    # D7 mode dispatch
    ifs = [n for n in fn.body if isinstance(n, ast.If) and sinks in names_loaded(n.test)]
    disp = [n for n in ifs if any(isinstance(x, ast.Assign) and u(x.targets[0]) == 'mfpts' for x in ast.walk(n))]
    ok = len(disp) == 1 and u(disp[0].test) in ('%s is None' % sinks, '%s is not None' % sinks)
    ck.check(ok, 'C07.D7.dispatch', mod, disp[0] if disp else fn, 'mfpts', u(disp[0].test) if disp else 'if sinks is None',
             'all-pairs mode iff sinks is None (identity test)',
             'the all-pairs/sink-set mode must be selected with `sinks is None`: a truthiness test treats the '
             'sink set {0} (given as 0, np.int64(0) or np.array([0])) as "no sinks" and is ambiguous for arrays')
    if len(disp) != 1 or not ok:
        return
    node = disp[0]
    allp, sset = (node.body, node.orelse) if 'is None' in u(node.test) and 'not' not in u(node.test) else (node.orelse, node.body)
    # D4 linearity in lagtime
    for label, body in (('all-pairs', allp), ('sink-set', sset)):
        ms = [s for x in body for s in ast.walk(x) if isinstance(s, ast.Assign) and u(s.targets[0]) == 'mfpts']
        for s in ms:
            v = s.value
            ok = False
            rest = None
            # lagtime * E  or  E * lagtime  or (lagtime * E) / F
            def split(e):
                if isinstance(e, ast.BinOp) and isinstance(e.op, ast.Mult):
                    if u(e.left) == lag:
                        return e.right
                    if u(e.right) == lag:
                        return e.left
                if isinstance(e, ast.BinOp) and isinstance(e.op, ast.Div):
                    inner = split(e.left)
                    if inner is not None:
                        return ast.BinOp(left=inner, op=ast.Div(), right=e.right)
                return None
            rest = split(v)
            ok = rest is not None and lag not in names_loaded(rest)
            ck.check(ok, 'C07.D4.lag-linear', mod, s, 'mfpts', '%s: %s' % (label, u(s)),
                     'lagtime is a top-level factor exactly once',
                     '%s MFPTs must be lagtime * (expression without lagtime): the result has to scale linearly with the lag time' % label)
    occ = [n for n in walk_local(fn) if isinstance(n, ast.Name) and n.id == lag]
    ck.check(len(occ) == 2, 'C07.D4.lag-linear', mod, fn, 'mfpts', '%d uses of %s' % (len(occ), lag),
             'lagtime occurs once per mode and nowhere else', 'lagtime is used elsewhere in mfpts (non-linear dependence on the lag time)')
    # D5 all-pairs formula
    asg = {u(s.targets[0]): s for x in allp for s in ast.walk(x) if isinstance(s, ast.Assign)}
    W, Z, M = asg.get('W'), asg.get('Z'), asg.get('mfpts')
    okW = W is not None and u(W.value) in ('np.array([%s] * n_states)' % pops, 'np.tile(%s, (n_states, 1))' % pops,
                                            'np.array([%s for _ in range(n_states)])' % pops, 'np.outer(np.ones(n_states), %s)' % pops)
    ck.check(okW, 'C07.D5.all-pairs', mod, W or node, 'mfpts', u(W) if W else 'W', 'W[i, j] = pi[j] (every ROW is the population vector)',
             'W must have the populations as ROWS (W[i, j] = pi[j]); a transposed W divides by the population of the origin state')
    okZ = Z is not None and u(Z.value) == 'np.linalg.inv(np.eye(n_states) - %s + W)' % tprob
    ck.check(okZ, 'C07.D5.all-pairs', mod, Z or node, 'mfpts', u(Z) if Z else 'Z', 'Z = (I - T + W)^-1', 'the fundamental matrix must be inv(I - T + W)')
    okM = False
    if M is not None:
        try:
            got = symx.lift(M.value, rename={'np.diag(Z)': 'Zdiag'})
            want = symx.parse('%s * (Zdiag - Z) / W' % lag)
            okM = symx.equal(got, want)
        except AnalysisIncomplete:
            okM = False
    ck.check(okM, 'C07.D5.all-pairs', mod, M or node, 'mfpts', u(M) if M else 'mfpts',
             'm[i, j] = lag * (Z[j, j] - Z[i, j]) / W[i, j]  (np.diag(Z) broadcasts along rows)',
             'the all-pairs table must be lagtime * (np.diag(Z) - Z) / W: np.diag(Z) as a ROW gives Z[j, j]; '
             'a column (np.diag(Z)[:, None]) or Z - diag changes sign/orientation')
    # sink-set branch
    asg = {u(s.targets[0]): s for x in sset for s in ast.walk(x) if isinstance(s, ast.Assign)}
    sn = asg.get(sinks)
    ok = sn is not None and u(sn.value).startswith('np.array(%s, dtype=int)' % sinks) and u(sn.value).endswith('.flatten()')
    ck.check(ok, 'C07.D3.mfpt-sinks', mod, sn or node, 'mfpts', u(sn) if sn else sinks, 'sinks normalised to a flat integer array', 'sinks must be converted to a flat int array')
    imq = [c for x in sset for c in ast.walk(x) if isinstance(c, ast.Call) and call_name(c) == '_I_m_Q']
    ok = len(imq) == 1 and u(imq[0].args[0]) == tprob and u(imq[0].args[1]) == sinks
    ck.check(ok, 'C07.D3.mfpt-sinks', mod, imq[0] if imq else node, 'mfpts', u(imq[0]) if imq else '_I_m_Q', '(I - Q) masks the sinks', '_I_m_Q(tprob, sinks) expected')
    c = asg.get('c')
    okc = c is not None and u(c.value) == 'np.ones(n_states)'
    pin = [(s, t) for x in sset for s in ast.walk(x) if isinstance(s, ast.Assign) for t in s.targets
           if isinstance(t, ast.Subscript) and u(t.value) == 'c']
    okp = len(pin) == 1 and u(pin[0][1].slice) == sinks and const_value(pin[0][0].value) == 0
    sol = [x for y in sset for x in ast.walk(y) if isinstance(x, ast.Call) and (call_name(x) or '').endswith('linalg.solve')]
    oks = len(sol) == 1 and u(sol[0].args[1]) == 'c'
    order = okp and oks and fi.cfg.dominates(pin[0][0], fi.stmt(sol[0]))
    ck.check(okc and okp and oks and order, 'C07.D3.mfpt-rhs', mod, pin[0][0] if pin else node, 'mfpts',
             '%s ; %s ; %s' % (u(c) if c else '?', u(pin[0][0]) if pin else '?', u(sol[0]) if sol else '?'),
             'right-hand side: one lag per step everywhere, zero on the sinks, set before the solve',
             'the MFPT right-hand side must be ones with c[sinks] = 0 set BEFORE np.linalg.solve(I_m_Q, c)')

"""C19 History independence: initialisation-before-read, no argument mutation,
thread independence of kernels, no hidden module state."""
import ast
import os
import re

from ..cfg import ENTRY, EXIT, Assume
from ..core import (PYX_FILES, AnalysisIncomplete, Module, _canon_tree, base_name, call_name, const_value,
                    kwarg, names_loaded, params, target_names, u, walk_expr,
                    walk_local)
from ..cykernel import Kernel, check_prange, norm_extent, subscript_dims
from ..effects import MUTATING_FUNCS_ARG0, MUTATING_METHODS
from ..patterns import (UNINIT_ALLOCS, check_empty_allocs, check_masked_ufuncs,
                        check_no_arg_mutation, finfo, shared)

ANCHORED = [
    'enspara/info_theory/entropy.py', 'enspara/info_theory/mutual_info.py',
    'enspara/msm/builders.py', 'enspara/msm/transition_matrices.py',
    'enspara/tpt/core.py', 'enspara/tpt/tpt.py', 'enspara/tpt/path.py',
    'enspara/cluster/util.py', 'enspara/geometry/libdist.pyx',
    'enspara/info_theory/libinfo.pyx', 'enspara/ra/ra.py',
]
EXTRA_ENTRY_MODULES = ['enspara/cluster/kcenters.py', 'enspara/cluster/kmedoids.py',
                       'enspara/cluster/hybrid.py', 'enspara/msm/libmsm.pyx',
                       'enspara/msm/msm.py', 'enspara/msm/timescales.py',
                       'enspara/msm/synthetic_data.py', 'enspara/cards/disorder.py',
                       'enspara/geometry/rotamer.py', 'enspara/mpi/ops.py',
                       # numerical routine outside the anchors whose argument is an md.Trajectory of MSM centres
                       # (finding rmsf-superpose-inplace: Trajectory.superpose works in place and returns self)
                       'enspara/geometry/rmsf.py']

# modules outside the property's anchors whose helpers store into their
# arguments by design (not triaged against a documented contract): swept in
# the thorough tier as OBSERVATIONs only
OBSERVE_ONLY = ['enspara/msm/bace.py', 'enspara/geometry/explicit_r0_calc.py']

# documented / intended in-place behaviour of functions in the scanned modules
EXTRA_EXEMPT = {
    ('enspara/mpi/io.py', 'load_trajectory_as_striped'): {},
    ('enspara/cluster/util.py', 'reassign'): {},
}

# private helpers that normalise index arrays their (private) callers have
# already copied; the public callers are checked instead
PRIVATE_INPLACE_HELPERS = {
    ('enspara/ra/ra.py', '_handle_negative_indices'):
        'private helper of _convert_from_2d, which passes freshly built np.array copies '
        '(checked: _convert_from_2d itself mutates no parameter)',
    ('enspara/cluster/kcenters.py', '_kcenters_iteration'):
        'private step function: kcenters() owns distances/assignments/centre list it passes '
        '(fresh np.full / assign_to_nearest_center results; checked: kcenters mutates no parameter)',
    ('enspara/cluster/kcenters.py', '_kcenters_iteration_mpi'):
        'private step function, as _kcenters_iteration',
}

EXPLANATION = (
    'Package-wide static decision of the structural necessary conditions of '
    'history independence: (D1) every numpy ufunc call with where= supplies an '
    'out= buffer whose reaching definitions are all initialised allocations; '
    '(D2) every np.empty/empty_like buffer is fully written (fill, x[:] =, '
    'unmasked out=, Bcast receive, or the asserted running-offset fill idiom) '
    'on every path before any read; (D3) the Cython kernels store to each '
    'cell they update from its previous contents (`b[i] op= e` or `b[i] = '
    'f(b[i])`) before that update (or allocate the buffer initialised), and a buffer that '
    'leaves the kernel (package helper that stores into it, raw pointer) is reported as undecided, '
    'never as discharged (.callee); (D4) '
    'no public routine of the anchored modules (plus the clustering and MSM '
    'entry points) can store into storage reachable from one of its arguments '
    '(interprocedural may-alias/effects fixed point over the call graph) '
    'unless documented in place; (D5) prange iterations own disjoint output '
    'cells and no floating-point scalar is an OpenMP reduction variable of a prange loop (the '
    'grouping of the partial sums follows the thread count; .reduction); (D6) no function of the '
    'library (all modules except the command line apps and the citation registry; .py and .pyx) writes '
    'module-level state (global statements outside process-pool initialisers, module containers, '
    'attributes of module-level functions / classes / imported modules), an attribute that a '
    'method fills lazily from other attributes of its object (memo / '
    'cached_property) is reset by every method that writes those attributes - in the class itself, '
    'its in-package bases and every in-package subclass whose objects inherit the memo - and the '
    'mutable result of an lru_cache / cache function is never updated in place by a caller. '
    'A .pyx file that the Cython front end refuses only because of cdef helper functions or global '
    'statements is parsed with the adapters of this rule file (cdef functions as module functions). '
    'Uninitialised reads or '
    'mutation inside third-party calls are trusted to their documented '
    'contracts (that is what the transfer tables encode).')


# ---------------------------------------------------------------------------
# front-end extension (candidate for promotion to sa/pyxfront.py)
#
# sa/pyxfront.py adapts Cython's parse tree node type by node type and refuses a
# whole module that contains a node type it has no adapter for; every rule of
# this property then has nothing to look at (three of the anchors are .pyx
# files).  Two constructs that are ordinary in a kernel module are adapted here
# (parsing only - nothing is compiled, imported or run):
#   * `cdef [inline] T f(T1 a, ...) [nogil]: body` -> FunctionDef with
#     cy_cdef=True (cy_argtypes / cy_locals as for `def`; a pointer / array
#     parameter is recorded with CyType.pointer=True).  The parameters and cdef
#     locals of a C function are C locals of that call: thread-private, created
#     per call.  From then on the helper is an ordinary module function for the
#     inliner (sa/inline.py undoes "extract a private helper"), for the call
#     graph of the effects analysis (D4) and for the kernel rules below, which
#     are told what they do NOT see through (D3/D5 `.callee`).
#   * `global n` / `nonlocal n` -> ast.Global / ast.Nonlocal; D6.module-state
#     covers the .pyx anchors, so a module variable written by a kernel-module
#     function is decided, not skipped.
# A cpdef function, varargs, a body-less declaration, memoryview parameter types
# and every other unknown node stay refused (ANALYSIS-INCOMPLETE as before).

_X_NODES = ('CFuncDefNode', 'GlobalNode', 'NonlocalNode')


class _Shim:
    pass


def _x_global(self, cy):
    return ast.Global(names=[str(x) for x in cy.names])


def _x_nonlocal(self, cy):
    return ast.Nonlocal(names=[str(x) for x in cy.names])


def _x_cfuncdef(self, cy):
    from ..pyxfront import CyType
    d = cy.declarator
    indirect = False
    while type(d).__name__ != 'CFuncDeclaratorNode':
        if type(d).__name__ != 'CNameDeclaratorNode' and hasattr(d, 'base'):
            d, indirect = d.base, True
        else:
            self._unsupported(cy)
    if getattr(d, 'has_varargs', False) or getattr(cy, 'overridable', False) or \
            getattr(d, 'overridable', False) or cy.body is None:
        self._unsupported(cy)
    sh = _Shim()
    sh.args, sh.name, sh.star_arg, sh.starstar_arg = d.args, self._declname(d.base), None, None
    sh.body, sh.pos = cy.body, cy.pos
    fn = self.s_DefNode(sh)
    for a in d.args:
        if type(a.declarator).__name__ != 'CNameDeclaratorNode':     # T* p / T p[] / T& p
            nm = self._declname(a.declarator)
            t0 = fn.cy_argtypes.get(nm) or self.cytype(a.base_type)
            t = CyType(t0.base, text=t0.text + '*')
            t.pointer = True
            fn.cy_argtypes[nm] = t
    fn.cy_cdef = True
    fn.cy_nogil = bool(getattr(d, 'nogil', False))
    fn.cy_inline = 'inline' in (getattr(cy, 'modifiers', None) or [])
    try:
        fn.cy_return = None if indirect else self.cytype(cy.base_type)
    except AnalysisIncomplete:
        fn.cy_return = None
    return fn


def _adapter_x():
    from .. import pyxfront

    class AdapterX(pyxfront._Adapter):
        pass
    for name, f in (('s_GlobalNode', _x_global), ('s_NonlocalNode', _x_nonlocal), ('s_CFuncDefNode', _x_cfuncdef)):
        if not hasattr(pyxfront._Adapter, name):          # once promoted, the front end's own adapter wins
            setattr(AdapterX, name, f)
    return AdapterX


_INLINE_TAG = re.compile(r'^(.+)__i\d+$')


def _type_inlined_bindings(repo, mod):
    """sa/inline.py binds a non-trivial argument of an inlined helper to a temporary `<param>__iN` and copies
    the helper's statements with its locals renamed `<local>__iN`.  When the helper is a cdef function those
    are C locals of the declared type (thread-private, per call): the declarations are carried over to the
    caller so that the kernel rules judge them as what they are."""
    for fname, helpers in (getattr(repo, 'inlined', {}).get(mod.rel) or {}).items():
        fn = mod.functions.get(fname)
        if fn is None or not hasattr(fn, 'cy_locals'):
            continue
        cands = {}
        for h in helpers:
            hf = mod.functions.get(h)
            if hf is None or not getattr(hf, 'cy_cdef', False):
                continue
            for p, t in list(hf.cy_argtypes.items()) + list(hf.cy_locals.items()):
                cands.setdefault(p, {})[t.text] = t
        if not cands:
            continue
        for n in ast.walk(fn):
            if isinstance(n, ast.AnnAssign) and hasattr(n, 'cy_type') and isinstance(n.target, ast.Name):
                fn.cy_locals.setdefault(n.target.id, n.cy_type)
        for n in ast.walk(fn):
            if isinstance(n, ast.Assign) and len(n.targets) == 1 and isinstance(n.targets[0], ast.Name):
                nm = n.targets[0].id
                m = _INLINE_TAG.match(nm)
                if m and nm not in fn.cy_locals and nm not in fn.cy_argtypes and len(cands.get(m.group(1), ())) == 1:
                    fn.cy_locals[nm] = next(iter(cands[m.group(1)].values()))


def load_refused_pyx(repo):
    """Parse again, with the adapters above, every .pyx file the front end refused ONLY because of a node type
    adapted here, and put it through the same normalisation as every other module.  Returns the list of
    files recovered; a file that is still refused keeps its original error (repo.mod raises it)."""
    from .. import patterns, pyxfront
    repo._load_pyx()
    got = []
    for rel in PYX_FILES:
        if rel in repo.modules:
            continue
        err = str(dict(repo.errors).get(rel) or '')
        if 'unsupported Cython construct' not in err or not any(t in err for t in _X_NODES):
            continue
        path = os.path.join(repo.root, rel)
        try:
            with open(path, encoding='utf-8') as f:
                src = f.read()
            tree = _adapter_x()(rel).module(pyxfront._cy_parse(path, rel))
            ast.fix_missing_locations(tree)
            tree = _canon_tree(tree)
        except Exception:
            continue
        repo.errors = [x for x in repo.errors if x[0] != rel]
        repo.modules[rel] = Module(rel, src, tree, 'pyx')
        if rel not in repo.units:
            repo.units.append(rel)
        if os.environ.get('VERIF_NO_RENAME') != '1':
            repo._normalise(rel)
        patterns._shared.pop(id(repo), None)        # resolver / effects were built without this module
        got.append(rel)
    for rel in PYX_FILES:
        if rel in repo.modules:
            _type_inlined_bindings(repo, repo.modules[rel])
    return got


# ---------------------------------------------------------------------------
# D3: a kernel never reads a cell of its output buffer before storing to it
#
# An "update from previous contents" of a typed buffer cell is either spelling
# of a read-modify-write:  buf[i] op= e   or   buf[i] = f(buf[i], ...)  (the
# latter also covers `out[i] = sqrt(out[i])`).  Each one needs, on every
# execution, an earlier plain store to the cell it reads: in the same iteration
# (a dominating store with the same index), by an earlier loop nest over the
# same ranges that stores every cell unconditionally, by a dominating
# whole-buffer store, or because the buffer is allocated initialised here.
# Three-valued: an index/range relation the rule cannot decide (helper calls,
# computed indices) is ANALYSIS-INCOMPLETE, not a violation.

def _buf_of(t, k):
    if isinstance(t, ast.Subscript) and isinstance(t.value, ast.Name) and t.value.id in k.buffers:
        return t.value.id
    return None


def _is_element(sub):
    return not any(isinstance(d, ast.Slice) or (isinstance(d, ast.Constant) and d.value in (None, Ellipsis))
                   for d in subscript_dims(sub))


def _is_whole(sub):
    return all((isinstance(d, ast.Slice) and d.lower is None and d.upper is None and d.step is None)
               or (isinstance(d, ast.Constant) and d.value is Ellipsis) for d in subscript_dims(sub))


def _cell_updates(fn, k):
    """[(stmt, buf, [cells read])]: statements that update a buffer cell from the buffer's previous contents."""
    out = []
    for s in walk_local(fn):
        if isinstance(s, ast.AugAssign):
            buf = _buf_of(s.target, k)
            if buf is not None:
                out.append((s, buf, [s.target]))
        elif isinstance(s, ast.Assign) and len(s.targets) == 1:
            buf = _buf_of(s.targets[0], k)
            if buf is None or buf not in names_loaded(s.value):
                continue
            cells, seen = [], set()
            for r in walk_expr(s.value):
                if _buf_of(r, k) == buf and _is_element(r) and u(r) not in seen:
                    seen.add(u(r))
                    cells.append(r)
            if cells:
                out.append((s, buf, cells))
    return out


def _idx(fi, sub):
    out = []
    for d in subscript_dims(sub):
        try:
            out.append(fi.xu(d))
        except Exception:
            out.append(u(d))
    return out


def _ancestors(mod, node, stop):
    out = []
    p = mod.parent.get(node)
    while p is not None and p is not stop:
        out.append(p)
        p = mod.parent.get(p)
    return out


def _earlier_sibling(k, p, s):
    """(sp, ss): statements of one statement list, sp before ss, sp containing p and ss containing s
    (the deepest such list) - sp has run to completion whenever control reaches ss."""
    mod, fn = k.mod, k.fn
    chain_p = [p] + _ancestors(mod, p, None)
    chain_s = [s] + _ancestors(mod, s, None)
    ids_s = {id(x): i for i, x in enumerate(chain_s)}
    for i, a in enumerate(chain_p):
        if id(a) in ids_s and i > 0 and ids_s[id(a)] > 0:
            sp, ss = chain_p[i - 1], chain_s[ids_s[id(a)] - 1]
            if sp is ss:
                return None
            for field in ('body', 'orelse', 'finalbody'):
                lst = getattr(a, field, None)
                if isinstance(lst, list) and sp in lst and ss in lst:
                    return (sp, ss) if lst.index(sp) < lst.index(ss) else None
            return None
    return None


def _range_of(fi, loop):
    """(lo text, hi node, step text) of a range/prange loop, else None."""
    it = loop.iter
    if not (isinstance(it, ast.Call) and call_name(it) in ('range', 'prange')):
        return None
    a = it.args
    if len(a) == 1:
        return '0', a[0], '1'
    if len(a) == 2:
        return fi.xu(a[0]), a[1], '1'
    if len(a) == 3:
        return fi.xu(a[0]), a[1], fi.xu(a[2])
    return None


def _same_range(k, lp, la):
    if lp is la:
        return True
    rp, ra = _range_of(k.fi, lp), _range_of(k.fi, la)
    if rp is None or ra is None:
        return None
    if rp[0] != ra[0] or rp[2] != ra[2]:
        return False
    hp, ha = rp[1], ra[1]
    return k.fi.xu(hp) == k.fi.xu(ha) or u(hp) == u(ha) or k.uf.same(norm_extent(hp), norm_extent(ha)) \
        or k.uf.same(norm_extent(k.fi.expand(hp)), norm_extent(k.fi.expand(ha)))


def _loop_with_target(loops, text):
    for l in loops:
        if isinstance(l.target, ast.Name) and l.target.id == text:
            return l
    return None


def _simple_index(k, texts, loops):
    """Index made of loop variables of the enclosing loops, C scalars and integer constants only."""
    ok_names = {l.target.id for l in loops if isinstance(l.target, ast.Name)} | set(k.scalars)
    for t in texts:
        try:
            e = ast.parse(t, mode='eval').body
        except SyntaxError:
            return False
        for n in ast.walk(e):
            if isinstance(n, (ast.Call, ast.Subscript, ast.Attribute)):
                return False
            if isinstance(n, ast.Name) and n.id not in ok_names:
                return False
    return True


def _stored_before(k, s, cell, buf):
    """('ok' | 'bad' | 'unknown', reason): is buf[cell] stored on every execution before statement s reads it?"""
    fi, mod = k.fi, k.mod
    idx = _idx(fi, cell)
    loops_s = k.enclosing_loops(s)
    cands = []
    undecided = []
    for p in walk_local(k.fn):
        # an initialising call statement: buf.fill(c) / helper(buf, ...)
        if isinstance(p, ast.Expr) and isinstance(p.value, ast.Call) and p is not s:
            c = p.value
            if isinstance(c.func, ast.Attribute) and isinstance(c.func.value, ast.Name) and c.func.value.id == buf \
                    and c.func.attr == 'fill' and fi.cfg.dominates(p, s):
                return 'ok', 'whole buffer is filled (`%s`) before the update' % u(p)
            if any(isinstance(a, ast.Name) and a.id == buf for a in list(c.args) + [kw.value for kw in c.keywords]) \
                    and (fi.cfg.dominates(p, s) or _earlier_sibling(k, p, s)):
                undecided.append('`%s` may initialise %s' % (u(p)[:60], buf))
            continue
        if not (isinstance(p, ast.Assign) and p is not s):
            continue
        tg = next((t for t in p.targets if _buf_of(t, k) == buf), None)
        if tg is None or buf in names_loaded(p.value):
            continue
        dom = fi.cfg.dominates(p, s)
        sib = _earlier_sibling(k, p, s)
        if not dom and not sib:
            continue
        if _is_whole(tg):
            if dom:
                return 'ok', 'whole buffer is stored (`%s`) before the update' % u(p)
            undecided.append('whole-buffer store `%s` does not dominate the update' % u(p))
            continue
        if not _is_element(tg):
            undecided.append('partial slice store `%s`' % u(p))
            continue
        cands.append(p)
        pidx = _idx(fi, tg)
        loops_p = k.enclosing_loops(p)
        ids_s = set(map(id, loops_s))
        # same iteration: a dominating store with the same index inside (a prefix of) the same loop nest
        if dom and pidx == idx and set(map(id, loops_p)) <= ids_s:
            return 'ok', 'cell %s[%s] is stored (`%s`) before every accumulation in the same iteration' % (
                buf, ', '.join(u(d) for d in subscript_dims(cell)), u(p))
        # an earlier loop nest over the same ranges that stores every cell unconditionally
        if sib and len(pidx) == len(idx):
            sp = sib[0]
            own = [l for l in loops_p if id(l) not in ids_s]
            inner = [a for a in _ancestors(mod, p, None)]
            inner = inner[:inner.index(sp) + 1] if sp in inner else []
            uncond = bool(inner) and all(isinstance(a, ast.For) for a in inner) and not any(
                isinstance(x, (ast.Break, ast.Continue, ast.Return)) for x in walk_local(sp))
            good, used, unknown = True, set(), False
            for a, b in zip(pidx, idx):
                lp, la = _loop_with_target(loops_p, a), _loop_with_target(loops_s, b)
                if lp is not None and la is not None:
                    same = _same_range(k, lp, la)
                    if same:
                        used.add(id(lp))
                        continue
                    unknown = unknown or same is None
                elif lp is None and la is None and a == b and isinstance(
                        const_value(ast.parse(a, mode='eval').body), int):
                    continue
                good = False
                break
            if good and uncond and used >= set(map(id, own)):
                lp0 = own[-1] if own else sp
                return 'ok', 'an earlier loop over the same range %s stores %s[%s] for every cell' % (
                    u(lp0.iter) if isinstance(lp0, ast.For) else '', buf, ', '.join(u(d) for d in subscript_dims(tg)))
            if unknown or (good and not uncond):
                undecided.append('`%s`: loop ranges / conditions of the earlier store not decided' % u(p))
            elif not (_simple_index(k, pidx, loops_p) and _simple_index(k, idx, loops_s)):
                undecided.append('`%s`: computed index' % u(p))
        elif not (_simple_index(k, pidx, loops_p) and _simple_index(k, idx, loops_s)):
            undecided.append('`%s`: computed index' % u(p))
    where = '%s[%s]' % (buf, ', '.join(u(d) for d in subscript_dims(cell)))
    if undecided:
        return 'unknown', 'cannot decide whether %s is stored first (%s)' % (where, '; '.join(undecided[:3]))
    return 'bad', 'no dominating plain store to %s' % where


def d3_zero_first(ck, rule, mod, fn, fused):
    k = Kernel(mod, fn, fused)
    q = fn.name
    n = 0
    for s, buf, cells in _cell_updates(fn, k):
        n += 1
        allocs = [a for a in walk_local(fn) if isinstance(a, (ast.Assign, ast.AnnAssign))
                  and buf in target_names(a.targets[0] if isinstance(a, ast.Assign) else a.target)
                  and a.value is not None]
        if allocs:
            ok = all(isinstance(a.value, (ast.BinOp, ast.Call)) and not (
                isinstance(a.value, ast.Call) and call_name(a.value) in UNINIT_ALLOCS) for a in allocs)
            ck.check(ok, rule, mod, s, q, '%s  [alloc: %s]' % (u(s), '; '.join(u(a) for a in allocs)),
                     'accumulator is allocated initialised in this function',
                     'accumulator `%s` is allocated uninitialised (np.empty) and then accumulated into' % buf)
            continue
        verdicts = [_stored_before(k, s, c, buf) for c in cells]
        bad = [w for v, w in verdicts if v == 'bad']
        unk = [w for v, w in verdicts if v == 'unknown']
        if bad and getattr(fn, 'cy_cdef', False) and buf in fn.cy_argtypes:
            # a C helper is only reachable from this module: whether its callers store to the cell first
            # is a fact about the call sites, which this rule does not relate to the helper's index
            ck.missing(rule, '%s %s: cdef helper %s updates its parameter `%s` from the previous contents (%s); '
                       'whether every caller stores to that cell first is not decided' % (
                           mod.loc(s), u(s)[:80], q, buf, bad[0]))
        elif bad:
            ck.bad(rule, mod, s, q, u(s),
                   'the kernel accumulates into caller-supplied `%s` (%s) without first storing '
                   'to that cell: the result depends on the previous contents of the buffer' % (buf, bad[0]))
        elif unk:
            ck.missing(rule, '%s %s: %s' % (mod.loc(s), u(s)[:80], unk[0]))
        else:
            ck.ok(rule, mod, s, u(s), verdicts[0][1])
    return n


# ---------------------------------------------------------------------------
# D3 / D5 `.callee`: what the two kernel rules do not see through
#
# D3 and D5 read the statements of ONE kernel.  A typed buffer that leaves the
# kernel - handed to a function of the package that stores into it (or, inside a
# prange body, to any function of the package while the loop writes it), or
# through a raw pointer `&buf[...]` - is updated / read where neither rule looks.
# That is not a violation (the helper may well be right) but it must not be
# HOLDS either: ANALYSIS-INCOMPLETE, naming the call.  Helpers the front end has
# inlined never get here; numpy / libc / builtin callees are trusted to their
# transfer tables like everywhere else in this property.

def d35_callees(ck, mod, fn, fused):
    res, ea = shared(ck.repo)
    k = Kernel(mod, fn, fused)
    q = fn.name
    n = 0
    for c in walk_local(fn):
        if not isinstance(c, ast.Call):
            continue
        nm = call_name(c)
        if nm == '__cy_addr__' and c.args:
            b = base_name(c.args[0])
            if b in k.buffers:
                n += 1
                ck.missing('C19.D3.zero-first.callee', '%s %s::%s: a raw pointer to the typed buffer `%s` is taken '
                           '(`&%s`); stores and reads through it are outside the kernel rules' % (
                               mod.loc(c), mod.rel, q, b, u(c.args[0])[:60]))
            continue
        passed = [(i, a.id) for i, a in enumerate(c.args) if isinstance(a, ast.Name) and a.id in k.buffers]
        passed += [(kw.arg, kw.value.id) for kw in c.keywords
                   if isinstance(kw.value, ast.Name) and kw.value.id in k.buffers]
        if not passed or nm is None:
            continue
        if isinstance(c.func, ast.Name) and c.func.id in k.fi.rd.locals:
            continue
        t = res.resolve_dotted(mod.rel, nm)
        if t is None or t.kind != 'func':
            continue
        callee = res.function_node(t)[1]
        if callee is None:
            continue
        n += 1
        ps = params(callee)
        muts = ea.mutated_params(t.rel, t.qual)
        stored = sorted({b for pos, b in passed
                         if (ps[pos] if isinstance(pos, int) and pos < len(ps) else pos) in muts})
        loop = next((a for a in _ancestors(mod, c, fn) if isinstance(a, ast.For) and getattr(a, 'cy_prange', False)), None)
        where = '%s %s::%s `%s`' % (mod.loc(c), mod.rel, q, u(c)[:80])
        if stored:
            ck.missing('C19.D3.zero-first.callee', '%s: %s stores into the kernel\'s buffer %s; whether each cell is stored '
                       'before it is updated from its previous contents is not decided across the call' % (
                           where, nm, ', '.join(stored)))
        if loop is not None:
            written = {tg.value.id for s in walk_local(loop) if isinstance(s, (ast.Assign, ast.AugAssign))
                       for tg in (s.targets if isinstance(s, ast.Assign) else [s.target])
                       if isinstance(tg, ast.Subscript) and isinstance(tg.value, ast.Name)}
            shared_bufs = sorted(set(stored) | ({b for _, b in passed} & written))
            if shared_bufs:
                ck.missing('C19.D5.prange.callee', '%s: inside prange(%s) the whole buffer %s is handed to %s while '
                           'iterations write it; which cells the callee touches is not decided' % (
                               where, u(loop.target), ', '.join(shared_bufs), nm))
                continue
        if not stored:
            ck.ok('C19.D3.zero-first.callee', mod, c, u(c)[:80],
                  '%s does not store into the buffer(s) it is handed (%s)' % (nm, ', '.join(b for _, b in passed)))
    return n


# ---------------------------------------------------------------------------
# D5: the shared prange rule compares index text with the loop variable; an
# index held in a thread-private temporary (`r = i; out[r] = 0`) is looked
# through here before an ownership violation is reported, and an index the
# rule cannot resolve (helper call, table lookup) is ANALYSIS-INCOMPLETE.

class _PrangeRecheck:
    def __init__(self, ck, mod, fn):
        self._ck, self._mod, self._fn = ck, mod, fn
        self._fi = finfo(mod, fn)

    def __getattr__(self, name):
        return getattr(self._ck, name)

    def _prange_of(self, node):
        for a in _ancestors(self._mod, node, self._fn):
            if isinstance(a, ast.For) and getattr(a, 'cy_prange', False):
                return a
        return None

    def _again(self, sub):
        """('ok', position) if some index dimension is the prange variable after expanding temporaries;
        ('unknown', None) if a dimension is a call result computed from the prange variable (an index
        function the rule cannot see through); else ('bad', None) - a data-dependent table lookup
        `a[t, k]` is not injective in t and stays a violation."""
        loop = self._prange_of(sub)
        if loop is None or not isinstance(loop.target, ast.Name):
            return 'bad', None
        v = loop.target.id
        unknown = False
        for i, d in enumerate(subscript_dims(sub)):
            try:
                e = self._fi.expand(d)
            except Exception:
                e = d
            if isinstance(e, ast.Name) and e.id == v:
                return 'ok', i
            if isinstance(e, ast.Call) and v in names_loaded(e):
                unknown = True
        return ('unknown' if unknown else 'bad'), None

    def bad(self, rule, mod, node, function, construct, detail, witness=None):
        if rule.endswith('.owner') and isinstance(node, (ast.Assign, ast.AugAssign)):
            tg = node.targets[0] if isinstance(node, ast.Assign) else node.target
            if isinstance(tg, ast.Subscript):
                v, pos = self._again(tg)
                if v == 'ok':
                    return self._ck.ok(rule, mod, node, construct, 'index position %d is the prange variable '
                                       '(through a thread-private temporary)' % pos)
                if v == 'unknown':
                    return self._ck.missing(rule, '%s %s: index computed from the prange variable by a call '
                                            'the rule cannot see through' % (mod.loc(node), construct[:80]))
        return self._ck.bad(rule, mod, node, function, construct, detail, witness)

    def check(self, cond, rule, mod, node, function, construct, detail_ok='', detail_bad='', witness=None):
        if not cond and rule.endswith('.reads') and isinstance(node, ast.Subscript):
            v, pos = self._again(node)
            if v == 'ok':
                cond = True
        return self._ck.check(cond, rule, mod, node, function, construct, detail_ok, detail_bad, witness)


# ---------------------------------------------------------------------------
# D5 `.reduction`: an in-place operator on a C scalar inside a prange body makes
# the scalar an OpenMP reduction variable (Cython: "x += e" in prange ->
# reduction(+:x)): every thread accumulates a private partial result and the
# partial results are combined when the loop ends.  For an integer type that is
# exact whatever the grouping; for a floating (or complex) type the grouping -
# hence the rounding - follows the number of threads and the schedule: the
# value after the loop is not a function of the arguments alone.  A scalar that
# the same iteration stores plainly before it accumulates (`t = 0` ... `t += e`
# ... `out[i] = t`) carries a per-iteration value; only its value AFTER the
# loop would be the combined one.

FLOAT_CTYPES = {'double', 'float', 'long double', 'floating', 'cython.floating', 'cython.double', 'cython.float',
                'float complex', 'double complex', 'complex', 'long double complex'}
INT_CTYPES = {'int', 'long', 'long long', 'short', 'char', 'bint', 'Py_ssize_t', 'size_t', 'ssize_t', 'ptrdiff_t',
              'integral', 'cython.integral', 'cython.int', 'cython.long', 'cython.Py_ssize_t', 'cython.size_t'}


def _ctype_class(text, fused, depth=3):
    """'float' | 'int' | None for the text of a declared C scalar type (fused typedefs: all alternatives agree)."""
    t = (text or '').strip()
    if t.startswith('unsigned ') or t.startswith('signed '):
        t = t.split(' ', 1)[1]
    if t in FLOAT_CTYPES:
        return 'float'
    if t in INT_CTYPES:
        return 'int'
    leaf = t.split('.')[-1]
    if re.match(r'^(npy_)?(float|double|longdouble|complex|cfloat|cdouble|clongdouble)\d*(_t)?$', leaf):
        return 'float'
    if re.match(r'^(npy_)?u?(int|intp|long|longlong|short|byte)\d*(_t)?$', leaf):
        return 'int'
    if t in fused and depth > 0:
        kinds = {_ctype_class(a.text, fused, depth - 1) for a in fused[t]}
        if len(kinds) == 1:
            return kinds.pop()
    return None


def d5_reductions(ck, mod, fn, fused):
    rule = 'C19.D5.prange.reduction'
    fi = finfo(mod, fn)
    q = fn.name
    n = 0
    types = dict(getattr(fn, 'cy_argtypes', {}))
    types.update(getattr(fn, 'cy_locals', {}))
    for loop in walk_local(fn):
        if not (isinstance(loop, ast.For) and getattr(loop, 'cy_prange', False)):
            continue
        inner = [s for s in walk_local(loop) if s is not loop]
        for s in inner:
            if not (isinstance(s, ast.AugAssign) and isinstance(s.target, ast.Name)):
                continue
            n += 1
            nm = s.target.id
            t = types.get(nm)
            kind = _ctype_class(t.text, fused) if t is not None and not t.is_buffer and not getattr(t, 'pointer', False) else None
            what = '%s  [cdef %s %s; prange(%s)]' % (u(s), t.text if t is not None else '?', nm, u(loop.target))
            plain = [p for p in inner if isinstance(p, (ast.Assign, ast.AnnAssign)) and getattr(p, 'value', None) is not None
                     and nm in [x for tg in (p.targets if isinstance(p, ast.Assign) else [p.target]) for x in target_names(tg)]]
            if any(fi.cfg.dominates(p, s) for p in plain):
                after = [x for x in walk_local(fn) if isinstance(x, ast.Name) and x.id == nm and isinstance(x.ctx, ast.Load)
                         and loop not in _ancestors(mod, x, fn) and fi.stmt(x) is not None
                         and fi.cfg.reachable(loop, fi.stmt(x))]
                if after and kind != 'int':
                    ck.missing(rule, '%s %s: `%s` is re-initialised in every iteration but is also a reduction variable '
                               'whose combined value is read after the loop (`%s`)' % (
                                   mod.loc(s), what[:100], nm, u(mod.enclosing_stmt(after[0]))[:60]))
                else:
                    ck.ok(rule, mod, s, what, 'the iteration stores `%s` plainly before it accumulates: a per-iteration '
                          'value, nothing of the combined value is read after the loop' % nm)
                continue
            if kind == 'int':
                ck.ok(rule, mod, s, what, 'integer reduction: exact, the grouping of the partial results does not matter')
            elif kind == 'float':
                ck.bad(rule, mod, s, q, 'floating-point reduction over prange(%s) into `%s`' % (u(loop.target), nm),
                       '`%s` inside the prange body makes the %s scalar `%s` an OpenMP reduction variable: each thread sums '
                       'a private partial result and the partial results are combined at the end of the loop, so the '
                       'rounding of the total follows the number of threads and the schedule - the value is not '
                       'determined by the arguments alone.  Accumulate per owned cell (out[%s] += ...) and reduce '
                       'sequentially' % (u(s), t.text, nm, u(loop.target)))
            else:
                ck.missing(rule, '%s %s: reduction variable of undeclared / unrecognised C type; whether the combination '
                           'is exact is not decided' % (mod.loc(s), what[:120]))
    return n


# ---------------------------------------------------------------------------
# D2 `.value`: an uninitialised allocation that is NOT simply bound to a local name
#
# check_empty_allocs (sa/patterns.py) decides `name = np.empty(...)`: every read of `name` is dominated by a
# full write of it.  An allocation in any other position has no name whose writes could be looked for - its
# value is consumed where it stands.  Necessary condition of "no routine reads memory it has not initialised":
# the value of every np.empty / np.empty_like / np.ndarray call (whatever numpy is called in the module)
#   * is bound to ONE local name - directly, as an arm of a conditional expression or through a view
#     (.reshape / .T / basic index) - and then obeys the fully-written-before-read rule; or
#   * is the out= operand of an unmasked numpy call (a full write; the call's result is initialised); or
#   * only has its metadata read (.shape / len / np.zeros_like(...)) or is discarded.
# It is READ - VIOLATION, naming the consuming construct - when it is an operand of an arithmetic / comparison
# operator, the receiver of an ndarray method that reads cells (.astype, .copy, .sum ...), an argument of a
# numpy / builtin function that reads its argument, the iterable of a loop, a truth value, or the value a PUBLIC
# function returns (the caller receives heap contents).  Anything else - handed to a function of the package
# or an unknown callee, parked in an attribute / container, returned by a private helper whose callers may fill
# it - is ANALYSIS-INCOMPLETE: the buffer leaves what the rule follows.

_NP_UNINIT = {'empty', 'empty_like', 'ndarray'}
_ARR_META = {'shape', 'dtype', 'size', 'ndim', 'nbytes', 'itemsize', 'strides', 'flags'}
_ARR_VIEW_ATTRS = {'T', 'mT', 'real', 'imag'}
_ARR_VIEW_METHODS = {'reshape', 'view', 'transpose', 'swapaxes', 'squeeze', 'ravel'}
_ARR_READ_METHODS = {'astype', 'copy', 'sum', 'mean', 'max', 'min', 'argmax', 'argmin', 'cumsum', 'cumprod', 'prod',
                     'std', 'var', 'dot', 'tolist', 'tobytes', 'tostring', 'flatten', 'any', 'all', 'nonzero', 'round',
                     'clip', 'argsort', 'item', 'take', 'repeat', 'trace', 'diagonal', 'ptp', 'conj', 'conjugate',
                     'searchsorted', 'choose', 'compress', 'dump', 'dumps', 'tofile', 'byteswap', 'sort', 'partition',
                     'argpartition', '__array__'}
_NP_META_FUNCS = {'np.shape', 'np.ndim', 'np.size', 'np.empty_like', 'np.zeros_like', 'np.ones_like', 'np.full_like',
                  'np.result_type', 'np.iscomplexobj', 'np.isrealobj', 'len', 'isinstance', 'type', 'id'}
_NP_VIEW_FUNCS = {'np.asarray', 'np.asanyarray', 'np.ascontiguousarray', 'np.asfortranarray', 'np.atleast_1d',
                  'np.atleast_2d', 'np.atleast_3d', 'np.reshape', 'np.ravel', 'np.transpose', 'np.squeeze',
                  'np.swapaxes', 'np.moveaxis', 'np.expand_dims', 'np.broadcast_to'}
_BUILTIN_READERS = {'sum', 'min', 'max', 'list', 'tuple', 'set', 'sorted', 'any', 'all', 'float', 'int', 'bool', 'abs',
                    'complex', 'str', 'repr', 'print', 'enumerate', 'zip', 'iter', 'next', 'map', 'filter', 'round',
                    'frozenset', 'dict', 'reversed', 'hash', 'bytes', 'bytearray'}
_EXT_READER_ROOTS = ('numpy', 'scipy', 'math', 'cmath', 'numexpr', 'bottleneck')


def _local_import(fi, head):
    """Dotted external name a function-level `import m [as head]` / `from m import x [as head]` binds `head` to,
    when import statements are its only bindings in the function; else None."""
    got = set()
    for s in walk_local(fi.fn):
        if isinstance(s, ast.Import):
            for a in s.names:
                if (a.asname or a.name.split('.')[0]) == head:
                    got.add(a.name if a.asname else a.name.split('.')[0])
        elif isinstance(s, ast.ImportFrom) and not s.level:
            for a in s.names:
                if (a.asname or a.name) == head:
                    got.add('%s.%s' % (s.module, a.name))
        elif isinstance(s, (ast.Assign, ast.AugAssign, ast.AnnAssign, ast.For, ast.With, ast.NamedExpr)):
            tgs = s.targets if isinstance(s, ast.Assign) else [getattr(s, 'target', None)] if not isinstance(s, ast.With) \
                else [i.optional_vars for i in s.items]
            if any(t is not None and head in target_names(t) for t in tgs):
                return None
    if head in params(fi.fn) or len(got) != 1:
        return None
    return got.pop()


def _np_callee(res, mod, fi, call):
    """'np.<dotted rest>' if the callee of `call` is a function of numpy under whatever name the module (or the
    function itself) imported it (np.empty, numpy.empty, `from numpy import empty`), the plain builtin name for a
    builtin, else None."""
    nm = call_name(call)
    if not nm:
        return None
    head = nm.split('.')[0]
    if head in fi.rd.locals:
        ext = _local_import(fi, head)       # a parameter / local variable of that name is not the module
        if ext is None:
            return None
        parts = (ext + nm[len(head):]).split('.')
        return 'np.' + '.'.join(parts[1:]) if parts[0] == 'numpy' and len(parts) > 1 else None
    try:
        t = res.resolve_dotted(mod.rel, nm)
    except Exception:
        t = None
    if t is not None and t.kind == 'ext':
        parts = (t.ext or '').split('.')
        if parts[0] == 'numpy' and len(parts) > 1:
            return 'np.' + '.'.join(parts[1:])
        return None
    if t is None:
        if head in ('np', 'numpy') and '.' in nm:
            return 'np.' + nm.split('.', 1)[1]
        if '.' not in nm:
            return nm
    return None


def _ext_reader(res, mod, fi, call):
    """The callee is a function of numpy / scipy / math (reads its array arguments, keeps none) or a reading builtin."""
    nm = call_name(call) or ''
    head = nm.split('.')[0]
    if not nm or head in fi.rd.locals:
        return False
    try:
        t = res.resolve_dotted(mod.rel, nm)
    except Exception:
        t = None
    if t is not None:
        return t.kind == 'ext' and (t.ext or '').split('.')[0] in _EXT_READER_ROOTS
    return nm in _BUILTIN_READERS or head in ('np', 'numpy', 'scipy', 'math')


def _is_uninit_alloc(res, mod, fi, call):
    cn = _np_callee(res, mod, fi, call)
    return bool(cn) and cn.startswith('np.') and cn[3:] in _NP_UNINIT


def _uninit_value_flow(res, mod, fn, fi, call, public):
    """Where the value of the uninitialised allocation `call` goes: (verdict, node, text) with verdict one of
    'handled' (plain `target = np.empty(...)`: check_empty_allocs decides it), 'bind' (node = the binding statement,
    text = the local name), 'ok', 'read', 'unknown'."""
    x = call
    direct = True           # x is still the allocation call itself (not a view / conditional arm of it)
    for _ in range(12):
        p = mod.parent.get(x)
        if p is None:
            return 'unknown', call, 'position of the allocation not located'
        if isinstance(p, ast.Expr):
            return 'ok', p, 'the value is discarded'
        if isinstance(p, ast.Assign) and p.value is x:
            if direct and (call_name(call) or '') in UNINIT_ALLOCS:
                return 'handled', p, ''
            if len(p.targets) == 1 and isinstance(p.targets[0], ast.Name):
                return 'bind', p, p.targets[0].id
            return 'unknown', p, 'the uninitialised buffer is stored into `%s`' % u(p.targets[0])[:60]
        if isinstance(p, ast.AnnAssign) and p.value is x:
            if isinstance(p.target, ast.Name):
                return 'bind', p, p.target.id
            return 'unknown', p, 'the uninitialised buffer is stored into `%s`' % u(p.target)[:60]
        if isinstance(p, ast.AugAssign) and p.value is x:
            return 'read', p, 'it is the right-hand operand of `%s`' % u(p)[:80]
        if isinstance(p, ast.IfExp):
            if p.test is x:
                return 'read', p, 'its truth value is tested'
            x, direct = p, False
            continue
        if isinstance(p, ast.Attribute) and p.value is x:
            if p.attr in _ARR_META:
                return 'ok', p, 'only .%s of the buffer is read' % p.attr
            if p.attr in _ARR_VIEW_ATTRS:
                x, direct = p, False
                continue
            pp = mod.parent.get(p)
            if isinstance(pp, ast.Call) and pp.func is p:
                if p.attr == 'fill':
                    return 'ok', pp, 'the buffer is filled at once (and dropped)'
                if p.attr in _ARR_VIEW_METHODS:
                    x, direct = pp, False
                    continue
                if p.attr in _ARR_READ_METHODS:
                    return 'read', pp, 'ndarray.%s reads every cell of its receiver' % p.attr
            return 'unknown', p, 'attribute .%s of the uninitialised buffer' % p.attr
        if isinstance(p, ast.Subscript):
            if p.value is x and isinstance(p.ctx, ast.Load):
                x, direct = p, False
                continue
            if p.value is not x:
                return 'read', p, 'it is used as an index'
            return 'unknown', p, 'store into the anonymous buffer'
        if isinstance(p, (ast.BinOp, ast.UnaryOp, ast.Compare, ast.BoolOp)):
            return 'read', p, 'it is an operand of `%s`' % u(p)[:80]
        if isinstance(p, (ast.If, ast.While, ast.Assert)):
            return 'read', p, 'its truth value is tested'
        if isinstance(p, (ast.For, ast.AsyncFor, ast.comprehension)):
            if p.iter is x:
                return 'read', p.iter, 'it is iterated over'
            return 'unknown', x, 'uninitialised buffer inside a loop header'
        if isinstance(p, (ast.Return, ast.Yield, ast.YieldFrom)) or (
                isinstance(p, ast.Tuple) and isinstance(mod.parent.get(p), ast.Return)):
            if public:
                return 'read', p if not isinstance(p, ast.Tuple) else mod.parent.get(p), \
                    'the public routine returns it: the caller receives whatever the heap held'
            return 'unknown', p, 'a private helper returns the uninitialised buffer; whether every caller writes it ' \
                                 'fully before reading is not decided'
        if isinstance(p, ast.keyword) or (isinstance(p, ast.Call) and x in p.args):
            c = p if isinstance(p, ast.Call) else mod.parent.get(p)
            if not isinstance(c, ast.Call):
                return 'unknown', p, 'keyword outside a call'
            cn = _np_callee(res, mod, fi, c)
            if isinstance(p, ast.keyword) and p.arg == 'out':
                if cn and cn.startswith('np.'):
                    if kwarg(c, 'where') is None:
                        return 'ok', c, 'out= of the unmasked %s: every cell is written by the call' % cn
                    if direct and (call_name(call) or '') in UNINIT_ALLOCS and (call_name(c) or '').startswith(
                            ('np.', 'numpy.')):
                        return 'handled', c, ''          # C19.D1.masked-ufunc reports it
                    return 'read', c, 'out= of the MASKED %s: the cells where the mask is false keep the heap contents' % cn
                return 'unknown', c, 'out= buffer of `%s`' % (call_name(c) or u(c.func))[:60]
            if cn in _NP_META_FUNCS:
                return 'ok', c, '%s reads only the shape / type of its argument' % cn
            if cn in _NP_VIEW_FUNCS and c.args and c.args[0] is x:
                x, direct = c, False
                continue
            if _ext_reader(res, mod, fi, c):
                return 'read', c, '%s reads the cells of its argument' % (call_name(c) or '?')
            return 'unknown', c, 'the uninitialised buffer is handed to `%s`' % (call_name(c) or u(c.func))[:60]
        if isinstance(p, ast.Starred):
            return 'read', p, 'it is unpacked'
        return 'unknown', p, 'the uninitialised buffer is used inside `%s`' % u(p)[:60]
    return 'unknown', call, 'value chain too long'


def d2_uninit_values(ck, mods):
    from ..patterns import _empty_fully_written
    rule = 'C19.D2.empty-before-read.value'
    res, _ = shared(ck.repo)
    n = 0
    for mod in mods:
        for q, fn in mod.functions.items():
            calls = [c for c in walk_local(fn) if isinstance(c, ast.Call) and call_name(c)]
            if not calls:
                continue
            fi = finfo(mod, fn)
            calls = [c for c in calls if _is_uninit_alloc(res, mod, fi, c)]
            leaf = q.split('.')[-1]
            public = '<locals>' not in q and not getattr(fn, 'cy_cdef', False) and (
                not leaf.startswith('_') or (leaf.startswith('__') and leaf.endswith('__')))
            for c in calls:
                n += 1
                ck.analysed(mod, fn)
                v, node, text = _uninit_value_flow(res, mod, fn, fi, c, public)
                what = u(mod.enclosing_stmt(c))[:120]
                if v == 'handled':
                    ck.ok(rule, mod, c, what, 'plainly bound: decided by the fully-written-before-read rule')
                elif v == 'bind':
                    try:
                        ok, why = _empty_fully_written(mod, fn, node, text)
                    except Exception as e:          # the binding is not a CFG statement the helper knows
                        ck.missing(rule, '%s %s::%s `%s`: reads of `%s` not decided (%s)' % (
                            mod.loc(c), mod.rel, q, what[:80], text, type(e).__name__))
                        continue
                    ck.check(ok, 'C19.D2.empty-before-read', mod, node, q, u(node), why, why)
                elif v == 'ok':
                    ck.ok(rule, mod, c, what, text)
                elif v == 'read':
                    ck.bad(rule, mod, node if hasattr(node, 'lineno') else c, q,
                           'value of the uninitialised allocation `%s`' % u(c)[:80],
                           '`%s` allocates without initialising, and %s.  No write can come in between, so the '
                           'result (or at least the floating-point flags / warnings of the operation) follows what '
                           'the process computed and freed before - use np.zeros / np.full, or bind the buffer to a '
                           'name and write it fully first' % (u(c)[:80], text))
                else:
                    ck.missing(rule, '%s %s::%s `%s`: %s; whether every cell is written before it is read is not '
                               'decided' % (mod.loc(c), mod.rel, q, what[:80], text))
    return n


# ---------------------------------------------------------------------------
# D2 `.bcast-root`: a broadcast fills the buffer on every rank EXCEPT the root
#
# check_empty_allocs counts `comm.Bcast(buf, root=r)` as a full write of `buf`.  That is what the call is on the
# receiving ranks; on rank r it is a SEND: the call reads every cell of `buf` and ships it to everybody.  So an
# uninitialised allocation that reaches the Bcast must sit on a path only ranks other than r take (the arm of a
# test `<rank> == r` / `<rank> != r` that excludes the root), or the root must write the whole buffer first.
# The rank is located by role - the operand compared with the very expression passed as root= - and must be
# a rank query (`*.rank()` / `*.Get_rank()` / `*.rank`); any other shape of the guard is ANALYSIS-INCOMPLETE.

_RANK_LEAVES = ('rank', 'Get_rank')


def _is_rank_query(e):
    if isinstance(e, ast.Call) and not e.args and not e.keywords:
        return (call_name(e) or '').split('.')[-1] in _RANK_LEAVES
    if isinstance(e, ast.Attribute):
        return e.attr == 'rank'
    return False


def _rank_vs_root(fi, test, polarity, root_text):
    """'root' / 'others' / None: the ranks on which `test` has truth value `polarity`, as far as a comparison
    of a rank query with the broadcast's root expression says."""
    from ..patterns import Cmp, conjuncts
    try:
        t = fi.expand(test)
    except Exception:
        t = test
    cs = conjuncts(t, polarity)
    if cs is None:
        return None
    for c in cs:
        if not isinstance(c, Cmp):
            continue
        for a, b in ((c.lhs, c.rhs), (c.rhs, c.lhs)):
            try:
                same = fi.xu(b) == root_text or u(b) == root_text
            except Exception:
                same = u(b) == root_text
            if same and _is_rank_query(a):
                if c.op is ast.Eq:
                    return 'root'
                if c.op in (ast.NotEq, ast.Lt, ast.Gt):
                    return 'others'
    return None


def d2_bcast_root(ck, mods):
    rule = 'C19.D2.empty-before-read.bcast-root'
    res, _ = shared(ck.repo)
    n = 0
    for mod in mods:
        for q, fn in mod.functions.items():
            bcasts = [c for c in walk_local(fn) if isinstance(c, ast.Call) and isinstance(c.func, ast.Attribute)
                      and c.func.attr == 'Bcast' and c.args and isinstance(c.args[0], ast.Name)]
            if not bcasts:
                continue
            fi = finfo(mod, fn)
            for c in bcasts:
                buf = c.args[0]
                st = fi.stmt(c)
                if st is None:
                    continue
                root = kwarg(c, 'root') or (c.args[1] if len(c.args) > 1 else None)
                try:
                    root_text = fi.xu(root) if root is not None else '0'
                except Exception:
                    root_text = u(root)
                try:
                    sites = fi.defs_of_use(buf)
                except Exception:
                    sites = ()
                for site in sites:
                    if site in ('PARAM', 'UNBOUND') or not isinstance(site, (ast.Assign, ast.AnnAssign)):
                        continue
                    allocs = [a for a in walk_expr(site.value) if isinstance(a, ast.Call)
                              and _is_uninit_alloc(res, mod, fi, a)] if site.value is not None else []
                    for a in allocs:
                        v, node, _t = _uninit_value_flow(res, mod, fn, fi, a, False)
                        if v not in ('handled', 'bind') or node is not site:
                            continue        # the allocation is not what the name is bound to
                        n += 1
                        ck.analysed(mod, fn)
                        what = '%s  ->  %s' % (u(site)[:70], u(c)[:60])
                        # conditions under which the allocation runs: arms of conditional expressions around it,
                        # then the branch assumptions that dominate the binding statement
                        conds = []
                        x = a
                        while x is not site:
                            p = mod.parent.get(x)
                            if p is None:
                                break
                            if isinstance(p, ast.IfExp) and p.test is not x:
                                conds.append((p.test, p.body is x))
                            x = p
                        for nd in fi.cfg.nodes:
                            if isinstance(nd, Assume) and fi.cfg.dominates(nd, site):
                                conds.append((nd.test, nd.polarity))
                        where = {_rank_vs_root(fi, t, pol, root_text) for t, pol in conds} - {None}
                        if 'root' in where and 'others' not in where:
                            ck.bad(rule, mod, site, q, 'uninitialised buffer allocated on the root of `%s`' % u(c)[:60],
                                   '`%s` runs on the rank that equals root=%s, and nothing writes the buffer before `%s`: '
                                   'on the root a Bcast SENDS its buffer, so every rank receives whatever the root\'s heap '
                                   'held - the result depends on what that process computed and freed before'
                                   % (u(site)[:80], root_text, u(c)[:60]))
                        elif 'others' in where and 'root' not in where:
                            ck.ok(rule, mod, site, what, 'the allocation runs only on ranks other than root=%s: for them the '
                                  'Bcast is a full write of the buffer' % root_text)
                        else:
                            # unguarded allocation: the root must overwrite the whole buffer before sending
                            full = []
                            for s in fi.cfg.nodes:
                                if isinstance(s, ast.Assign) and any(
                                        isinstance(t, ast.Subscript) and isinstance(t.value, ast.Name) and t.value.id == buf.id
                                        and _is_whole(t) for t in s.targets) and fi.cfg.reachable(site, s) \
                                        and fi.cfg.reachable(s, st):
                                    g = {_rank_vs_root(fi, nd.test, nd.polarity, root_text) for nd in fi.cfg.nodes
                                         if isinstance(nd, Assume) and fi.cfg.dominates(nd, s)} - {None}
                                    if g == {'root'} or fi.cfg.dominates(s, st):
                                        full.append(s)
                            if full:
                                ck.ok(rule, mod, site, what, 'the root stores the whole buffer (`%s`) before it sends' % u(full[0])[:60])
                            else:
                                ck.missing(rule, '%s %s::%s `%s`: on which ranks the uninitialised allocation runs (relative to '
                                           'root=%s) is not decided; on the root the Bcast reads the buffer' % (
                                               mod.loc(site), mod.rel, q, what[:100], root_text))
    return n


def public_functions(mod):
    out = []
    for q, fn in mod.functions.items():
        if '<locals>' in q or getattr(fn, 'cy_cdef', False):
            continue        # a cdef function is not callable from Python: its callers are checked (interprocedurally)
        leaf = q.split('.')[-1]
        if leaf.startswith('_') and not (leaf.startswith('__') and leaf.endswith('__')):
            continue
        out.append((q, fn))
    return out


def d4_effects(ck, rels, observe_only=False):
    res, ea = shared(ck.repo)
    rule = 'C19.D4.no-arg-mutation'
    entries = []
    for rel in rels:
        mod = ck.repo.mod(rel)
        for q, fn in public_functions(mod):
            entries.append((rel, q))
    if not observe_only:
        n = check_no_arg_mutation(ck, rule, entries, extra_exempt=EXTRA_EXEMPT)
        return n
    for rel, q in entries:
        muts = ea.mutated_params(rel, q)
        mod = ck.repo.mod(rel)
        for p, why in muts.items():
            if p in ('self', 'cls'):
                continue
            ck.observe(rule, mod, why['node'], '%s(%s) <- %s [outside the anchored modules, not verdict-bearing]' % (
                q, p, why['construct'][:80]))
    return 0


# third-party callables that modify their ARGUMENTS in place (documented by
# mdtraj: "rmsd(target, reference, ...): Note, this will center the
# conformations in place" unless precentered=True; with atom_indices it works
# on copies).  Handing such a callable out as a metric makes every routine
# that applies the metric to its own parameter an in-place routine.
INPLACE_CALLABLES = {
    'md.rmsd': 'mdtraj.rmsd centres `target` and `reference` in place (unless precentered=True or atom_indices is given)',
    'mdtraj.rmsd': 'mdtraj.rmsd centres `target` and `reference` in place (unless precentered=True or atom_indices is given)',
}
CLUSTER_ENTRY = ['enspara/cluster/util.py', 'enspara/cluster/kcenters.py', 'enspara/cluster/kmedoids.py', 'enspara/cluster/hybrid.py']


def _inplace_callable(e):
    """name of the in-place third-party callable the expression denotes as a
    function OBJECT (bare name, or functools.partial of it that does not
    switch the in-place behaviour off), else None."""
    from ..core import dotted
    if isinstance(e, ast.Attribute) and (dotted(e) or '') in INPLACE_CALLABLES:
        return dotted(e)
    if isinstance(e, ast.Call) and (call_name(e) or '').split('.')[-1] == 'partial' and e.args:
        inner = _inplace_callable(e.args[0])
        if inner and not (const_value(kwarg(e, 'precentered')) is True if kwarg(e, 'precentered') is not None else False) \
                and kwarg(e, 'atom_indices') is None:
            return inner
    return None


def d4_inplace_metric(ck):
    """The metric factory of the clustering layer must not hand out a callable
    that edits its arguments: the clusterers apply the metric to the caller's
    trajectory (finding rmsd-metric-recentres-traj)."""
    rule = 'C19.D4.no-arg-mutation.inplace-metric'
    mod = ck.repo.mod('enspara/cluster/util.py')
    F = '_get_distance_method'
    fn = mod.functions.get(F)
    if fn is None:
        ck.missing(rule, 'function %s in %s' % (F, mod.rel))
        return 0
    ck.analysed(mod, fn)
    sources = []
    rets = [r for r in walk_local(fn) if isinstance(r, ast.Return) and r.value is not None]
    for r in rets:
        nm = _inplace_callable(r.value)
        if nm:
            sources.append((r, nm))
    if not rets:
        ck.missing(rule, 'return statements of %s' % F)
        return 0
    # consumers: public clustering routines that obtain a metric from the factory and apply it (or pass it on
    # together with) one of their own parameters
    consumers = []
    for rel in CLUSTER_ENTRY:
        m2 = ck.repo.mod(rel)
        for q, f2 in public_functions(m2):
            ps = set(params(f2)) - {'self', 'cls'}
            got = set()
            for st in walk_local(f2):
                if isinstance(st, ast.Assign) and isinstance(st.value, ast.Call) and (call_name(st.value) or '').split('.')[-1] == F:
                    got.update(target_names(st.targets[0]))
            if not got:
                continue
            for c in walk_local(f2):
                if not isinstance(c, ast.Call):
                    continue
                argn = {a.id for a in list(c.args) + [k.value for k in c.keywords] if isinstance(a, ast.Name)}
                if (isinstance(c.func, ast.Name) and c.func.id in got and argn & ps) or (argn & got and argn & ps):
                    consumers.append('%s::%s' % (rel, q))
                    break
    for r, nm in sources:
        if consumers:
            ck.bad(rule, mod, r, F, 'the metric factory returns the bare in-place callable %s' % nm,
                   '%s; %d public clustering routines obtain their metric from %s and apply it to (or pass it on with) their own trajectory '
                   'parameter (%s): with this metric they re-centre the caller\'s trajectory in place - X.xyz is translated frame by frame, a '
                   'repeated call starts from different bits - and none of them documents it'
                   % (INPLACE_CALLABLES[nm], len(consumers), F, ', '.join(consumers[:6])), ', '.join(consumers))
        else:
            ck.missing(rule, 'no public clustering routine found that applies the metric returned by %s' % F)
    if not sources:
        ck.ok(rule, mod, fn, '%s: %d returns' % (F, len(rets)), 'no returned metric is a third-party callable known to edit its arguments in place')
    return len(rets)


# ---------------------------------------------------------------------------
# D4.callback-state: a caller-owned array must not be the state that a
# caller-supplied update function transforms.
#
# Role: a call `g(..., v, ...)` whose callee `g` may be a callable the CALLER
# supplied (the may-alias value of the name `g` at the call carries the tag of
# a parameter - directly, through a rebinding on some branches only, or through
# a package helper that may return its argument) and whose result REPLACES the
# argument it was computed from (`v = g(v, ...)`, possibly through one
# temporary): `g` is a state-update function, the routine uses its input and its
# output interchangeably, so nothing in the routine depends on `g` handing back
# a fresh object - an update function that works in place and returns its
# argument satisfies the same contract ("returns the new X").  The object the
# routine hands over on the first trip must therefore be its own: if `v` may
# still share storage with a parameter there (tag ('P', p) of the effects
# analysis; a copy.copy / .copy() / np.array(...) duplicate carries no such
# tag), the caller's array is what the update function edits.  A callable
# whose result goes elsewhere (a metric `d = f(X, c)`) is not in this role.

def _alias_in_states(ea, mod, fn):
    """IN state (name -> tags) at every CFG node of `fn` of the may-alias
    dataflow of sa/effects.py, replayed with the final interprocedural
    summaries (EffectsAnalysis keeps the store records, not the states).
    Candidate for promotion: EffectsAnalysis.states(rel, qual)."""
    from ..cfg import CFG
    from ..resolve import enclosing_class
    cfg = CFG(fn)
    ctx = {'mod': mod, 'cls': enclosing_class(mod, fn), 'fn': fn,
           'kinds': ea._kinds(fn), 'unknown_index': []}
    init = {p: frozenset([('P', p)]) for p in params(fn)}
    if fn.args.kwarg is not None:
        init[fn.args.kwarg.arg] = frozenset()
    IN = {n: None for n in cfg.nodes}
    OUT = {n: None for n in cfg.nodes}
    OUT[ENTRY] = init

    def join(a, b):
        if a is None:
            return dict(b)
        out = dict(a)
        for k, v in b.items():
            out[k] = out.get(k, frozenset()) | v
        return out

    work = [n for n in cfg.nodes if n != ENTRY]
    iters = 0
    while work and iters < 20000:
        iters += 1
        n = work.pop(0)
        st = None
        for p in cfg.pred.get(n, []):
            if OUT[p] is not None:
                st = join(st, OUT[p])
        if st is None:
            continue
        IN[n] = st
        new = ea._transfer(n, dict(st), ctx) if n != EXIT else st
        if new != OUT[n]:
            OUT[n] = new
            for s in cfg.succ.get(n, []):
                if s not in work:
                    work.append(s)
    return cfg, IN, ctx


def _replaced_names(fi, fn, stmt):
    """Names that receive the value computed by the assignment `stmt`:
    its own Name targets plus names bound by a plain copy `x = t` of one of
    them that this very assignment reaches."""
    out = set()
    for t in stmt.targets:
        if isinstance(t, ast.Name):
            out.add(t.id)
        elif isinstance(t, (ast.Tuple, ast.List)):
            out.update(e.id for e in t.elts if isinstance(e, ast.Name))
    for s2 in walk_local(fn):
        if isinstance(s2, ast.Assign) and isinstance(s2.value, ast.Name) and s2.value.id in out \
                and len(s2.targets) == 1 and isinstance(s2.targets[0], ast.Name):
            try:
                sites = fi.rd.defs_at(fi.stmt(s2), s2.value.id)
            except Exception:
                sites = ()
            if stmt in sites:
                out.add(s2.targets[0].id)
    return out


def _callback_state_sites(ea, mod, q, fn):
    """[(stmt, call, callee name, supplying params, arg expr, arg's param tags)] for every call in `fn` in the
    state-update role described above."""
    cands = [s for s in walk_local(fn)
             if isinstance(s, ast.Assign) and isinstance(s.value, ast.Call) and isinstance(s.value.func, ast.Name)
             and (s.value.args or s.value.keywords)]
    if not cands:
        return []
    fi = finfo(mod, fn)
    located = []
    for s in cands:
        repl = _replaced_names(fi, fn, s)
        c = s.value
        for a in list(c.args) + [k.value for k in c.keywords]:
            if isinstance(a, ast.Starred):
                a = a.value
            if isinstance(a, ast.Name) and a.id in repl:
                located.append((s, a))
    if not located:
        return []
    cfg, IN, ctx = _alias_in_states(ea, mod, fn)
    out = []
    for s, a in located:
        st = IN.get(s)
        if st is None:
            continue        # unreachable
        c = s.value
        g = c.func.id
        suppliers = sorted({p for (k, p) in st.get(g, frozenset()) if k == 'P'})
        if not suppliers:
            continue        # not a caller-supplied callable (package functions: D4.no-arg-mutation follows them)
        tags = ea.av(a, st, ctx)
        out.append((s, c, g, suppliers, a, sorted({p for (k, p) in tags if k == 'P'})))
    return out


def _callers_of(ea, rel, q):
    """[(mod, qual, fn, call)] of the package calls that resolve to (rel, q)."""
    from ..resolve import enclosing_class
    out = []
    for (m, q2, fn2) in ea._fns:
        cls = enclosing_class(m, fn2)
        for c in walk_local(fn2):
            if isinstance(c, ast.Call):
                t = ea.res.resolve_call(m, c, cls)
                if t is not None and t.kind == 'func' and t.rel == rel and t.qual == q:
                    out.append((m, q2, fn2, c, t))
    return out


def _is_public_qual(q):
    leaf = q.split('.')[-1]
    return not (leaf.startswith('_') and not (leaf.startswith('__') and leaf.endswith('__')))


def d4_callback_state(ck, rels):
    rule = 'C19.D4.no-arg-mutation.callback-state'
    res, ea = shared(ck.repo)
    n = 0
    for rel in rels:
        mod = ck.repo.mod(rel)
        for q, fn in mod.functions.items():
            if '<locals>' in q:
                continue
            for (s, c, g, suppliers, a, owners) in _callback_state_sites(ea, mod, q, fn):
                n += 1
                ck.analysed(mod, fn)
                construct = '%s = %s(%s, ...): state handed to a caller-supplied update function' % (a.id, g, a.id)
                role = ('`%s` may be the callable the caller passed as `%s`, and its result replaces the argument `%s` it was computed '
                        'from (state-update role)' % (g, '`/`'.join(suppliers), a.id))
                if not owners:
                    ck.ok(rule, mod, s, construct, '%s; `%s` shares no storage with a parameter here (private duplicate / own result)'
                          % (role, a.id))
                    continue
                # `a` may still be the caller's object.  Public routine: decided.  Private helper: the objects its
                # package callers bind to that parameter decide.
                pending = [(mod, q, fn, p, 0) for p in owners]
                seen = set()
                verdicts = []
                while pending:
                    m1, q1, f1, p1, d = pending.pop()
                    if (m1.rel, q1, p1) in seen:
                        continue
                    seen.add((m1.rel, q1, p1))
                    if _is_public_qual(q1) and not getattr(f1, 'cy_cdef', False):
                        verdicts.append(('bad', m1, q1, p1))
                        continue
                    callers = _callers_of(ea, m1.rel, q1)
                    if not callers:
                        # the front end inlined this private helper into every caller (sa/inline.py): the site
                        # was located - and is decided - inside those callers
                        inl = {h for hs in (ck.repo.inlined.get(m1.rel) or {}).values() for h in hs}
                        if q1.split('.')[-1] in inl:
                            verdicts.append(('inlined', m1, q1, p1))
                            continue
                    if not callers or d >= 3:
                        verdicts.append(('open', m1, q1, p1))
                        continue
                    for (m2, q2, f2, c2, t2) in callers:
                        if '<locals>' in q2:
                            verdicts.append(('open', m2, q2, p1))
                            continue
                        b = ea._bind_args(c2, f1, t2).get(p1)
                        if b is None:
                            continue        # parameter left at its default: nothing of the caller's
                        cfg2, IN2, ctx2 = _alias_in_states(ea, m2, f2)
                        st2 = IN2.get(finfo(m2, f2).stmt(c2))
                        if st2 is None:
                            continue
                        for p2 in sorted({p for (k, p) in ea.av(b, st2, ctx2) if k == 'P'}):
                            pending.append((m2, q2, f2, p2, d + 1))
                bad = [v for v in verdicts if v[0] == 'bad']
                opn = [v for v in verdicts if v[0] == 'open']
                if bad:
                    _, m1, q1, p1 = bad[0]
                    ck.bad(rule, mod, s, q, construct,
                           '%s; on the first trip `%s` may still be the very object the caller passed as parameter `%s` of %s '
                           '(no private duplicate - copy.copy / .copy() / np.array - on every path from the entry to this call): an '
                           'update function that works in place and returns its argument, which the contract "takes X and returns the '
                           'new X" admits, then edits the caller\'s array; a repeated identical call starts from different contents'
                           % (role, a.id, p1, q1 if (m1 is mod and q1 == q) else '%s::%s' % (m1.rel, q1)),
                           '%s:%s %s' % (mod.rel, getattr(s, 'lineno', 0), u(s)[:160]))
                elif opn:
                    ck.missing(rule, '%s::%s: `%s` handed to the caller-supplied update function `%s` may alias parameter %s of the '
                                     'private function %s, whose callers could not all be followed'
                               % (mod.rel, q, a.id, g, opn[0][3], opn[0][2]))
                else:
                    ck.ok(rule, mod, s, construct, '%s; every package caller of the private %s binds a private object to %s '
                          '(or the helper was inlined into its callers and is decided there)' % (role, q, '/'.join(owners)))
    return n


CONTAINER_CTORS = ('dict', 'list', 'set', 'defaultdict', 'OrderedDict', 'deque', 'Counter', 'WeakValueDictionary',
                   'WeakKeyDictionary', 'bytearray')


def d6_globals(ck, rels):
    rule = 'C19.D6.module-state'
    res, _ = shared(ck.repo)
    allowed = {('enspara/util/load.py', '_init'): 'worker-side shared-array hand-over',
               ('enspara/util/parallel.py', 'pool_dense2d.<locals>.init'): 'worker-side shared-array hand-over',
               ('enspara/util/parallel.py', 'pool_sparse2d.<locals>.init'): 'worker-side shared-array hand-over'}
    n = 0
    for rel in rels:
        mod = ck.repo.mod(rel)
        # role: a function whose only use in its module is `initializer=<name>` of a call (process pool) runs once
        # per worker process, before any task, on the initargs of the very call that created the pool
        for q, fn in mod.functions.items():
            if (rel, q) in allowed or not any(isinstance(g, ast.Global) for g in walk_local(fn)):
                continue
            uses = [x for x in ast.walk(mod.tree) if isinstance(x, ast.Name) and x.id == fn.name
                    and isinstance(x.ctx, ast.Load)]
            if uses and all(isinstance(mod.parent.get(x), ast.keyword) and mod.parent.get(x).arg == 'initializer'
                            for x in uses):
                allowed[(rel, q)] = 'worker-side hand-over (only ever installed as initializer= of a process pool)'
        # module-level mutable containers
        containers = set()
        for s in mod.tree.body:
            if isinstance(s, ast.Assign) and (
                    isinstance(s.value, (ast.List, ast.Dict, ast.Set, ast.ListComp, ast.DictComp, ast.SetComp)) or
                    (isinstance(s.value, ast.Call) and (call_name(s.value) or '').split('.')[-1] in CONTAINER_CTORS)):
                containers.update(target_names(s.targets[0]))
        # process-lifetime objects that can carry attributes: the module's own functions and classes
        holders = {q for q in list(mod.functions) + list(mod.classes) if '.' not in q}
        # names bound by the module's import statements (package modules, third-party modules and what they export)
        imported = {k for k, t in res.table(rel).items() if t is not None and t.kind in ('mod', 'ext', 'var')} \
            if mod.kind == 'py' else set()
        # module-level variables of another module of the package, imported by name
        imported_vars = {k for k, t in res.table(rel).items() if t is not None and t.kind == 'var'} \
            if mod.kind == 'py' else set()
        for q, fn in mod.functions.items():
            for g in walk_local(fn):
                if isinstance(g, ast.Global):
                    n += 1
                    ok = (rel, q) in allowed
                    ck.check(ok, rule, mod, g, q, u(g),
                             allowed.get((rel, q), ''),
                             'a routine of an anchored numerical module writes module-level state: '
                             'its result can depend on previous calls')
            # stores into module-level containers
            locs = set(params(fn))
            for s in walk_local(fn):
                if isinstance(s, (ast.Assign, ast.AugAssign)):
                    tg = s.targets[0] if isinstance(s, ast.Assign) else s.target
                    locs.update(target_names(tg))
            for s in walk_local(fn):
                if isinstance(s, (ast.Assign, ast.AugAssign)):
                    tg = s.targets[0] if isinstance(s, ast.Assign) else s.target
                    if isinstance(tg, ast.Subscript) and isinstance(tg.value, ast.Name) and \
                            tg.value.id in (containers | imported_vars) and tg.value.id not in locs:
                        n += 1
                        ck.bad(rule, mod, s, q, u(s), 'store into module-level container `%s`' % tg.value.id)
                    # f.attr = ... / Cls.attr[...] = ... : state parked on a module-level function or class object
                    b = tg
                    while isinstance(b, (ast.Subscript, ast.Attribute)):
                        if isinstance(b, ast.Attribute) and isinstance(b.value, ast.Name) and b.value.id not in locs \
                                and b.value.id not in holders and b.value.id in imported:
                            n += 1
                            ck.bad(rule, mod, s, q, u(s), 'store into an attribute of the imported module / object `%s`: '
                                   'it is shared by the whole process, so what a call leaves there is visible to every '
                                   'later call' % b.value.id)
                            break
                        if isinstance(b, ast.Attribute) and isinstance(b.value, ast.Name) and b.value.id in holders \
                                and b.value.id not in locs:
                            n += 1
                            ck.bad(rule, mod, s, q, u(s), 'store into an attribute of the module-level function / class '
                                   '`%s`: the object lives as long as the process, so what a call leaves there is '
                                   'visible to every later call' % b.value.id)
                            break
                        b = b.value
                if isinstance(s, ast.Call) and isinstance(s.func, ast.Attribute) and \
                        isinstance(s.func.value, ast.Name) and s.func.value.id in (containers | imported_vars) and \
                        s.func.value.id not in locs and s.func.attr in MUTATING_METHODS:
                    n += 1
                    ck.bad(rule, mod, s, q, u(s), 'mutation of module-level container `%s`' % s.func.value.id)
        ck.ok(rule, mod, None, '%s: module containers %s' % (rel, sorted(containers)), 'no function writes them')
    return n


# ---------------------------------------------------------------------------
# D6 (process level): stateful stream objects that outlive a call
#
# A pseudo-random generator, an iterator / counter or an open file advances an
# internal state every time it is used.  When such an object is created ONCE
# per process - bound by a module-level statement, by a class-body statement,
# as the default value of a parameter (evaluated at `def` time), or returned
# by a memoised (lru_cache / cache) factory - and a function of the package
# draws from it, the n-th call of that function sees a different state than
# the first one: the result is a function of the call history, however
# carefully the object was seeded.  (The same constructor called INSIDE the
# function gives a fresh, identically seeded object per call and is fine.)
#
# Decided by def-use, not by name: the receiver of every method call, the
# iterable of every loop and the argument of next()/list()/... is traced
# through the reaching definitions of the function (temporaries, conditional
# expressions, `a or b`, parameter defaults) to the set of process-lifetime
# stream objects it MAY denote.  Three-valued: a draw is a VIOLATION; a stream
# object that escapes into a call / container / return value the rule cannot
# follow is ANALYSIS-INCOMPLETE; a read of a pure accessor is fine.

RNG_CLASSES = ('RandomState', 'default_rng', 'Generator', 'Random', 'SystemRandom')
STREAM_EXT = {'itertools.count': 'counter', 'itertools.cycle': 'iterator'}
STREAM_BUILTINS = {'iter': 'iterator', 'open': 'file handle'}
# methods that read a stream object without advancing it
STREAM_ACCESSORS = {'get_state', '__getstate__', '__reduce__', 'tell', 'fileno', 'isatty', 'readable',
                    'writable', 'seekable'}
# builtins that consume (part of) an iterator handed to them
STREAM_CONSUMERS = {'next', 'list', 'tuple', 'set', 'sorted', 'sum', 'min', 'max', 'zip', 'enumerate', 'any', 'all',
                    'dict', 'frozenset', 'map', 'filter', 'itertools.islice', 'islice', 'np.fromiter'}


def _stream_ctor(res, rel, e):
    """What kind of stateful stream object the expression creates ('pseudo-random generator', ...), else None."""
    if isinstance(e, ast.GeneratorExp):
        return 'generator'
    if not isinstance(e, ast.Call):
        return None
    name = call_name(e)
    if name is None:
        return None
    t = res.resolve_dotted(rel, name)
    if t is None:
        if name in STREAM_BUILTINS:
            return STREAM_BUILTINS[name]
        full = name
    elif t.kind == 'ext':
        full = t.ext
    else:
        return None
    parts = full.split('.')
    if parts[-1] in RNG_CLASSES and 'random' in parts[:-1]:
        return 'pseudo-random generator'
    return STREAM_EXT.get(full)


def _import_time_bindings(root):
    """[(name, value expr, stmt)] of the simple bindings a module / class body executes once (not inside defs)."""
    out = []
    for s in walk_local(root):
        if isinstance(s, ast.Assign):
            for t in s.targets:
                if isinstance(t, ast.Name):
                    out.append((t.id, s.value, s))
                elif isinstance(t, (ast.Tuple, ast.List)) and isinstance(s.value, (ast.Tuple, ast.List)) \
                        and len(t.elts) == len(s.value.elts):
                    for te, ve in zip(t.elts, s.value.elts):
                        if isinstance(te, ast.Name):
                            out.append((te.id, ve, s))
        elif isinstance(s, ast.AnnAssign) and s.value is not None and isinstance(s.target, ast.Name):
            out.append((s.target.id, s.value, s))
    return out


class _Streams:
    """Process-lifetime stream objects of the package and what an expression inside a function may denote."""

    def __init__(self, repo, res, mods):
        self.repo, self.res = repo, res
        self.module = {}        # rel -> {name: (kind, stmt)}
        self.klass = {}         # (rel, class qualname) -> {attr: (kind, stmt)}
        self.factory = {}       # (rel, function qualname) -> (kind, return stmt)
        for mod in mods:
            tab = {}
            for name, val, s in _import_time_bindings(mod.tree):
                kind = _stream_ctor(res, mod.rel, val)
                if kind is None and isinstance(val, ast.Name) and val.id in tab:
                    kind = tab[val.id][0]       # module-level alias of an earlier stream object
                if kind is not None:
                    tab[name] = (kind, s)
                else:
                    tab.pop(name, None)
            if tab:
                self.module[mod.rel] = tab
            for cq, cls in mod.classes.items():
                ctab = {}
                for name, val, s in _import_time_bindings(cls):
                    if mod.parent.get(s) is not cls:
                        continue
                    kind = _stream_ctor(res, mod.rel, val)
                    if kind is not None:
                        ctab[name] = (kind, s)
                if ctab:
                    # an attribute some method rebinds on the instance is (also) per-object state: not decided here
                    for m in _methods(cls):
                        me = _receiver(m)
                        for s in walk_local(m):
                            if isinstance(s, (ast.Assign, ast.AnnAssign, ast.AugAssign)):
                                for t in (s.targets if isinstance(s, ast.Assign) else [s.target]):
                                    if me and _self_attr(t, me) in ctab:
                                        ctab.pop(_self_attr(t, me))
                    if ctab:
                        self.klass[(mod.rel, cq)] = ctab
            for q, fn in mod.functions.items():
                if not any(d in MEMO_DECORATORS for d in _decorators(fn)):
                    continue
                for r in walk_local(fn):
                    if isinstance(r, ast.Return) and r.value is not None:
                        fi = finfo(mod, fn)
                        try:
                            v = fi.expand(r.value)
                        except Exception:
                            v = r.value
                        kind = _stream_ctor(res, mod.rel, v)
                        if kind is not None:
                            self.factory[(mod.rel, q)] = (kind, r)
        self.any = bool(self.module or self.klass or self.factory)

    # -- scoping ------------------------------------------------------------
    def _free(self, mod, fn, name):
        """`name` read inside fn refers to the module namespace."""
        f = fn
        while f is not None:
            fi = finfo(mod, f)
            glob = any(isinstance(g, ast.Global) and name in g.names for g in walk_local(f))
            if name in fi.rd.locals and not glob:
                return False
            if glob:
                return True
            f = mod.enclosing_function(f)
        return True

    def _class_of(self, mod, fn):
        p = mod.parent.get(fn)
        while p is not None and not isinstance(p, (ast.ClassDef, ast.FunctionDef, ast.AsyncFunctionDef)):
            p = mod.parent.get(p)
        if isinstance(p, ast.ClassDef):
            for cq, c in mod.classes.items():
                if c is p:
                    return cq
        return None

    def denotes(self, mod, fn, e, depth=6, _seen=None):
        """{(label, kind, origin text)}: process-lifetime stream objects the expression may evaluate to."""
        out = set()
        if depth <= 0 or e is None:
            return out
        _seen = _seen if _seen is not None else set()
        if id(e) in _seen:
            return out
        _seen.add(id(e))
        fi = finfo(mod, fn)
        rel = mod.rel
        if isinstance(e, ast.IfExp):
            return self.denotes(mod, fn, e.body, depth - 1, _seen) | self.denotes(mod, fn, e.orelse, depth - 1, _seen)
        if isinstance(e, ast.BoolOp):
            for v in e.values:
                out |= self.denotes(mod, fn, v, depth - 1, _seen)
            return out
        if isinstance(e, ast.NamedExpr):
            return self.denotes(mod, fn, e.value, depth - 1, _seen)
        if isinstance(e, ast.Name):
            if self._free(mod, fn, e.id):
                tab = self.module.get(rel, {})
                if e.id in tab:
                    kind, s = tab[e.id]
                    out.add(('module-level `%s`' % e.id, kind, '%s: %s' % (mod.loc(s), u(s)[:80])))
                    return out
                t = self.res.table(rel).get(e.id)
                if t is not None and t.kind == 'var' and t.qual in self.module.get(t.rel, {}):
                    kind, s = self.module[t.rel][t.qual]
                    out.add(('module-level `%s` of %s' % (t.qual, t.rel), kind,
                             '%s:%s: %s' % (t.rel, getattr(s, 'lineno', '?'), u(s)[:80])))
                return out
            if not isinstance(e.ctx, ast.Load):
                return out
            try:
                defs = fi.defs_of_use(e)
            except Exception:
                return out
            for site in defs:
                if site == 'PARAM':
                    if fn is fi.fn and e.id in params(fn):
                        from ..core import param_default
                        d = param_default(fn, e.id)
                        kind = _stream_ctor(self.res, rel, d) if d is not None else None
                        if kind is not None:
                            out.add(('default value of parameter `%s`' % e.id, kind,
                                     '%s: %s=%s (evaluated once, when the function is defined)' % (
                                         mod.loc(d), e.id, u(d)[:60])))
                        elif isinstance(d, ast.Name):
                            out |= {(('default value of parameter `%s` = ' % e.id) + l, k, o)
                                    for l, k, o in self._module_name(mod, d.id)}
                elif site != 'UNBOUND':
                    v = fi.def_value(site, e.id)
                    if v is not None:
                        out |= self.denotes(mod, fn, v, depth - 1, _seen)
            return out
        if isinstance(e, ast.Attribute):
            base = e.value
            # self.A / cls.A / ClassName.A with A bound once in the class body
            cq = self._class_of(mod, fn)
            if isinstance(base, ast.Name):
                cands = []
                if cq is not None and base.id in (params(fn)[:1] or ['']) and base.id in ('self', 'cls'):
                    cands.append((rel, cq))
                t = self.res.table(rel).get(base.id) if self._free(mod, fn, base.id) else None
                if t is not None and t.kind == 'class':
                    cands.append((t.rel, t.qual))
                for key in cands:
                    if e.attr in self.klass.get(key, {}):
                        kind, s = self.klass[key][e.attr]
                        out.add(('class attribute `%s.%s`' % (key[1], e.attr), kind,
                                 '%s:%s: %s' % (key[0], getattr(s, 'lineno', '?'), u(s)[:80])))
                # module_alias.NAME
                if t is not None and t.kind == 'mod' and e.attr in self.module.get(t.rel, {}):
                    kind, s = self.module[t.rel][e.attr]
                    out.add(('module-level `%s` of %s' % (e.attr, t.rel), kind,
                             '%s:%s: %s' % (t.rel, getattr(s, 'lineno', '?'), u(s)[:80])))
            return out
        if isinstance(e, ast.Call):
            nm = call_name(e)
            if nm and (not isinstance(e.func, ast.Name) or self._free(mod, fn, e.func.id)):
                t = self.res.resolve_dotted(rel, nm)
                if t is not None and t.kind == 'func' and (t.rel, t.qual) in self.factory:
                    kind, r = self.factory[(t.rel, t.qual)]
                    out.add(('memoised factory `%s()`' % nm, kind,
                             '%s:%s: %s (the decorator keeps the first object it returned)' % (
                                 t.rel, getattr(r, 'lineno', '?'), u(r)[:80])))
            return out
        return out

    def _module_name(self, mod, name):
        tab = self.module.get(mod.rel, {})
        if name in tab:
            kind, s = tab[name]
            return {('module-level `%s`' % name, kind, '%s: %s' % (mod.loc(s), u(s)[:80]))}
        return set()


def d6_process_streams(ck, mods):
    """No function draws from a stream object (generator, iterator, file) that lives longer than one call."""
    rule = 'C19.D6.process-stream'
    res, _ = shared(ck.repo)
    mods = [m for m in mods if m.kind == 'py']
    st = _Streams(ck.repo, res, mods)
    n = 0
    for rel, tab in sorted(st.module.items()):
        for name, (kind, s) in sorted(tab.items()):
            ck.observe(rule, ck.repo.mod(rel), s, 'module-level %s `%s`' % (kind, u(s)[:80]))
    for mod in mods:
        n0 = len(ck.violations) + len(ck.known_hits) + len(ck.incomplete)
        _streams_in_module(ck, rule, res, st, mod)
        n += 1
        if len(ck.violations) + len(ck.known_hits) + len(ck.incomplete) == n0:
            ck.ok(rule, mod, None, 'functions of %s' % mod.rel,
                  'no function draws from a pseudo-random generator / iterator / file handle that outlives the call '
                  '(module-level, class-level, default-argument or memoised; %d such objects in the package)'
                  % (sum(map(len, st.module.values())) + sum(map(len, st.klass.values())) + len(st.factory)))
    return n


def _streams_in_module(ck, rule, res, st, mod):
    tab = res.table(mod.rel)
    interesting = set(st.module.get(mod.rel, {}))
    interesting |= {k for k, t in tab.items() if t is not None and (
        (t.kind == 'var' and t.qual in st.module.get(t.rel, {})) or
        (t.kind == 'mod' and t.rel in st.module) or
        (t.kind == 'class' and (t.rel, t.qual) in st.klass) or
        (t.kind == 'func' and (t.rel, t.qual) in st.factory))}
    has_cls = any(r == mod.rel for r, _ in st.klass)
    for q, fn in mod.functions.items():
        defaults = list(fn.args.defaults) + [k for k in fn.args.kw_defaults if k is not None]
        dflt_stream = any(_stream_ctor(res, mod.rel, d) is not None or
                          (isinstance(d, ast.Name) and d.id in st.module.get(mod.rel, {})) for d in defaults)
        if not (dflt_stream or has_cls or any(
                isinstance(x, ast.Name) and x.id in interesting for x in walk_local(fn))):
            continue
        explained = set()
        drew = []

        def report(node, recv, how):
            hits = st.denotes(mod, fn, recv)
            for x in walk_expr(recv):
                explained.add(id(x))
            for label, kind, origin in sorted(hits):
                drew.append(label)
                ck.bad(rule, mod, node, q, '%s draws from the %s' % (q.split('.')[-1], label),
                       '`%s` %s a %s that is created once per process (%s) and keeps its state between '
                       'calls: the n-th call of %s starts from the state the previous calls left behind, so '
                       'its result depends on how often (and with what) it was called before - not on its '
                       'arguments alone.  Create the object inside the function (same seed, fresh state) instead'
                       % (u(node)[:90], how, kind, origin, q))

        for c in walk_local(fn):
            if isinstance(c, ast.Call):
                if isinstance(c.func, ast.Attribute) and c.func.attr not in STREAM_ACCESSORS:
                    report(c, c.func.value, 'calls a state-advancing method of')
                elif isinstance(c.func, ast.Attribute):
                    for x in walk_expr(c.func.value):
                        explained.add(id(x))
                cn = call_name(c) or ''
                if cn in STREAM_CONSUMERS or cn.split('.')[-1] in ('islice', 'fromiter'):
                    for a in c.args:
                        report(c, a, 'consumes items of')
            elif isinstance(c, (ast.For, ast.AsyncFor)):
                report(c.iter, c.iter, 'iterates over')
            elif isinstance(c, ast.comprehension):
                report(c.iter, c.iter, 'iterates over')
        if drew:
            continue
        # a stream object that flows somewhere the rule does not follow
        for x in walk_local(fn):
            if not (isinstance(x, (ast.Name, ast.Attribute)) and isinstance(x.ctx, ast.Load)) or id(x) in explained:
                continue
            if not st.denotes(mod, fn, x):
                continue
            p = mod.parent.get(x)
            if isinstance(p, ast.Attribute):
                continue        # attribute read / accessor call
            if isinstance(p, (ast.Compare, ast.If, ast.While, ast.Assert, ast.UnaryOp)):
                continue        # identity / truth test
            if isinstance(p, (ast.Assign, ast.AnnAssign)) and p.value is x and all(
                    isinstance(t, ast.Name) for t in (p.targets if isinstance(p, ast.Assign) else [p.target])):
                continue        # local alias: its uses are traced through the reaching definitions
            if isinstance(p, (ast.IfExp, ast.BoolOp, ast.NamedExpr)):
                continue        # selection between objects: traced where the result is used
            if isinstance(p, ast.Expr):
                continue        # bare expression statement
            ck.missing(rule, '%s %s::%s: the process-lifetime stream object `%s` is passed on (`%s`); whether '
                       'its state is advanced there is not decided' % (
                           mod.loc(x), mod.rel, q, u(x), u(mod.enclosing_stmt(x))[:80]))


# ---------------------------------------------------------------------------
# D6 (instance level): a memoised derived attribute is invalidated by every
# writer of what it was derived from
#
# `self.A` is a *lazily filled derived attribute* when a method other than the
# constructor stores `self.A = <expr reading other attributes self.B...>` under
# a guard that tests `self.A` itself (if self.A is None / hasattr / early
# return / except AttributeError), or when a method is wrapped in
# cached_property / lru_cache / cache and reads self.B.  From then on the answer
# of every reader of A depends on WHEN A was first read unless every method
# that writes a source attribute B (rebinding, element store, in-place method)
# also resets A on every normally-completing path through that write (a store /
# del of self.A, or a call of a method - e.g. self.__init__ - that always
# resets it).  A writer without such a reset makes two objects with identical
# contents answer differently depending on their call history.

MEMO_DECORATORS = ('cached_property', 'functools.cached_property', 'lru_cache', 'functools.lru_cache',
                   'cache', 'functools.cache')
CONSTRUCTORS = ('__init__', '__new__', '__setstate__')


def _self_attr(e, me):
    if isinstance(e, ast.Attribute) and isinstance(e.value, ast.Name) and e.value.id == me:
        return e.attr
    return None


def _stored_attr(t, me):
    """Attribute of `me` whose storage a store to target `t` writes: self.A, self.A[i], self.A.x[i] ..."""
    while isinstance(t, (ast.Subscript, ast.Attribute)):
        a = _self_attr(t, me)
        if a is not None:
            return a
        t = t.value
    return None


def _mentions(expr, me, attr):
    for n in walk_expr(expr):
        if _self_attr(n, me) == attr:
            return True
        if isinstance(n, ast.Call) and call_name(n) in ('hasattr', 'getattr') and len(n.args) >= 2 and \
                isinstance(n.args[0], ast.Name) and n.args[0].id == me and const_value(n.args[1]) == attr:
            return True
        if isinstance(n, ast.Constant) and n.value == attr:
            return True        # '<attr>' in self.__dict__ / vars(self)
    return False


def _decorators(fn):
    out = []
    for d in fn.decorator_list:
        out.append(call_name(d) if isinstance(d, ast.Call) else (u(d)))
    return out


def _methods(cls):
    """Direct methods of the class (nested defs belong to their method)."""
    direct = []
    stack = list(cls.body)
    while stack:
        s = stack.pop(0)
        if isinstance(s, (ast.FunctionDef, ast.AsyncFunctionDef)):
            direct.append(s)
        elif isinstance(s, (ast.If, ast.Try, ast.With)):
            stack = [c for c in ast.iter_child_nodes(s) if isinstance(c, ast.stmt)] + stack
    return direct


def _receiver(fn):
    ds = _decorators(fn)
    if 'staticmethod' in ds or 'classmethod' in ds:
        return None
    ps = params(fn)
    return ps[0] if ps else None


def _attrs_read(mod, cls_methods, fn, expr_or_fn, me, depth=2):
    """Attributes of `me` the value of an expression (or a whole method body) is computed from; reads through
    properties / methods of the same class are followed `depth` levels."""
    out = set()
    roots = [expr_or_fn] if isinstance(expr_or_fn, ast.expr) else list(walk_local(expr_or_fn))
    for r in roots:
        for n in (walk_expr(r) if isinstance(r, ast.expr) else [r]):
            a = _self_attr(n, me)
            if a is None or not isinstance(getattr(n, 'ctx', None), ast.Load):
                continue
            callee = [m for m in cls_methods if m.name == a]
            if callee:
                if depth > 0:
                    m = callee[-1]
                    me2 = _receiver(m)
                    if me2:
                        out |= _attrs_read(mod, cls_methods, m, m, me2, depth - 1)
            else:
                out.add(a)
    return out


def _memo_fills(mod, cls, own, methods=None):
    """[(attr A, method M, fill statement, sources, kind)] of the class: fills sit in its `own` methods; reads
    through properties / methods of the same object are followed through `methods` (own + inherited)."""
    out = []
    methods = methods if methods is not None else own
    for fn in own:
        me = _receiver(fn)
        if me is None:
            continue
        decs = _decorators(fn)
        if any(d in MEMO_DECORATORS for d in decs):
            src = _attrs_read(mod, methods, fn, fn, me) - {fn.name}
            if src:
                out.append((fn.name, fn, fn, src, 'decorator'))
            continue
        if fn.name in CONSTRUCTORS:
            continue
        fi = finfo(mod, fn)
        for s in walk_local(fn):
            if isinstance(s, ast.Assign):
                tgs, val = s.targets, s.value
            elif isinstance(s, ast.AnnAssign) and s.value is not None:
                tgs, val = [s.target], s.value
            else:
                continue
            for t in tgs:
                A = _self_attr(t, me)
                if A is None or isinstance(val, ast.Constant):
                    continue
                guarded = False
                for n in fi.cfg.nodes:
                    if isinstance(n, Assume) and _mentions(n.test, me, A) and fi.cfg.dominates(n, s):
                        guarded = True
                        break
                if not guarded:
                    for a in _ancestors(mod, s, fn):
                        if isinstance(a, ast.ExceptHandler):
                            tr = mod.parent.get(a)
                            if isinstance(tr, ast.Try) and any(_mentions(b, me, A) for b in tr.body):
                                guarded = True
                if not guarded:
                    continue
                try:
                    v = fi.expand(val)
                except Exception:
                    v = val
                src = _attrs_read(mod, methods, fn, v, me) - {A}
                if src:
                    out.append((A, fn, s, src, 'guarded fill'))
    return out


def _attr_writes(mod, fn, me, attrs):
    """[(stmt node, attr, text)] : stores / in-place updates of self.<attr> (attr in attrs) in method fn."""
    out = []
    for s in walk_local(fn):
        tgs = []
        if isinstance(s, ast.Assign):
            tgs = list(s.targets)
        elif isinstance(s, (ast.AugAssign, ast.AnnAssign)):
            tgs = [s.target] if not (isinstance(s, ast.AnnAssign) and s.value is None) else []
        elif isinstance(s, ast.Delete):
            tgs = list(s.targets)
        elif isinstance(s, (ast.For, ast.AsyncFor)):
            tgs = [s.target]
        flat = []
        for t in tgs:
            flat += list(t.elts) if isinstance(t, (ast.Tuple, ast.List)) else [t]
        for t in flat:
            a = _stored_attr(t, me)
            if a in attrs:
                out.append((s, a, u(s)))
        if isinstance(s, ast.Call):
            cn = call_name(s) or ''
            if isinstance(s.func, ast.Attribute) and s.func.attr in MUTATING_METHODS:
                a = _stored_attr(s.func.value, me)
                if a in attrs:
                    out.append((s, a, u(s)))
            if cn in MUTATING_FUNCS_ARG0 and s.args:
                a = _stored_attr(s.args[0], me)
                if a in attrs:
                    out.append((s, a, u(s)))
            o = kwarg(s, 'out')
            if o is not None and _stored_attr(o, me) in attrs:
                out.append((s, _stored_attr(o, me), u(s)))
    return out


_METHOD_MOD = {}        # id(method FunctionDef) -> Module that defines it (methods of one object may come from several)


def _mfi(mod, fn):
    return finfo(_METHOD_MOD.get(id(fn), mod), fn)


def _reset_nodes(mod, methods, fn, me, A, kind, depth=2):
    """CFG statements of method fn after which self.A is certainly fresh (stored, deleted, cache cleared,
    or a method of the same object that always resets it was called).  `methods` is ordered base class
    first: the last definition of a name is the one a call on the object reaches."""
    fi = _mfi(mod, fn)
    out = []
    for s in walk_local(fn):
        hit = False
        if isinstance(s, (ast.Assign, ast.AugAssign, ast.AnnAssign, ast.Delete)):
            tgs = s.targets if isinstance(s, (ast.Assign, ast.Delete)) else [s.target]
            for t in tgs:
                for e in (t.elts if isinstance(t, (ast.Tuple, ast.List)) else [t]):
                    if _self_attr(e, me) == A:
                        hit = True
        elif isinstance(s, ast.Call):
            f = s.func
            if isinstance(f, ast.Attribute):
                # self.m(...) / type(self).m(self, ...) / super().m(...) with m always resetting A
                callee = [m for m in methods if m.name == f.attr]
                recv_self = (isinstance(f.value, ast.Name) and f.value.id == me) or \
                    (isinstance(f.value, ast.Call) and call_name(f.value) in ('type', 'super')) or \
                    (s.args and isinstance(s.args[0], ast.Name) and s.args[0].id == me)
                if callee and recv_self and depth > 0 and callee[-1] is not fn and \
                        _always_resets(mod, methods, callee[-1], A, kind, depth - 1):
                    hit = True
                if kind == 'decorator' and f.attr in ('cache_clear', 'pop', '__delattr__') and _mentions(s, me, A):
                    hit = True
            elif call_name(s) == 'delattr' and _mentions(s, me, A):
                hit = True
        if hit:
            st = fi.stmt(s)
            if st is not None and st not in out:
                out.append(st)
    return out


def _always_resets(mod, methods, fn, A, kind, depth=1):
    me = _receiver(fn)
    if me is None:
        return False
    fi = _mfi(mod, fn)
    resets = _reset_nodes(mod, methods, fn, me, A, kind, depth)
    if not resets:
        return False
    raises = [n for n in fi.cfg.nodes if isinstance(n, ast.Raise)]
    return not fi.cfg.reachable(ENTRY, EXIT, avoiding=resets + raises)


def _reinvoked(methods, ctor):
    """Some method of the class calls the constructor again on an existing object (self.__init__(...))."""
    for m in methods:
        for c in walk_local(m):
            if isinstance(c, ast.Call) and isinstance(c.func, ast.Attribute) and c.func.attr == ctor.name \
                    and not (isinstance(c.func.value, ast.Call) and call_name(c.func.value) == 'super'):
                return True
    return False


def _class_families(repo, res, rels):
    """Classes of the scanned modules with their in-package bases: (classes, lineage, carriers, methods).
    lineage(k) = k and its in-package ancestors, most derived first; carriers(k) = the classes whose objects
    have k's methods (k and its descendants).  Bases outside the package (object, namedtuple(...),
    sklearn mixins) contribute no methods that write attributes of this package's classes."""
    from ..core import dotted
    classes = {}
    for rel in rels:
        mod = repo.mod(rel)
        for cq, cls in mod.classes.items():
            classes[(rel, cq)] = (mod, cls)
    bases = {k: [] for k in classes}
    for k, (mod, cls) in classes.items():
        for b in cls.bases:
            t = res.resolve_dotted(mod.rel, dotted(b) or '')
            if t is not None and t.kind == 'class' and (t.rel, t.qual) in classes and (t.rel, t.qual) != k:
                bases[k].append((t.rel, t.qual))
    memo = {}

    def lineage(k, depth=12):
        if k in memo:
            return memo[k]
        out = [k]
        if depth > 0:
            for b in bases[k]:
                for x in lineage(b, depth - 1):
                    if x not in out:
                        out.append(x)
        memo[k] = out
        return out
    meths = {}
    for k, (mod, cls) in classes.items():
        meths[k] = _methods(cls)
        for m in meths[k]:
            _METHOD_MOD[id(m)] = mod
    carriers = {k: [d for d in classes if k in lineage(d)] for k in classes}

    def family_methods(d):
        return [(k, m) for k in reversed(lineage(d)) for m in meths[k]]
    return classes, carriers, meths, family_methods


def d6_derived_caches(ck, rels):
    """The writers of a source attribute are looked for in every class whose objects carry the memoised
    attribute: the class that fills it, its in-package base classes and every in-package subclass (a mixin
    that memoises `self.result_.x` is invalidated - or not - by the `fit` of the estimators that inherit it)."""
    rule = 'C19.D6.derived-cache'
    res, _ = shared(ck.repo)
    classes, carriers, meths, family_methods = _class_families(ck.repo, res, rels)
    n = 0
    for key, (mod, cls) in classes.items():
        rel, cq = key
        n += 1
        lookup = [m for _, m in family_methods(key)]
        fills = _memo_fills(mod, cls, meths[key], lookup)
        if not fills:
            ck.ok(rule, mod, cls, 'class %s' % cq,
                  'no lazily filled / memoised attribute derived from other attributes of the object')
            continue
        for A, M, fill, src, kind in fills:
            mq = '%s.%s' % (cq, M.name)
            ck.analysed(mod, M)
            verdicts = {}        # id(write node) -> [stale on some carrier, W module, node, writer qualname, attr, text]
            ctor_only = {}       # id(W) -> (W module, W, writer qualname)
            for d in carriers[key]:
                fam = family_methods(d)
                methods = [m for _, m in fam]
                for (wrel, wcq), W in fam:
                    me = _receiver(W)
                    if me is None or W is M:
                        continue
                    ws = _attr_writes(mod, W, me, src)
                    if not ws:
                        continue
                    wmod = _METHOD_MOD[id(W)]
                    wq = '%s.%s' % (wcq, W.name)
                    if W.name in CONSTRUCTORS and not _reinvoked(methods, W):
                        ctor_only.setdefault(id(W), (wmod, W, wq))
                        continue
                    fi = _mfi(wmod, W)
                    resets = _reset_nodes(wmod, methods, W, me, A, kind)
                    raises = [x for x in fi.cfg.nodes if isinstance(x, ast.Raise)]
                    for w, b, text in ws:
                        st = fi.stmt(w)
                        v = verdicts.setdefault(id(w), [False, wmod, w, wq, b, text, d])
                        if st is None:
                            v[0] = None if v[0] is False else v[0]
                            continue
                        stale = st not in resets and \
                            (st is ENTRY or fi.cfg.reachable(ENTRY, st, avoiding=resets)) and \
                            fi.cfg.reachable(st, EXIT, avoiding=resets + raises)
                        if stale and v[0] is not True:
                            v[0], v[6] = True, d
            for wid, (wmod, W, wq) in ctor_only.items():
                if not any(v[3] == wq for v in verdicts.values()):
                    ck.ok(rule, wmod, W, 'self.%s cached in %s / writes in %s' % (A, M.name, wq),
                          'the constructor runs on a fresh object (no method re-invokes it): nothing is cached yet')
            for stale, wmod, w, wq, b, text, d in verdicts.values():
                if stale is None:
                    ck.missing(rule, 'write `%s` of %s not located in the CFG' % (text[:80], wq))
                    continue
                via = '' if d == key else ' (objects of %s inherit %s from %s)' % (d[1], M.name, cq)
                ck.check(not stale, rule, wmod, w, wq,
                         'self.%s (cached in %s from self.%s) <- %s' % (A, M.name, b, text[:120]),
                         'every path through this write of self.%s also resets the cached self.%s' % (b, A),
                         '%s fills self.%s once from self.%s (%s: `%s`) and keeps it; %s writes self.%s '
                         'without resetting self.%s on some path%s, so a later read of self.%s depends on '
                         'whether it had been read before this call - two objects with identical '
                         'contents answer differently depending on their call history'
                         % (mq, A, ', self.'.join(sorted(src)), kind,
                            (u(fill) if not isinstance(fill, (ast.FunctionDef, ast.AsyncFunctionDef))
                             else '@' + ' @'.join(_decorators(fill)))[:100], wq, b, A, via, A))
            if not verdicts:
                ck.ok(rule, mod, fill, 'self.%s cached in %s' % (A, mq),
                      'no method writes its sources self.%s after construction' % ', self.'.join(sorted(src)))
    return n


# ---------------------------------------------------------------------------
# D6 (function level): a memoised function hands the SAME object to every caller
#
# functools.lru_cache / cache keep the first object computed for a key for the
# life of the process and return that very object to every later call with an
# equal key.  That is invisible as long as the object is immutable (numbers,
# strings, tuples of those); a mutable result (ndarray, list, dict, matrix)
# that any caller then updates in place is handed to the next caller in its
# UPDATED state - the next result depends on what earlier callers did with
# theirs.  Decided by def-use at every call site in the package: the result
# bound to a local that is stored into / updated in place -> VIOLATION naming
# the store; a result that is returned, parked in an attribute or container,
# or passed to a callee outside numpy's pure vocabulary -> ANALYSIS-INCOMPLETE
# (the object is shared beyond what this rule follows); only read -> fine.  A
# memoised public function with a mutable result and no caller in the package
# hands the shared object to the user: INCOMPLETE.

_IMMUTABLE_CALLS = {'int', 'float', 'bool', 'str', 'len', 'complex', 'frozenset', 'hash', 'abs', 'round', 'min', 'max',
                    'sum', 'repr', 'bytes', 'np.float64', 'np.int64', 'np.float32', 'np.int32', 'np.bool_'}


def _immutable_value(e, pnames, depth=6):
    """The expression certainly evaluates to an immutable object (given hashable parameters)."""
    if depth <= 0 or e is None:
        return e is None
    if isinstance(e, ast.Constant):
        return True
    if isinstance(e, ast.Name):
        return e.id in pnames or e.id in ('True', 'False', 'None')
    if isinstance(e, ast.Tuple):
        return all(_immutable_value(x, pnames, depth - 1) for x in e.elts)
    if isinstance(e, ast.Compare):
        return all(_immutable_value(x, pnames, depth - 1) for x in [e.left] + list(e.comparators))
    if isinstance(e, ast.BoolOp):
        return all(_immutable_value(x, pnames, depth - 1) for x in e.values)
    if isinstance(e, ast.UnaryOp):
        return _immutable_value(e.operand, pnames, depth - 1)
    if isinstance(e, ast.BinOp):
        return _immutable_value(e.left, pnames, depth - 1) and _immutable_value(e.right, pnames, depth - 1)
    if isinstance(e, ast.IfExp):
        return _immutable_value(e.body, pnames, depth - 1) and _immutable_value(e.orelse, pnames, depth - 1)
    if isinstance(e, ast.Call):
        cn = call_name(e) or ''
        if cn in _IMMUTABLE_CALLS or cn.startswith('math.'):
            return True
        if cn == 'tuple' and len(e.args) == 1 and isinstance(e.args[0], (ast.GeneratorExp, ast.ListComp)):
            return _immutable_value(e.args[0].elt, pnames, depth - 1)
        if isinstance(e.func, ast.Attribute) and e.func.attr == 'item':
            return True
    return False


def _shared_result_uses(mod, g, call):
    """[(verdict, node, text)] for one call of a memoised function inside function g:
    'store' (the shared object is updated in place), 'escape' (it leaves what is followed), 'read'."""
    fi = finfo(mod, g)
    out = []

    def classify_use(x):
        """x: an expression node that denotes the shared object."""
        p = mod.parent.get(x)
        st = mod.enclosing_stmt(x)
        if isinstance(p, ast.Subscript) and p.value is x:
            if isinstance(p.ctx, (ast.Store, ast.Del)):
                return [('store', st, u(st))]
            if isinstance(mod.parent.get(p), ast.AugAssign) and mod.parent.get(p).target is p:
                return [('store', st, u(st))]
            return classify_use(p) if _is_view_index(p) else [('read', st, u(st))]
        if isinstance(p, ast.AugAssign) and p.target is x:
            return [('store', st, u(st))]
        if isinstance(p, ast.Attribute) and p.value is x:
            pp = mod.parent.get(p)
            if isinstance(pp, ast.Call) and pp.func is p:
                if p.attr in MUTATING_METHODS:
                    return [('store', st, u(st))]
                return [('read', st, u(st))]
            if isinstance(p.ctx, ast.Store):
                return [('store', st, u(st))]
            return [('read', st, u(st))]
        if isinstance(p, ast.keyword) and p.arg == 'out':
            return [('store', st, u(st))]
        if isinstance(p, (ast.Call, ast.keyword)):
            c = p if isinstance(p, ast.Call) else mod.parent.get(p)
            cn = call_name(c) or ''
            if cn in MUTATING_FUNCS_ARG0 and c.args and c.args[0] is x:
                return [('store', st, u(st))]
            if cn.split('.')[0] in ('np', 'numpy', 'scipy', 'math') or cn in _IMMUTABLE_CALLS or cn in (
                    'list', 'tuple', 'sorted', 'set', 'dict', 'enumerate', 'zip', 'range', 'print', 'isinstance', 'type'):
                return [('read', st, u(st))]
            return [('escape', st, u(st))]
        if isinstance(p, ast.Return) or isinstance(p, (ast.Yield, ast.YieldFrom)):
            return [('escape', st, u(st))]
        if isinstance(p, (ast.Tuple, ast.List, ast.Dict, ast.Set, ast.Starred)):
            return [('escape', st, u(st))]
        if isinstance(p, (ast.Assign, ast.AnnAssign)) and p.value is x:
            tgs = p.targets if isinstance(p, ast.Assign) else [p.target]
            res_ = []
            for t in tgs:
                if isinstance(t, ast.Name):
                    for y in walk_local(g):
                        if isinstance(y, ast.Name) and y.id == t.id and isinstance(y.ctx, ast.Load):
                            try:
                                sites = fi.defs_of_use(y)
                            except Exception:
                                sites = ()
                            if any(s_ is p for s_ in sites):
                                res_ += classify_use(y)
                        elif isinstance(y, ast.AugAssign) and isinstance(y.target, ast.Name) and y.target.id == t.id:
                            res_.append(('store', y, u(y)))
                else:
                    res_.append(('escape', st, u(st)))
            return res_ or [('read', st, u(st))]
        return [('read', st, u(st))]

    def _is_view_index(sub):
        sl = sub.slice
        dims = sl.elts if isinstance(sl, ast.Tuple) else [sl]
        return any(isinstance(d, ast.Slice) for d in dims)

    out += classify_use(call)
    return out


# callables whose result is read from state outside the process (file contents, directory listings, the clock, the
# environment) or from a process-wide random stream: not a function of the arguments a memo is keyed on
EXTERNAL_STATE_READERS = {
    'open', 'io.open', 'mdtraj.open', 'mdtraj.load', 'mdtraj.load_frame', 'mdtraj.iterload', 'mdtraj.load_topology',
    'numpy.load', 'numpy.loadtxt', 'numpy.fromfile', 'numpy.genfromtxt', 'numpy.memmap', 'pickle.load', 'json.load',
    'tables.open_file', 'h5py.File', 'os.stat', 'os.listdir', 'os.scandir', 'os.path.getsize', 'os.path.getmtime',
    'os.path.exists', 'os.path.isfile', 'os.path.isdir', 'glob.glob', 'glob.iglob', 'time.time', 'time.perf_counter',
    'os.getenv', 'os.getpid', 'scipy.io.mmread', 'scipy.io.loadmat', 'scipy.sparse.load_npz'}
EXTERNAL_STATE_PREFIXES = ('numpy.random.', 'random.', 'mdtraj.load', 'mdtraj.formats.')


def _external_reads(res, mod, fn):
    """[(call node, full dotted name)]: calls in fn (nested defs included) that read state outside the arguments."""
    out = []
    for c in ast.walk(fn):
        if not isinstance(c, ast.Call):
            continue
        nm = call_name(c)
        if not nm:
            continue
        t = res.resolve_dotted(mod.rel, nm)
        full = t.ext if t is not None and t.kind == 'ext' else (nm if t is None else None)
        if full is None:
            continue
        full = re.sub(r'^np\.', 'numpy.', re.sub(r'^md\.', 'mdtraj.', full))
        if full in EXTERNAL_STATE_READERS or full.startswith(EXTERNAL_STATE_PREFIXES):
            out.append((c, full))
    return out


def d6_memoised_functions(ck, mods):
    from ..resolve import enclosing_class
    rule = 'C19.D6.memoised-function'
    res, _ = shared(ck.repo)
    mods = [m for m in mods if m.kind == 'py']
    memo = []
    for mod in mods:
        for q, fn in mod.functions.items():
            decs = [d for d in _decorators(fn) if d in MEMO_DECORATORS and 'property' not in d]
            if decs:
                memo.append((mod, q, fn, decs))
    if not memo:
        for mod in mods:
            ck.ok(rule, mod, None, 'functions of %s' % mod.rel, 'no function is wrapped in lru_cache / cache')
        return len(mods)
    for mod, q, fn, decs in memo:
        ck.analysed(mod, fn)
        fi = finfo(mod, fn)
        pnames = set(params(fn))
        ext = _external_reads(res, mod, fn)
        if ext:
            c, full = ext[0]
            ck.bad(rule, mod, c, q, 'memoised %s reads state outside its arguments through %s' % (q, full),
                   '%s is wrapped in @%s, i.e. its first answer per argument tuple is kept for the life of the process, but '
                   '`%s` reads %s: the answer is a function of that outside state at the time of the FIRST call - a later '
                   'call with the same arguments returns it even when the file / directory / clock / stream has moved on, '
                   'so the result depends on the call history, not on the arguments and the current state alone'
                   % (q, decs[0], u(c)[:80], 'a process-wide random stream' if 'random' in full else
                      'the file system / environment'))
            continue
        rets = [r for r in walk_local(fn) if isinstance(r, ast.Return) and r.value is not None]
        vals = []
        for r in rets:
            try:
                vals.append(fi.expand(r.value))
            except Exception:
                vals.append(r.value)
        if rets and all(_immutable_value(v, pnames) for v in vals):
            ck.ok(rule, mod, fn, '@%s %s' % (decs[0], q), 'every returned value is immutable: sharing it between callers is invisible')
            continue
        uses = []
        ncalls = 0
        for m2 in mods:
            for q2, g in m2.functions.items():
                cls = enclosing_class(m2, g)
                for c in walk_local(g):
                    if not isinstance(c, ast.Call):
                        continue
                    t = res.resolve_call(m2, c, cls)
                    if t is None or t.kind != 'func' or (t.rel, t.qual) != (mod.rel, q):
                        continue
                    ncalls += 1
                    uses += [(v, m2, q2, node, text) for v, node, text in _shared_result_uses(m2, g, c)]
        stores = [x for x in uses if x[0] == 'store']
        escapes = [x for x in uses if x[0] == 'escape']
        for v, m2, q2, node, text in stores:
            ck.bad(rule, m2, node, q2, 'in-place update of the object the memoised %s returned' % q,
                   '%s is wrapped in @%s: the cache keeps the object of the first call per key and hands that very object '
                   'to every later caller; `%s` in %s updates it in place, so the next call with the same arguments '
                   'returns the UPDATED object - its result depends on what earlier callers did, not on its '
                   'arguments alone.  Return a copy (or do not memoise a mutable result)' % (q, decs[0], text[:100], q2))
        if stores:
            continue
        if escapes:
            v, m2, q2, node, text = escapes[0]
            ck.missing(rule, '%s %s::%s: the mutable result of the memoised %s is shared by all callers and leaves %s '
                       'through `%s`; whether somebody updates it in place is not decided' % (
                           m2.loc(node), m2.rel, q2, q, q2, text[:80]))
        elif not ncalls:
            ck.missing(rule, '%s %s::%s is wrapped in @%s and returns a mutable object that every caller shares; no call '
                       'site in the package to decide whether it is updated in place' % (mod.loc(fn), mod.rel, q, decs[0]))
        else:
            ck.ok(rule, mod, fn, '@%s %s' % (decs[0], q), 'the shared result is only read at its %d call sites' % ncalls)
    return len(mods)


# ---------------------------------------------------------------------------
# D5 worker-split: the result must not depend on the number of worker processes
#
# Role: `<pool>.map(F, [B[lo:hi] for ... in LIMS])` - every worker receives a SLICE of the same sequence B and the
# partial results are joined.  Whatever the number of workers, the slices must cover B: the first start is 0, each
# stop is the next start, the last stop reaches len(B) (slices clip, so `>= len(B)` in the accepted closed forms).
# The limits are read symbolically (ranges, zip of ranges, `list(range) + [tail]`, pair comprehensions over range(n),
# the shifted pairing zip(L[:-1], L[1:]), np.array_split); integer arithmetic with // and % is compared in sympy
# (a % b spelled a - b*floor(a/b)).  Nothing is evaluated on sample values.

_MAP_ATTRS = {'map', 'imap', 'map_async', 'starmap'}


class _SplitFar(Exception):
    pass


class _IntLift:
    """ast integer expression -> sympy; what is not +,-,*,//,%,min,max,int() of names/constants becomes a symbol
    named by its canonical text (`opaque`), so that equal texts compare equal."""

    def __init__(self, n_texts):
        from ..symx import sympy
        self.sp = sympy()
        self.N = self.sp.Symbol('N__', integer=True, nonnegative=True)
        self.n_texts = set(n_texts)
        self.opaque = set()
        self.minmax = False

    def sym(self, text, opaque=False):
        s = self.sp.Symbol(text.replace(' ', ''), integer=True, positive=True)     # sizes, counts, steps
        if opaque:
            self.opaque.add(s)
        return s

    def __call__(self, e, env=None):
        sp = self.sp
        env = env or {}

        def go(n):
            if n is None:
                raise _SplitFar('open bound')
            if u(n) in self.n_texts:
                return self.N
            if isinstance(n, ast.Constant) and isinstance(n.value, int) and not isinstance(n.value, bool):
                return sp.Integer(n.value)
            if isinstance(n, ast.Name):
                return env[n.id] if n.id in env else self.sym(n.id)
            if isinstance(n, ast.UnaryOp) and isinstance(n.op, (ast.USub, ast.UAdd)):
                v = go(n.operand)
                return -v if isinstance(n.op, ast.USub) else v
            if isinstance(n, ast.BinOp):
                if isinstance(n.op, (ast.Add, ast.Sub, ast.Mult, ast.FloorDiv, ast.Mod)):
                    a, b = go(n.left), go(n.right)
                    if isinstance(n.op, ast.Add):
                        return a + b
                    if isinstance(n.op, ast.Sub):
                        return a - b
                    if isinstance(n.op, ast.Mult):
                        return a * b
                    if isinstance(n.op, ast.FloorDiv):
                        return sp.floor(a / b)
                    return a - b * sp.floor(a / b)
            if isinstance(n, ast.Call) and isinstance(n.func, ast.Name) and not n.keywords:
                if n.func.id in ('min', 'max') and len(n.args) >= 2 and not any(isinstance(a, ast.Starred) for a in n.args):
                    self.minmax = True
                    return (sp.Min if n.func.id == 'min' else sp.Max)(*[go(a) for a in n.args])
                if n.func.id == 'int' and len(n.args) == 1 and isinstance(n.args[0], (ast.BinOp, ast.Name, ast.Constant)) \
                        and not (isinstance(n.args[0], ast.BinOp) and isinstance(n.args[0].op, ast.Div)):
                    return go(n.args[0])
            if any(isinstance(x, ast.Name) and x.id in env for x in ast.walk(n)):
                raise _SplitFar('the loop variable occurs inside `%s`' % u(n)[:60])
            return self.sym(u(n), opaque=True)
        return go(e)

    def zero(self, d):
        sp = self.sp
        try:
            return sp.simplify(sp.expand(d)) == 0
        except Exception:
            return False

    def at_most_n(self, e):
        """`e <= N` is shown: every floor(q) that occurs with a positive coefficient is replaced by q (floor(q) <= q)
        and the result minus N is zero or negative.  Only then does `e != N` mean that cells are left over: a last
        stop beyond the length is harmless because slices clip."""
        sp = self.sp
        try:
            e = sp.expand(e)
            for _round in range(3):
                fl = sorted(e.atoms(sp.floor), key=str)
                if not fl:
                    break
                outer = [f for f in fl if not any(g is not f and g.has(f) for g in fl)]
                dm = {f: sp.Dummy('f', positive=True) for f in outer}
                for t in sp.Add.make_args(sp.expand(e.xreplace(dm))):
                    if t.free_symbols & set(dm.values()) and not t.is_nonnegative:
                        return False
                e = sp.expand(e.xreplace({f: f.args[0] for f in outer}))
            if e.atoms(sp.floor):
                return False
            d = sp.simplify(sp.expand(e - self.N))
            return d == 0 or bool(d.is_nonpositive)
        except Exception:
            return False

    def plain(self, d):
        """The difference is a floor-polynomial of plain names and N only: sympy's zero test is trusted for those."""
        return not self.minmax and not (set(d.free_symbols) & self.opaque) and not d.has(self.sp.Min, self.sp.Max)


def _range_parts(e):
    """range(...) / np.arange(...) with 1-3 positional integer arguments -> (first, end, step) as ast (None = default)."""
    if isinstance(e, ast.Call) and (call_name(e) or '') in ('range', 'np.arange', 'numpy.arange') and 1 <= len(e.args) <= 3 \
            and not any(isinstance(a, ast.Starred) for a in e.args) \
            and all(k.arg == 'dtype' for k in e.keywords):
        a = e.args
        if len(a) == 1:
            return (None, a[0], None)
        return (a[0], a[1], a[2] if len(a) == 3 else None)
    return None


def _seq_model(e):
    """A limit sequence: ('range', first, end, step, tail) where tail is the single appended last element or None."""
    if isinstance(e, ast.Call) and (call_name(e) or '') in ('list', 'tuple', 'np.array', 'np.asarray') and len(e.args) == 1 \
            and not [k for k in e.keywords if k.arg != 'dtype']:
        return _seq_model(e.args[0])
    r = _range_parts(e)
    if r is not None:
        return ('range',) + r + (None,)
    if isinstance(e, ast.BinOp) and isinstance(e.op, ast.Add) and isinstance(e.right, (ast.List, ast.Tuple)) \
            and len(e.right.elts) == 1 and not isinstance(e.right.elts[0], ast.Starred):
        m = _seq_model(e.left)
        if m is not None and m[4] is None and isinstance(e.left, ast.Call) and (call_name(e.left) or '') in ('list', 'tuple'):
            return m[:4] + (e.right.elts[0],)
    if isinstance(e, ast.List) and len(e.elts) == 2 and isinstance(e.elts[0], ast.Starred) \
            and not isinstance(e.elts[1], ast.Starred):
        m = _seq_model(e.elts[0].value)
        if m is not None and m[4] is None:
            return m[:4] + (e.elts[1],)
    return None


def _split_verdict(base, lo, hi, target, it):
    """(verdict, detail) for `[base[lo:hi] for target in it]` (all expanded): 'match' / 'near' / 'far'."""
    bt = u(base)
    n_texts = {'len(%s)' % bt, '%s.shape[0]' % bt}
    if isinstance(base, ast.Call) and (call_name(base) or '') in ('np.arange', 'numpy.arange', 'range') and len(base.args) == 1:
        n_texts.add(u(base.args[0]))
    L = _IntLift(n_texts)
    sp, N = L.sp, L.N
    one, zero_ = sp.Integer(1), sp.Integer(0)

    def differs(d, what, upto=None):
        # recognised role, content is another function of the same operands -> near; else cannot tell -> far.
        # `upto`: the bound that must reach N; it is a violation only when it is shown to stay <= N (and is not N)
        if L.plain(d) and (upto is None or L.at_most_n(upto)):
            return ('near', what)
        if L.plain(d) and upto is not None:
            return ('far', what + ' (not decided: the bound is not shown to stay below the length; a bound beyond it is harmless)')
        return ('far', what + ' (not decided: the expression involves min/max or values this rule does not model)')

    def first_is_zero(a, what):
        if a is None or L.zero(a):
            return None
        if a.is_number:
            return ('near', '%s is %s, not 0: the cells before it are given to no worker' % (what, a))
        return ('far', '%s is `%s`: not shown to be 0' % (what, a))

    def closed_pairs(var, n_ast, f, g):
        """starts f(i), stops g(i) for i in range(n)."""
        i = sp.Symbol('i__', integer=True)
        n = L(n_ast)
        fe, ge = L(f, {var: i}), L(g, {var: i})
        bad = first_is_zero(sp.expand(fe.subs(i, 0)), 'the first start `%s` at %s = 0' % (u(f)[:40], var))
        if bad:
            return bad
        d = sp.expand(ge - fe.subs(i, i + 1))
        if not L.zero(d):
            return differs(d, 'the stop `%s` of one chunk is not the start `%s` of the next' % (u(g)[:50], u(f)[:50]))
        last = sp.expand(ge.subs(i, n - 1))
        d = sp.simplify(sp.expand(last - N))
        if L.zero(d):
            return ('match', 'first start 0, stop(i) = start(i+1), last stop = len(%s)' % bt[:40])
        return differs(d, 'the last stop is %s, which is not the length N__ = len(%s) of the sequence that is split: the cells '
                          'from the last stop on are given to no worker whenever the two differ, so the joined result depends on '
                          'the number of workers' % (str(last).replace('N__', 'len(%s)' % bt[:30]), bt[:40]), upto=last)

    def zipped(s_ast, t_ast):
        S, T = _seq_model(s_ast), _seq_model(t_ast)
        if S is None or T is None:
            # zip(L[:-1], L[1:])
            if isinstance(s_ast, ast.Subscript) and isinstance(t_ast, ast.Subscript) and u(s_ast.value) == u(t_ast.value) \
                    and isinstance(s_ast.slice, ast.Slice) and isinstance(t_ast.slice, ast.Slice) \
                    and s_ast.slice.lower is None and s_ast.slice.step is None and u(s_ast.slice.upper or ast.Constant(0)) == '-1' \
                    and t_ast.slice.upper is None and t_ast.slice.step is None and u(t_ast.slice.lower or ast.Constant(0)) == '1':
                M = _seq_model(s_ast.value)
                if M is None:
                    return ('far', 'limit sequence `%s` not recognised' % u(s_ast.value)[:80])
                _k, a, E, st, tail = M
                a = L(a) if a is not None else zero_
                st = L(st) if st is not None else one
                bad = first_is_zero(a, 'the first limit')
                if bad:
                    return bad
                if tail is not None:
                    d = sp.expand(L(tail) - N)
                    return ('match', 'consecutive limits from 0 to len(%s)' % bt[:40]) if L.zero(d) else \
                        differs(d, 'the last limit `%s` is not the length of `%s`' % (u(tail)[:40], bt[:40]), upto=L(tail))
                d = sp.expand(L(E) - N)
                if L.zero(sp.expand(d - st)):
                    return ('match', 'consecutive limits 0, s, 2s, ... up to the first one >= len(%s)' % bt[:40])
                if L.zero(d):
                    return ('near', 'the limits `%s` stop below len(%s): the cells after the last limit are given to no worker'
                            % (u(s_ast.value)[:60], bt[:40]))
                return ('far', 'the last limit of `%s` is not related to len(%s)' % (u(s_ast.value)[:60], bt[:40]))
            return ('far', 'limit sequences `%s` / `%s` not recognised' % (u(s_ast)[:60], u(t_ast)[:60]))
        _k, a, E, st, tail = S
        _k, a2, E2, st2, tail2 = T
        if tail is not None:
            return ('far', 'the starts carry an appended element')
        a = L(a) if a is not None else zero_
        a2 = L(a2) if a2 is not None else zero_
        st = L(st) if st is not None else one
        st2 = L(st2) if st2 is not None else one
        E, E2 = L(E), L(E2)
        bad = first_is_zero(a, 'the first start')
        if bad:
            return bad
        if not L.zero(st - st2):
            return differs(sp.expand(st - st2), 'starts and stops advance by different steps')
        if not L.zero(sp.expand(a2 - a - st)):
            return differs(sp.expand(a2 - a - st), 'the first stop is not the second start')
        if tail2 is not None:
            # starts a, a+s, ... < E ; stops a+s, ... < E, then the tail: equally many, consecutive
            if not L.zero(sp.expand(E - E2)):
                return ('far', 'the two ranges end at different bounds: whether zip() pairs every start with a stop is not decided')
            d = sp.expand(L(tail2) - N)
            if L.zero(d):
                return ('match', 'starts 0, s, ...; stops s, 2s, ... and finally len(%s)' % bt[:40])
            return differs(d, 'the last stop `%s` is not the length of `%s`: the remaining cells are given to no worker'
                           % (u(tail2)[:40], bt[:40]), upto=L(tail2))
        # both plain ranges
        if L.zero(sp.expand(E2 - E - st)) and L.zero(sp.expand(E - N)):
            return ('match', 'starts 0, s, ... < N; stops s, 2s, ... < N + s (the last one >= N)')
        if L.zero(sp.expand(E2 - N)) and (L.zero(sp.expand(E - N)) or L.zero(sp.expand(E - E2))):
            return ('near', 'every stop of `%s` is below len(%s): the cells after the last stop are given to no worker'
                    % (u(t_ast)[:60], bt[:40]))
        return ('far', 'plain ranges `%s` / `%s`: last stop not related to len(%s)' % (u(s_ast)[:50], u(t_ast)[:50], bt[:30]))

    try:
        if lo is None or hi is None:
            return ('far', 'open slice bound')
        # (1) the bounds are the two targets of the generator: the limits are pairs
        if isinstance(target, ast.Tuple) and len(target.elts) == 2 and all(isinstance(t, ast.Name) for t in target.elts) \
                and isinstance(lo, ast.Name) and isinstance(hi, ast.Name):
            ta, tb = target.elts[0].id, target.elts[1].id
            if (lo.id, hi.id) == (tb, ta):
                return ('far', 'the slice runs from the second to the first element of the limit pair')
            if (lo.id, hi.id) != (ta, tb):
                return ('far', 'slice bounds are not the targets of the generator')
            if isinstance(it, ast.Call) and (call_name(it) or '') == 'list' and len(it.args) == 1:
                it = it.args[0]
            if isinstance(it, ast.Call) and (call_name(it) or '') == 'zip' and len(it.args) == 2 and not it.keywords:
                return zipped(it.args[0], it.args[1])
            if isinstance(it, (ast.ListComp, ast.GeneratorExp)) and len(it.generators) == 1 and not it.generators[0].ifs \
                    and isinstance(it.elt, ast.Tuple) and len(it.elt.elts) == 2 and isinstance(it.generators[0].target, ast.Name):
                r = _range_parts(it.generators[0].iter)
                if r is not None and (r[0] is None or u(r[0]) == '0') and r[2] is None:
                    return closed_pairs(it.generators[0].target.id, r[1], it.elt.elts[0], it.elt.elts[1])
            return ('far', 'limit pairs `%s` not recognised' % u(it)[:100])
        # (2) the bounds are expressions of one counter over range(n)
        if isinstance(target, ast.Name):
            r = _range_parts(it)
            if r is not None and (r[0] is None or u(r[0]) == '0') and r[2] is None:
                return closed_pairs(target.id, r[1], lo, hi)
            if r is not None and r[2] is not None and (isinstance(hi, ast.BinOp) and isinstance(lo, ast.Name) and lo.id == target.id):
                # [B[i:i + s] for i in range(0, N, s)]
                a = L(r[0]) if r[0] is not None else zero_
                bad = first_is_zero(a, 'the first start')
                if bad:
                    return bad
                i = sp.Symbol('i__', integer=True)
                st = L(r[2])
                d = sp.expand(L(hi, {target.id: i}) - i - st)
                if not L.zero(d):
                    return differs(d, 'the chunk length `%s` - %s is not the step `%s` of the starts' % (u(hi)[:40], target.id, u(r[2])[:30]))
                d = sp.expand(L(r[1]) - N)
                if L.zero(d):
                    return ('match', 'starts 0, s, ... < len(%s), each chunk s long' % bt[:40])
                return differs(d, 'the starts run up to `%s`, not up to len(%s)' % (u(r[1])[:40], bt[:40]), upto=L(r[1]))
        return ('far', 'generator `for %s in %s` not recognised' % (u(target)[:30], u(it)[:80]))
    except _SplitFar as e:
        return ('far', str(e))
    except AnalysisIncomplete:
        raise
    except Exception as e:      # sympy could not handle the expression
        return ('far', 'symbolic comparison failed: %r' % (e,))


def d5_worker_split(ck, mods):
    rule = 'C19.D5.worker-split'
    n = 0
    for mod in mods:
        for q, fn in mod.functions.items():
            calls = [c for c in walk_local(fn) if isinstance(c, ast.Call) and isinstance(c.func, ast.Attribute)
                     and c.func.attr in _MAP_ATTRS and len(c.args) >= 2 and not isinstance(c.args[1], ast.Starred)]
            if not calls:
                continue
            fi = finfo(mod, fn)
            for c in calls:
                try:
                    it = fi.expand(c.args[1])
                except Exception:
                    continue
                if isinstance(it, ast.Call) and (call_name(it) or '') in ('list', 'tuple', 'iter') and len(it.args) == 1:
                    it = it.args[0]
                what = '%s(..., %s)' % (u(c.func)[:30], u(c.args[1])[:100])
                if isinstance(it, ast.Call) and (call_name(it) or '') in ('np.array_split', 'numpy.array_split') and it.args:
                    n += 1
                    ck.analysed(mod, fn)
                    ck.ok(rule, mod, c, what, 'np.array_split hands out every element of its argument exactly once')
                    continue
                if not (isinstance(it, (ast.ListComp, ast.GeneratorExp)) and len(it.generators) == 1
                        and isinstance(it.elt, ast.Subscript) and isinstance(it.elt.slice, ast.Slice)):
                    continue        # not the role "each worker gets a slice of one sequence"
                g = it.generators[0]
                sl = it.elt.slice
                tn = {x.id for x in ast.walk(g.target) if isinstance(x, ast.Name)}
                if tn & {x.id for x in ast.walk(it.elt.value) if isinstance(x, ast.Name)}:
                    continue        # the sliced object itself varies with the generator: another role
                n += 1
                ck.analysed(mod, fn)
                if g.ifs or sl.step is not None or getattr(g, 'is_async', 0):
                    ck.missing(rule, '%s %s::%s `%s`: filtered / strided work split not modelled' % (mod.loc(c), mod.rel, q, what))
                    continue
                v, detail = _split_verdict(it.elt.value, sl.lower, sl.upper, g.target, g.iter)
                ck.decide(v, rule, mod, c, q, 'work split of `%s` over the workers of `%s`' % (u(it.elt.value)[:60], u(c.func)[:30]),
                          detail_ok=detail, detail_bad=detail)
    return n


def check(ck):
    repo = ck.repo
    for rel in load_refused_pyx(repo):
        ck.assume('%s was refused by the Cython front end only for cdef helper functions / global statements; it is '
                  'analysed through the adapters of this rule file (cdef functions as module functions whose '
                  'parameters and locals are C locals)' % rel)
    repo.all_modules()
    thorough = ck.tier == 'thorough'
    # D1 / D2: whole package in both tiers (cheap)
    n1 = n2 = 0
    for mod in repo.all_modules():
        n1 += check_masked_ufuncs(ck, 'C19.D1.masked-ufunc', mod)
        n2 += check_empty_allocs(ck, 'C19.D2.empty-before-read', mod)
    ck.floor('C19.D1.masked-ufunc', n1, 6, 'masked ufunc calls in the package')
    ck.floor('C19.D2.empty-before-read', n2, 3, 'np.empty allocations in the package')
    nv = d2_uninit_values(ck, repo.all_modules())
    ck.floor('C19.D2.empty-before-read.value', nv, 3, 'uninitialised allocations in the package (any position, any spelling)')
    nb = d2_bcast_root(ck, repo.all_modules())
    ck.floor('C19.D2.empty-before-read.bcast-root', nb, 1, 'uninitialised receive buffers of a broadcast')
    # D3 / D5: kernels
    nz = npr = 0
    for rel in PYX_FILES:
        mod = repo.mod(rel)
        fused = mod.tree.cy_fused
        for q, fn in mod.functions.items():
            if not getattr(fn, 'cy_directives', {}) or fn.cy_directives.get('boundscheck') is not False:
                continue
            nz += d3_zero_first(ck, 'C19.D3.zero-first', mod, fn, fused)
            d35_callees(ck, mod, fn, fused)
            d5_reductions(ck, mod, fn, fused)
            npr += min(check_prange(_PrangeRecheck(ck, mod, fn), 'C19.D5.prange', mod, fn, fused), 1)
    ck.floor('C19.D3.zero-first', nz, 5, 'kernel read-modify-write updates of a buffer cell')
    # counted per kernel: whether a zeroing pass is its own prange loop, a sequential loop or `out[:] = 0`
    # is immaterial to ownership (7 prange loops in 4 kernels on the pinned tree)
    ck.floor('C19.D5.prange', npr, 4, 'kernels with a prange loop')
    nw = d5_worker_split(ck, [m for m in repo.py_modules() if '/apps/' not in m.rel and '/data/' not in m.rel])
    ck.floor('C19.D5.worker-split', nw, 2, 'process-pool maps over slices of one sequence (msm/bace.py)')
    # D4
    rels = ANCHORED + EXTRA_ENTRY_MODULES
    n4 = d4_effects(ck, rels)
    ck.floor('C19.D4.no-arg-mutation', n4, 150, '(function, parameter) pairs')
    nm = d4_inplace_metric(ck)
    ck.floor('C19.D4.no-arg-mutation.inplace-metric', nm, 1, 'returns of the metric factory')
    ncb = d4_callback_state(ck, rels)
    ck.floor('C19.D4.no-arg-mutation.callback-state', ncb, 1,
             'calls of a caller-supplied update function whose result replaces its argument (tpt.paths: remove_path)')
    for (rel, q), why in PRIVATE_INPLACE_HELPERS.items():
        ck.assume('%s::%s writes its parameters by design: %s' % (rel, q, why))
    if thorough:
        d4_effects(ck, OBSERVE_ONLY, observe_only=True)
        other = [m.rel for m in repo.py_modules()
                 if m.rel not in rels and m.rel not in OBSERVE_ONLY
                 and '/apps/' not in m.rel and '/data/' not in m.rel]
        d4_effects(ck, other, observe_only=True)
    # every module of the library that computes something: the citation registry (a set of cite keys that only
    # `enspara.citation` prints) and the command line apps are outside "numerical routine"
    d6_globals(ck, [m.rel for m in repo.all_modules()
                    if '/apps/' not in m.rel and '/data/' not in m.rel and '/citation/' not in m.rel])
    ck.assume('enspara/citation keeps the set of cite keys used so far in a module-level registry by design; it feeds '
              'no numerical result and is outside C19.D6.module-state')
    ns = d6_process_streams(ck, [m for m in repo.py_modules() if '/apps/' not in m.rel and '/data/' not in m.rel])
    ck.floor('C19.D6.process-stream', ns, 8, 'modules scanned for draws from process-lifetime stream objects')
    nc = d6_derived_caches(ck, [m.rel for m in repo.py_modules() if '/apps/' not in m.rel])
    ck.floor('C19.D6.derived-cache', nc, 8, 'classes of the package scanned for memoised derived attributes')
    nf = d6_memoised_functions(ck, [m for m in repo.py_modules() if '/apps/' not in m.rel and '/data/' not in m.rel])
    ck.floor('C19.D6.memoised-function', nf, 8, 'modules scanned for memoised functions with a shared mutable result')
    # added after the bug hunt (DESIGN.md 11.2b): iterative eigensolvers must be started from a fixed vector
    from .msm_common import check_random_start
    n7 = check_random_start(ck, 'C19.D7.solver-start', [m for m in repo.py_modules() if '/apps/' not in m.rel])
    ck.floor('C19.D7.solver-start', n7, 1, 'iterative eigensolver calls in the package')
    ck.assume('numpy/scipy/mdtraj/PyTables honour their documented contracts (no uninitialised '
              'reads, no mutation of inputs beyond what the transfer tables list)')
    ck.assume('routines that are random by contract (synthetic_trajectory, unseeded k-medoids) '
              'are outside "determined by its arguments"')
    return EXPLANATION

"""C19 History independence: initialisation-before-read, no argument mutation,
thread independence of kernels, no hidden module state."""
import ast

from ..core import (AnalysisIncomplete, PYX_FILES, call_name, kwarg, params,
                    target_names, u, walk_local)
from ..cykernel import (check_bounds, check_prange,
                        check_zero_before_accumulate)
from ..patterns import (DOCUMENTED_INPLACE, calls_in, check_empty_allocs,
                        check_masked_ufuncs, check_no_arg_mutation, finfo,
                        shared)

ANCHORED = [
    'enspara/info_theory/entropy.py', 'enspara/info_theory/mutual_info.py',
    'enspara/msm/builders.py', 'enspara/msm/transition_matrices.py',
    'enspara/tpt/core.py', 'enspara/tpt/tpt.py', 'enspara/tpt/path.py',
    'enspara/cluster/util.py', 'enspara/geometry/libdist.pyx',
    'enspara/info_theory/libinfo.pyx', 'enspara/ra/ra.py',
]
EXTRA_ENTRY_MODULES = ['enspara/cluster/kcenters.py', 'enspara/cluster/kmedoids.py',
                       'enspara/cluster/hybrid.py', 'enspara/msm/libmsm.pyx',
                       'enspara/msm/msm.py', 'enspara/msm/timescales.py',
                       'enspara/msm/synthetic_data.py', 'enspara/cards/disorder.py',
                       'enspara/geometry/rotamer.py', 'enspara/mpi/ops.py']

# modules outside the property's anchors whose helpers store into their
# arguments by design (not triaged against a documented contract): swept in
# the thorough tier as OBSERVATIONs only
OBSERVE_ONLY = ['enspara/msm/bace.py', 'enspara/geometry/explicit_r0_calc.py']

# documented / intended in-place behaviour of functions in the scanned modules
EXTRA_EXEMPT = {
    ('enspara/mpi/io.py', 'load_trajectory_as_striped'): {},
    ('enspara/cluster/util.py', 'reassign'): {},
}

# private helpers that normalise index arrays their (private) callers have
# already copied; the public callers are checked instead
PRIVATE_INPLACE_HELPERS = {
    ('enspara/ra/ra.py', '_handle_negative_indices'):
        'private helper of _convert_from_2d, which passes freshly built np.array copies '
        '(checked: _convert_from_2d itself mutates no parameter)',
    ('enspara/cluster/kcenters.py', '_kcenters_iteration'):
        'private step function: kcenters() owns distances/assignments/centre list it passes '
        '(fresh np.full / assign_to_nearest_center results; checked: kcenters mutates no parameter)',
    ('enspara/cluster/kcenters.py', '_kcenters_iteration_mpi'):
        'private step function, as _kcenters_iteration',
}

EXPLANATION = (
    'Package-wide static decision of the structural necessary conditions of '
    'history independence: (D1) every numpy ufunc call with where= supplies an '
    'out= buffer whose reaching definitions are all initialised allocations; '
    '(D2) every np.empty/empty_like buffer is fully written (fill, x[:] =, '
    'unmasked out=, Bcast receive, or the asserted running-offset fill idiom) '
    'on every path before any read; (D3) the Cython kernels store to each '
    'accumulator cell before accumulating (or allocate it with np.zeros); (D4) '
    'no public routine of the anchored modules (plus the clustering and MSM '
    'entry points) can store into storage reachable from one of its arguments '
    '(interprocedural may-alias/effects fixed point over the call graph) '
    'unless documented in place; (D5) prange iterations own disjoint output '
    'cells; (D6) no function of the anchored modules writes module-level '
    'state (global statements / module containers). Uninitialised reads or '
    'mutation inside third-party calls are trusted to their documented '
    'contracts (that is what the transfer tables encode).')


def public_functions(mod):
    out = []
    for q, fn in mod.functions.items():
        if '<locals>' in q:
            continue
        leaf = q.split('.')[-1]
        if leaf.startswith('_') and not (leaf.startswith('__') and leaf.endswith('__')):
            continue
        out.append((q, fn))
    return out


def d4_effects(ck, rels, observe_only=False):
    res, ea = shared(ck.repo)
    rule = 'C19.D4.no-arg-mutation'
    entries = []
    for rel in rels:
        mod = ck.repo.mod(rel)
        for q, fn in public_functions(mod):
            entries.append((rel, q))
    if not observe_only:
        n = check_no_arg_mutation(ck, rule, entries, extra_exempt=EXTRA_EXEMPT)
        return n
    for rel, q in entries:
        muts = ea.mutated_params(rel, q)
        mod = ck.repo.mod(rel)
        for p, why in muts.items():
            if p in ('self', 'cls'):
                continue
            ck.observe(rule, mod, why['node'], '%s(%s) <- %s [outside the anchored modules, not verdict-bearing]' % (
                q, p, why['construct'][:80]))
    return 0


def d6_globals(ck, rels):
    rule = 'C19.D6.module-state'
    allowed = {('enspara/util/load.py', '_init'): 'worker-side shared-array hand-over',
               ('enspara/util/parallel.py', 'pool_dense2d.<locals>.init'): 'worker-side shared-array hand-over',
               ('enspara/util/parallel.py', 'pool_sparse2d.<locals>.init'): 'worker-side shared-array hand-over'}
    n = 0
    for rel in rels:
        mod = ck.repo.mod(rel)
        # module-level mutable containers
        containers = set()
        for s in mod.tree.body:
            if isinstance(s, ast.Assign) and isinstance(s.value, (ast.List, ast.Dict, ast.Set)):
                containers.update(target_names(s.targets[0]))
        for q, fn in mod.functions.items():
            for g in walk_local(fn):
                if isinstance(g, ast.Global):
                    n += 1
                    ok = (rel, q) in allowed
                    ck.check(ok, rule, mod, g, q, u(g),
                             allowed.get((rel, q), ''),
                             'a routine of an anchored numerical module writes module-level state: '
                             'its result can depend on previous calls')
            # stores into module-level containers
            locs = set(params(fn))
            for s in walk_local(fn):
                if isinstance(s, (ast.Assign, ast.AugAssign)):
                    tg = s.targets[0] if isinstance(s, ast.Assign) else s.target
                    locs.update(target_names(tg))
            for s in walk_local(fn):
                if isinstance(s, (ast.Assign, ast.AugAssign)):
                    tg = s.targets[0] if isinstance(s, ast.Assign) else s.target
                    if isinstance(tg, ast.Subscript) and isinstance(tg.value, ast.Name) and \
                            tg.value.id in containers and tg.value.id not in locs:
                        n += 1
                        ck.bad(rule, mod, s, q, u(s), 'store into module-level container `%s`' % tg.value.id)
                if isinstance(s, ast.Call) and isinstance(s.func, ast.Attribute) and \
                        isinstance(s.func.value, ast.Name) and s.func.value.id in containers and \
                        s.func.value.id not in locs and s.func.attr in ('append', 'extend', 'update', 'add', 'pop', 'clear'):
                    n += 1
                    ck.bad(rule, mod, s, q, u(s), 'mutation of module-level container `%s`' % s.func.value.id)
        ck.ok(rule, mod, None, '%s: module containers %s' % (rel, sorted(containers)), 'no function writes them')
    return n


def check(ck):
    repo = ck.repo
    repo.all_modules()
    thorough = ck.tier == 'thorough'
    # D1 / D2: whole package in both tiers (cheap)
    n1 = n2 = 0
    for mod in repo.all_modules():
        n1 += check_masked_ufuncs(ck, 'C19.D1.masked-ufunc', mod)
        n2 += check_empty_allocs(ck, 'C19.D2.empty-before-read', mod)
    ck.floor('C19.D1.masked-ufunc', n1, 6, 'masked ufunc calls in the package')
    ck.floor('C19.D2.empty-before-read', n2, 3, 'np.empty allocations in the package')
    # D3 / D5: kernels
    nz = npr = 0
    for rel in PYX_FILES:
        mod = repo.mod(rel)
        fused = mod.tree.cy_fused
        for q, fn in mod.functions.items():
            if not getattr(fn, 'cy_directives', {}) or fn.cy_directives.get('boundscheck') is not False:
                continue
            nz += check_zero_before_accumulate(ck, 'C19.D3.zero-first', mod, fn, fused)
            npr += check_prange(ck, 'C19.D5.prange', mod, fn, fused)
    ck.floor('C19.D3.zero-first', nz, 5, 'kernel accumulations')
    ck.floor('C19.D5.prange', npr, 7, 'prange loops')
    # D4
    rels = ANCHORED + EXTRA_ENTRY_MODULES
    n4 = d4_effects(ck, rels)
    ck.floor('C19.D4.no-arg-mutation', n4, 150, '(function, parameter) pairs')
    for (rel, q), why in PRIVATE_INPLACE_HELPERS.items():
        ck.assume('%s::%s writes its parameters by design: %s' % (rel, q, why))
    if thorough:
        d4_effects(ck, OBSERVE_ONLY, observe_only=True)
        other = [m.rel for m in repo.py_modules()
                 if m.rel not in rels and m.rel not in OBSERVE_ONLY
                 and '/apps/' not in m.rel and '/data/' not in m.rel]
        d4_effects(ck, other, observe_only=True)
    d6_globals(ck, [r for r in ANCHORED if r.endswith('.py')] + ['enspara/util/load.py', 'enspara/util/parallel.py'])
    ck.assume('numpy/scipy/mdtraj/PyTables honour their documented contracts (no uninitialised '
              'reads, no mutation of inputs beyond what the transfer tables list)')
    ck.assume('routines that are random by contract (synthetic_trajectory, unseeded k-medoids) '
              'are outside "determined by its arguments"')
    return EXPLANATION

"""C16 MSM estimator: constructor parameters, pipeline order, save/load
agreement, spectrum, implied timescales, ensemble propagation."""
import ast

from ..core import (AnalysisIncomplete, call_name, const_value, kwarg,
                    names_loaded, params, target_names, u, walk_expr,
                    walk_local)
from ..patterns import (Cmp, assigns_to, calls_in, check_no_arg_mutation,
                        conjuncts, finfo, returns_of, subscript_stores)
from .msm_common import TM, MS, TS, SD, BU, check_spectrum
from .C11 import mapping_rules

EXPLANATION = (
    'Static decision of the structural necessary conditions of the MSM '
    'estimator contract: (D1) every constructor parameter is stored '
    'unmodified in the attribute of the same name and fit forwards each to '
    'the parameter of the same meaning; (D2) fit runs counts -> optional trim '
    '-> builder in that order on one data flow, identity mapping otherwise; '
    '(D3) save and load agree on keys, writer/reader pairs and orientation, '
    'probabilities are written with >= 17 significant digits, the pickled '
    'config covers every constructor parameter; (D4) the spectrum is sorted by '
    'descending real part with one permutation for values and columns, column '
    '0 sum-normalised, ARPACK asked for which="LR"; (D5) implied timescales '
    'are -lag/log(lambda_k), k>=1, from one extra eigenvalue; the ensemble is '
    'advanced by left multiplication n_steps-1 times from a copy of the '
    'initial populations. Numerical equality of estimator and pipeline is not '
    'decided.')


def d1_constructor(ck, mod):
    rule = 'C16.D1.constructor'
    init = mod.func('MSM.__init__')
    ck.analysed(mod, init)
    ps = [p for p in params(init) if p != 'self']
    stores = {}
    for s in walk_local(init):
        if isinstance(s, ast.Assign) and isinstance(s.targets[0], ast.Attribute) and u(s.targets[0].value) == 'self':
            stores.setdefault(s.targets[0].attr, []).append(s)
    for p in ps:
        ss = stores.get(p, [])
        if not ss:
            ck.bad(rule, mod, init, 'MSM.__init__', 'self.%s' % p,
                   'constructor parameter `%s` is never stored: the argument is silently dropped' % p)
            continue
        for s in ss:
            v = s.value
            ok = u(v) == p or (p == 'method' and u(v) in ('method', 'getattr(builders, method)'))
            ck.check(ok, rule, mod, s, 'MSM.__init__', u(s),
                     'parameter stored unmodified under its own name',
                     'self.%s must be the constructor argument `%s`; found `%s` (the argument is ignored)' % (p, p, u(v)))
    # method resolution branch
    ms = stores.get('method', [])
    ok = len(ms) == 2 and {u(s.value) for s in ms} == {'method', 'getattr(builders, method)'}
    g = mod.parent.get(ms[0]) if ms else None
    ok = ok and isinstance(g, ast.If) and u(g.test) == 'callable(method)'
    ck.check(ok, rule + '.method', mod, ms[0] if ms else init, 'MSM.__init__', '; '.join(u(s) for s in ms),
             'callables kept, names resolved in builders', 'method must be kept if callable, else resolved with getattr(builders, method)')
    # fit forwards every attribute
    fit = mod.func('MSM.fit')
    ck.analysed(mod, fit)
    ac = [c for c in calls_in(fit) if call_name(c) == 'assigns_to_counts']
    if len(ac) != 1:
        ck.missing(rule + '.fit', 'assigns_to_counts call in fit')
        return
    c = ac[0]
    callee = ck.repo.mod(TM).func('assigns_to_counts')
    cps = params(callee)
    bind = {cps[i]: a for i, a in enumerate(c.args)}
    bind.update({k.arg: k.value for k in c.keywords})
    want = {'assigns': params(fit)[1], 'lag_time': 'self.lag_time', 'max_n_states': 'self.max_n_states',
            'sliding_window': 'self.sliding_window'}
    for k, v in want.items():
        got = bind.get(k)
        ck.check(got is not None and u(got) == v, rule + '.fit', mod, c, 'MSM.fit', '%s=%s' % (k, u(got) if got is not None else 'MISSING (callee default)'),
                 'fit forwards %s to assigns_to_counts(%s=)' % (v, k),
                 'fit must call assigns_to_counts with %s=%s; it passes %s, so the configured value is '
                 'not the one used for counting' % (k, v, u(got) if got is not None else 'nothing (callee default)'))


def d2_pipeline(ck, mod):
    rule = 'C16.D2.pipeline'
    fit = mod.func('MSM.fit')
    fi = finfo(mod, fit)
    ac = [s for s in walk_local(fit) if isinstance(s, ast.Assign) and isinstance(s.value, ast.Call)
          and call_name(s.value) == 'assigns_to_counts']
    tr = [s for s in walk_local(fit) if isinstance(s, ast.Assign) and isinstance(s.value, ast.Call)
          and call_name(s.value) == 'trim_disconnected']
    bd = [s for s in walk_local(fit) if isinstance(s, ast.Assign) and isinstance(s.value, ast.Call)
          and u(s.value.func) == 'self.method']
    if not (len(ac) == 1 and len(tr) == 1 and len(bd) == 1):
        ck.missing(rule, 'counts / trim / builder statements in fit')
        return
    cn = u(ac[0].targets[0])
    ok = fi.cfg.dominates(ac[0], tr[0]) and fi.cfg.dominates(ac[0], bd[0]) and fi.cfg.reachable(tr[0], bd[0])
    ck.check(ok, rule + '.order', mod, bd[0], 'MSM.fit', '%s ; %s ; %s' % (u(ac[0])[:40], u(tr[0])[:60], u(bd[0])[:60]),
             'counts -> optional trim -> builder', 'fit must count, then (optionally) trim, then call the builder')
    g = mod.parent.get(tr[0])
    ok = isinstance(g, ast.If) and u(g.test) == 'self.trim' and u(tr[0].value.args[0]) == cn and \
        isinstance(tr[0].targets[0], ast.Tuple) and u(tr[0].targets[0].elts[1]) == cn
    ck.check(ok, rule + '.trim', mod, tr[0], 'MSM.fit', u(tr[0]), 'trimming iff self.trim, and the trimmed counts replace the counts',
             'trim must be conditional on self.trim and rebind the counts that go to the builder')
    # builder receives the (possibly trimmed) counts: defs = {ac, tr}
    arg = bd[0].value.args[0] if bd[0].value.args else None
    ok = isinstance(arg, ast.Name) and arg.id == cn and fi.defs_of_use(arg) == {ac[0], tr[0]} and not bd[0].value.keywords \
        and len(bd[0].value.args) == 1
    ck.check(ok, rule + '.builder', mod, bd[0], 'MSM.fit', u(bd[0]), 'the builder gets exactly the counted (and possibly trimmed) matrix',
             'the builder must be called as self.method(tcounts) on the counts produced above')
    t = bd[0].targets[0]
    ok = isinstance(t, ast.Tuple) and [u(e) for e in t.elts] == ['self.tcounts_', 'self.tprobs_', 'self.eq_probs_']
    ck.check(ok, rule + '.builder', mod, bd[0], 'MSM.fit', u(t), 'builder result (C, T, pi) stored in order',
             'builders return (counts, tprobs, eq_probs): they must be stored as tcounts_, tprobs_, eq_probs_ in that order')


def d3_saveload(ck, mod):
    rule = 'C16.D3.save-load'
    save, load = mod.func('MSM.save'), mod.func('MSM.load')
    ck.analysed(mod, save)
    ck.analysed(mod, load)
    fd = [s for s in assigns_to(save, 'fname_dict') if isinstance(s, ast.Assign) and isinstance(s.value, ast.Dict)]
    if not fd:
        ck.missing(rule, 'fname_dict in save')
        return
    keys = {k.value for k in fd[0].value.keys}
    written = {}
    for w in walk_local(save):
        if isinstance(w, ast.With):
            for item in w.items:
                ce = item.context_expr
                if isinstance(ce, ast.Call) and call_name(ce) == 'open' and isinstance(ce.args[0], ast.Call) \
                        and call_name(ce.args[0]) == 'tmp_fname':
                    key = const_value(ce.args[0].args[0])
                    body = [c for s in w.body for c in ast.walk(s) if isinstance(c, ast.Call)]
                    written[key] = (w, body, const_value(ce.args[1]) if len(ce.args) > 1 else 'r')
    read = {}
    for s in walk_local(load):
        for x in ast.walk(s) if isinstance(s, (ast.Assign, ast.With)) else []:
            if isinstance(x, ast.Subscript) and u(x.value) == 'fname_dict' and isinstance(x.slice, ast.Constant):
                read.setdefault(x.slice.value, s)
    ck.check(set(written) == keys, rule + '.keys', mod, fd[0], 'MSM.save', 'declared %s written %s' % (sorted(keys), sorted(written)),
             'every declared file is written', 'save declares files it does not write (or vice versa): %s' % sorted(keys ^ set(written)))
    ck.check(set(read) == keys, rule + '.keys', mod, load, 'MSM.load', 'read %s' % sorted(read),
             'load reads exactly the files save writes', 'load and save disagree on the file keys: %s' % sorted(keys ^ set(read)))
    pairs = {'tcounts_': ('mmwrite', 'mmread'), 'tprobs_': ('mmwrite', 'mmread'),
             'eq_probs_': ('np.savetxt', 'np.loadtxt'), 'config': ('pickle.dump', 'pickle.load'),
             'mapping_': ('self.mapping_.write', 'TrimMapping.load')}
    for k, (wfn, rfn) in pairs.items():
        w = written.get(k)
        okw = w is not None and any(call_name(c) == wfn for c in w[1])
        attr = 'self.%s' % k if k != 'config' else 'self.config'
        if okw and k != 'mapping_':
            wc = [c for c in w[1] if call_name(c) == wfn][0]
            okw = any(attr in u(a) for a in wc.args)
        rs = read.get(k)
        okr = rs is not None and any(isinstance(c, ast.Call) and call_name(c) == rfn for c in ast.walk(rs))
        if okr and k != 'config':
            okr = isinstance(rs, ast.Assign) and u(rs.targets[0]) == 'msm.%s' % k
        ck.check(okw and okr, rule + '.pairs', mod, w[0] if w else save, 'MSM.save/load', '%s: %s <-> %s' % (k, wfn, rfn),
                 'matching writer/reader for %s, same attribute on both sides' % k,
                 '`%s` must be written with %s(%s) and read back with %s into msm.%s' % (k, wfn, attr, rfn, k))
    # precision
    w = written.get('tprobs_')
    if w:
        wc = [c for c in w[1] if call_name(c) == 'mmwrite']
        pr = const_value(kwarg(wc[0], 'precision')) if wc else None
        ck.check(isinstance(pr, int) and pr >= 17, rule + '.precision', mod, wc[0] if wc else w[0], 'MSM.save', u(wc[0]) if wc else 'mmwrite',
                 'probabilities written with %s significant digits (>= 17 round-trips float64)' % pr,
                 'float64 needs 17 significant digits to round-trip through text; tprobs are written with precision=%s' % pr)
    # config covers __init__ parameters
    cfg = mod.func('MSM.config')
    r = returns_of(cfg)
    init_ps = [p for p in params(mod.func('MSM.__init__')) if p != 'self']
    ok = len(r) == 1 and isinstance(r[0].value, ast.Dict)
    ckeys = {k.value: u(v) for k, v in zip(r[0].value.keys, r[0].value.values)} if ok else {}
    for p in init_ps:
        ck.check(ckeys.get(p) == 'self.%s' % p, rule + '.config', mod, r[0] if r else cfg, 'MSM.config', "'%s': %s" % (p, ckeys.get(p)),
                 'constructor parameter %s is part of the saved configuration' % p,
                 'config lacks constructor parameter `%s` (or maps it to another attribute): MSM(**config) '
                 'after load resets it to its default' % p)
    extra = set(ckeys) - set(init_ps)
    ck.check(not extra, rule + '.config', mod, r[0] if r else cfg, 'MSM.config', 'extra keys %s' % sorted(extra),
             'every config key is a constructor parameter', 'config has keys that __init__ does not accept: MSM(**config) raises TypeError')
    mk = [c for c in calls_in(load) if call_name(c) == 'MSM' and any(k.arg is None for k in c.keywords)]
    ck.check(len(mk) == 1 and u(mk[0]) == 'MSM(**config)', rule + '.config', mod, mk[0] if mk else load, 'MSM.load',
             u(mk[0]) if mk else 'MSM(**config)', 'model rebuilt from the saved configuration', 'load must rebuild the model as MSM(**config)')
    mapping_rules(ck)


def d5_timescales(ck):
    rule = 'C16.D5.timescales'
    mod = ck.repo.mod(TS)
    fn = mod.func('calc_imp_times')
    ck.analysed(mod, fn)
    fi = finfo(mod, fn)
    st = [s for s in assigns_to(fn, 'imp_times') if isinstance(s, ast.Assign)]
    ok = len(st) == 1 and u(st[0].value) in ('-lag_time / np.log(e_vals[1:])',)
    ck.check(ok, rule + '.formula', mod, st[0] if st else fn, 'calc_imp_times', u(st[0]) if st else 'imp_times',
             't_k = -lag / log(lambda_k) for k >= 1 (stationary eigenvalue skipped)',
             'implied timescales must be -lag_time / np.log(e_vals[1:])')
    es = [c for c in calls_in(fn) if call_name(c) == 'eigenspectrum']
    ok = len(es) == 1 and u(es[0].args[0]) == 'T' and u(kwarg(es[0], 'n_eigs')) == 'n_times'
    inc = [s for s in walk_local(fn) if isinstance(s, ast.AugAssign) and u(s.target) == 'n_times' and const_value(s.value) == 1
           and isinstance(s.op, ast.Add)]
    ok = ok and len(inc) == 1 and fi.cfg.dominates(inc[0], fi.stmt(es[0]))
    ck.check(ok, rule + '.count', mod, es[0] if es else fn, 'calc_imp_times', '%s ; %s' % (u(inc[0]) if inc else '?', u(es[0]) if es else '?'),
             'one extra eigenvalue is requested for the stationary mode', 'n_times + 1 eigenvalues of T must be requested')
    ac = [c for c in calls_in(fn) if call_name(c) == 'assigns_to_counts']
    ok = len(ac) == 1 and {k.arg: u(k.value) for k in ac[0].keywords} == {
        'max_n_states': 'n_states', 'lag_time': 'lag_time', 'sliding_window': 'sliding_window'} and u(ac[0].args[0]) == 'assigns'
    ck.check(ok, rule + '.pipeline', mod, ac[0] if ac else fn, 'calc_imp_times', u(ac[0]) if ac else '?',
             'counts use the same lag, window and state count', 'assigns_to_counts must receive lag_time, sliding_window and n_states')
    bt = [s for s in walk_local(fn) if isinstance(s, ast.Assign) and isinstance(s.value, ast.Call) and u(s.value.func) == 'method']
    ok = len(bt) == 1 and isinstance(bt[0].targets[0], ast.Tuple) and u(bt[0].targets[0].elts[1]) == 'T' and u(bt[0].value.args[0]) == 'C'
    ck.check(ok, rule + '.pipeline', mod, bt[0] if bt else fn, 'calc_imp_times', u(bt[0]) if bt else '?',
             'T is the second element of the builder result', 'builders return (C, T, pi): T must be taken from position 1')
    fn2 = mod.func('implied_timescales')
    cs = [c for c in calls_in(fn2) if call_name(c) == 'calc_imp_times']
    ok = len(cs) == 1 and [u(a) for a in cs[0].args] == ['assigns', 't', 'n_states', 'n_times', 'method', 'sliding_window', 'trim']
    ck.check(ok, rule + '.pipeline', mod, cs[0] if cs else fn2, 'implied_timescales', u(cs[0]) if cs else '?',
             'arguments forwarded positionally in the callee\'s order',
             'calc_imp_times(assigns, lag_time, n_states, n_times, method, sliding_window, trim) must receive its arguments in that order')


def d5_ensemble(ck):
    rule = 'C16.D5.ensemble'
    mod = ck.repo.mod(SD)
    fn = mod.func('synthetic_ensemble')
    ck.analysed(mod, fn)
    steps = [s for s in walk_local(fn) if isinstance(s, ast.Assign) and u(s.targets[0]) == 'p'
             and isinstance(s.value, ast.Call) and isinstance(s.value.func, ast.Attribute)]
    adv = [s for s in steps if s.value.func.attr in ('rmatvec', 'matvec', 'dot')]
    ok = len(adv) >= 1 and all(s.value.func.attr == 'rmatvec' and u(s.value.args[0]) == 'p' and
                               u(s.value.func.value) == 'T_op' for s in adv)
    ck.check(ok, rule + '.left', mod, adv[0] if adv else fn, 'synthetic_ensemble', '; '.join(u(s) for s in adv),
             'populations advance by LEFT multiplication p <- p T (rmatvec)',
             'a population (row) vector is propagated as p T: T_op.rmatvec(p); matvec computes T p, which '
             'propagates observables, not populations')
    for s in adv:
        loop = mod.parent.get(s)
        ok = isinstance(loop, ast.For) and u(loop.iter) == 'range(n_steps - 1)'
        ck.check(ok, rule + '.steps', mod, loop if isinstance(loop, ast.For) else s, 'synthetic_ensemble',
                 u(loop.iter) if isinstance(loop, ast.For) else u(s), 'n_steps - 1 multiplications (the start counts as step one)',
                 'the ensemble must be advanced exactly n_steps - 1 times')
    init = [s for s in assigns_to(fn, 'p') if isinstance(s, ast.Assign) and s not in adv]
    ok = len(init) == 1 and u(init[0].value) in ('init_pops.copy()', 'np.array(init_pops)', 'np.copy(init_pops)')
    ck.check(ok, rule + '.copy', mod, init[0] if init else fn, 'synthetic_ensemble', u(init[0]) if init else 'p',
             'starts from a copy of the initial populations', 'the propagation must start from a copy of init_pops')
    # the collected trajectory must not be forced into the dtype of the
    # (possibly integer / float32) initial populations
    for s in walk_local(fn):
        if isinstance(s, ast.Assign) and u(s.targets[0]) == 'observations' and isinstance(s.value, ast.Call) and \
                call_name(s.value) in ('np.empty', 'np.zeros', 'np.ones', 'np.full', 'np.empty_like', 'np.zeros_like'):
            dt = kwarg(s.value, 'dtype')
            bad = (dt is not None and '.dtype' in u(dt)) or call_name(s.value) in ('np.empty_like', 'np.zeros_like')
            ck.check(not bad, rule + '.collect', mod, s, 'synthetic_ensemble', u(s),
                     'trajectory buffer is floating point regardless of the dtype of init_pops',
                     'the buffer that collects the propagated populations takes its dtype from the initial populations: '
                     'rmatvec returns float64, so for integer (one-hot) or float32 start vectors every propagated row is '
                     'silently cast (truncated to zeros / rounded)')
    fin = [s for s in walk_local(fn) if isinstance(s, ast.Assign) and u(s.targets[0]) == 'observations' and u(s.value) == 'np.array(observations)']
    lists = [s for s in walk_local(fn) if isinstance(s, ast.Assign) and u(s.targets[0]) == 'observations' and isinstance(s.value, ast.List)]
    allocs = [s for s in walk_local(fn) if isinstance(s, ast.Assign) and u(s.targets[0]) == 'observations' and isinstance(s.value, ast.Call) and call_name(s.value) != 'np.array']
    ck.check((len(fin) == 1 and len(lists) == 2) or bool(allocs), rule + '.collect', mod, fin[0] if fin else fn, 'synthetic_ensemble',
             '%d list starts, %d final conversions, %d preallocations' % (len(lists), len(fin), len(allocs)),
             'every step is collected (list + final np.array, or a preallocated buffer)', 'the trajectory of populations/observables is not collected per step')
    ops = [s for s in assigns_to(fn, 'T_op') if isinstance(s, ast.Assign)]
    ok = bool(ops) and all('aslinearoperator(T' in u(s.value) for s in ops)
    ck.check(ok, rule + '.operator', mod, ops[0] if ops else fn, 'synthetic_ensemble', '; '.join(u(s) for s in ops),
             'the operator is T itself (not its transpose)', 'T_op must wrap T')


def check(ck):
    mod = ck.repo.mod(MS)
    d1_constructor(ck, mod)
    d2_pipeline(ck, mod)
    d3_saveload(ck, mod)
    check_spectrum(ck, 'C16.D4')
    d5_timescales(ck)
    d5_ensemble(ck)
    check_no_arg_mutation(ck, 'C16.D6.inputs-unmodified', [
        (MS, 'MSM.fit'), (TS, 'implied_timescales'), (TS, 'calc_imp_times'),
        (SD, 'synthetic_ensemble'), (TM, 'eigenspectrum')])
    return EXPLANATION
